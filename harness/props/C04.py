"""C04 - comments, blank lines and whitespace never change what is measured.

Theorems (Props/C04.lean): at token level the analysis commutes with every strictly monotone
line relabelling and ignores whitespace / non-marker comment tokens. What is assumed there -
that inserting such lines at token-safe points changes each lexer's code-token stream only by
a relabelling - is checked here on real texts: metamorphic comparison of the real analysis
before and after 1..5 simultaneous insertions at token-safe points (the oracle), with the
model run on the variant as the tie."""
import os
import sys

sys.path.insert(0, os.path.dirname(os.path.dirname(os.path.abspath(__file__))))
import common
import scan_real as sr
import scan_streams
from props import C15

ID = "C04"
TRUSTED = [
    "correspondence harness (harness/props/C04.py, scan_streams.py, file_front.py): computation of token-safe insertion points from the real lexer's raw token stream",
    "translator/patterns.py (shipped header patterns -> Gen/Languages.lean)",
    "modelled, not verified: Pygments lexers - that inserted blank/comment lines change the code-token stream only by a line relabelling is the part checked by this run, not proved",
]
ASSUMPTIONS = ["insertions happen at line boundaries whose newline belongs to a whitespace token or ends a single-line comment (not inside a multi-line token or a backslash continuation)"]
regen = C15.regen
REGRESS = [("JavaScript", "function f() {\n  x = 1\n  y = 2;\n}\n", [("comment", 2, "// note")]),   # F12: zero-length Text token before a comment
           ("TypeScript", "function f() {\n  x = 1\n}\n", [("trail", 2, " // t")])]


KF2_WITNESS = ("C", "int fn1(int a,\n    int b) {\n  x = 1;\n}\n", [("comment", 1, "  /* int g() { */")])


def code_stream(lang, code):
    """the Pygments lexer's own sequence of non-comment, non-whitespace (type, value) tokens"""
    return [(str(tt), v) for (_, tt, v) in sr.raw_tokens(lang, code)[0] if sr.kind_of(tt) not in (5, 6)]


def lexer_changed(lang, code, variant):
    """did the insertion change the LEXER's code-token stream (not just Code Limit's view of it)?"""
    return code_stream(lang, code) != code_stream(lang, variant)


def matches_known(k, failure):
    """KF2: the Pygments C/C++ lexers tokenise a whole function header with one regular expression
    (`[^;]*?` up to the first ')' and `[^;{]*` up to the first '{'); a comment containing one of
    these delimiters inside a multi-line header is therefore not lexed as a comment. Signature:
    language C or C++, the lexer's own code-token stream differs between original and variant."""
    return k.get("id") == "KF2" and failure.get("kind") == "lexer" and failure["input"]["language"] in ("C", "C++")


def replay_known(k):
    lang, code, edits = KF2_WITNESS
    v = apply_edits(code, edits)
    o = sr.decode_scan(sr.real_scan(lang, code)); d = sr.decode_scan(sr.real_scan(lang, v))
    return bool(o and d and d[0] != expected_after(o[0], edits) and lexer_changed(lang, code, v))


def safe_points(lang, code):
    """-> (boundaries, trail_lines): k in boundaries = a line may be inserted after line k
    (0 = before the first line); l in trail_lines = a trailing comment / blanks may be appended to line l"""
    raw, bad = sr.raw_tokens(lang, code)
    if bad or "\r" in code:
        return [], []
    from pygments.token import Comment, String
    owner = {}
    for (off, tt, val) in raw:
        for j, ch in enumerate(val):
            if ch == "\n":
                kind = sr.kind_of(tt)
                if kind == 6 and val.isspace():
                    owner[off + j] = "ws"
                elif tt in Comment and j == len(val) - 1 and tt not in Comment.Preproc and tt not in Comment.PreprocFile:
                    owner[off + j] = "cend"
                else:
                    owner[off + j] = "tok"
    nl = [i for i, ch in enumerate(code) if ch == "\n"]
    boundaries = [0] if (not raw or True) else []
    trail = []
    for k, pos in enumerate(nl, start=1):
        if owner.get(pos) in ("ws", "cend"):
            boundaries.append(k)
        if owner.get(pos) == "ws":
            trail.append(k)
    # line 0 boundary is unsafe if the first token is a shebang-like thing; fine otherwise
    return boundaries, trail


def comment_for(lang, rnd, trailing=False, pool=None):
    """comment texts; comment-ONLY lines may even start with the suppression marker: such a
    comment sits on no function's name line, so it must not change anything either"""
    if pool and rnd.random() < 0.5:
        # a text that makes the file look like another language to Pygments (scan_streams.lookalike_texts)
        body = rnd.choice(pool)
        if trailing and scan_streams.starts_with_marker(body):
            body = "x " + body
        return ("# " + body) if lang == "Python" else rnd.choice(["// " + body, "/* " + body + " */"])
    if rnd.random() < FOREIGN_SHARE:
        # texts in the syntax of many languages (sigils, brackets, quotes, foreign comment openers, rulers) and literals
        # of the code under check (those that are new in the source with a high weight)
        return scan_streams.foreign_comment(lang, rnd, trailing)
    if lang == "Python":
        return rnd.choice(["# note", "# def x():", "#(", "#  later: nocl", "# {"] + ([] if trailing else ["# nocl", "#NOCL"]))
    c = rnd.choice(["// note", "/* block */", "// f() {", "/* { */", "// }", "/* int g() { */", "// x nocl"] + ([] if trailing else ["// nocl", "/* nocl */", "//NoCl"]))
    return c


FOREIGN_SHARE = 0.35


def make_variant(lang, code, rnd, boundaries, trail, pool=None):
    """-> (variant text, edits) ; edits = list of (kind, line, text)"""
    lines = code.split("\n")
    edits = []
    n = rnd.randint(1, 5)
    for _ in range(n):
        r = rnd.random()
        if r < 0.3 and boundaries:
            edits.append(("blank", rnd.choice(boundaries), rnd.choice(["", "   ", "\t", "\x0c", " \x0b ", "\x1c", "\x85", "\u2028", "\xa0\u2003"])))
        elif r < 0.6 and boundaries:
            edits.append(("comment", rnd.choice(boundaries), " " * rnd.choice([0, 2, 4, 8]) + comment_for(lang, rnd, False, pool)))
        elif r < 0.7 and boundaries and lang != "Python":
            edits.append(("block2", rnd.choice(boundaries), None))
        elif r < 0.9 and trail:
            edits.append(("trail", rnd.choice(trail), " " * rnd.randint(1, 3) + comment_for(lang, rnd, True, pool)))
        elif trail:
            edits.append(("trail", rnd.choice(trail), rnd.choice([" ", "  ", "\t", " \x0c", "\xa0"]) * rnd.randint(1, 3)))
    return apply_edits(code, edits), edits


def apply_edits(code, edits):
    lines = code.split("\n")
    trails = {}
    inserts = {}
    for (kind, k, text) in edits:
        if kind == "trail":
            if k not in trails:       # at most one trailing addition per line
                trails[k] = text
        elif kind == "block2":
            inserts.setdefault(k, []).extend(["/* a block", "   comment ( { */"])
        else:
            inserts.setdefault(k, []).append(text)
    out = list(inserts.get(0, []))
    for i, ln in enumerate(lines, start=1):
        out.append(ln + trails.get(i, ""))
        out.extend(inserts.get(i, []))
    return "\n".join(out)


def shift_fn(edits):
    counts = {}
    for (kind, k, text) in edits:
        if kind == "trail":
            continue
        counts[k] = counts.get(k, 0) + (2 if kind == "block2" else 1)
    ks = sorted(counts)

    def f(l):
        return l + sum(counts[k] for k in ks if k < l)
    return f


def expected_after(ms, edits):
    f = shift_fn(edits)
    return [(n, f(sl), sc, f(el), ec, ln) for (n, sl, sc, el, ec, ln) in ms]


# ---- size ladder: files of 10^2 .. 10^4 lines x 10 .. 10^5 simultaneous insertions -----------------------------------

def ladder_comment(lang, rnd, trailing=False):
    """C / C++: comment texts without the delimiters of KF2 (with thousands of insertions one of them always lands inside
    a multi-line parameter list, and the known finding would hide everything else)"""
    if lang in ("C", "C++"):
        return rnd.choice(["// note", "/* block */", "// x nocl", "/* a */ /* b */", "//"] + ([] if trailing else ["// nocl", "/* nocl */", "//NoCl"]))
    return comment_for(lang, rnd, trailing)


def many_edits(lang, rnd, boundaries, trail, n):
    """n insertions, drawn one after the other (the first k of them are the same for every n >= k): comment-only lines
    in every style, blank / whitespace-only lines, two-line block comments, trailing comments and blanks; any number of
    them at the same boundary"""
    edits = []
    trailed = set()
    for _ in range(n):
        r = rnd.random()
        if r < 0.12 and boundaries:
            edits.append(("blank", rnd.choice(boundaries), rnd.choice(["", "   ", "\t", "\x0c", "\u2028"])))
        elif r < 0.80 and boundaries:
            edits.append(("comment", rnd.choice(boundaries), " " * rnd.choice([0, 2, 4, 8]) + ladder_comment(lang, rnd)))
        elif r < 0.85 and boundaries and lang not in ("Python", "C", "C++"):
            edits.append(("block2", rnd.choice(boundaries), None))
        elif trail:
            k = rnd.choice(trail)
            if k not in trailed:
                trailed.add(k)
                edits.append(("trail", k, " " * rnd.randint(1, 3) + ladder_comment(lang, rnd, True)))
            elif boundaries:
                edits.append(("comment", rnd.choice(boundaries), ladder_comment(lang, rnd)))
        elif boundaries:
            edits.append(("comment", rnd.choice(boundaries), ladder_comment(lang, rnd)))
    return edits


def ladder_descs(ctx):
    if getattr(ctx, "_c04ladder", None) is None:
        rnd = ctx.rng("c04ladder-edits")
        out = []
        files = scan_streams.ladder_programs(ctx, ctx.pick([], [3162]), ctx.pick([100, 1000], [100, 1000, 10 ** 4]), "c04ladder",
                                             many_python=ctx.pick([100, 1000], [100, 1000, 3162]))
        for (lang, text, o, d) in files:
            for n in scan_streams.rungs(10, 10 ** 5, True):
                out.append(dict(d, insertions=n, edit_seed=rnd.getrandbits(48)))
        ctx._c04ladder = out
    return ctx._c04ladder


def ladder_variant(desc):
    """-> (language, original text, variant text, edits)"""
    import random
    lang = desc["language"]
    code = scan_streams.ladder_program(desc)[1]
    b, t = safe_points(lang, code)
    edits = many_edits(lang, random.Random(desc["edit_seed"]), b, t, desc["insertions"])
    return lang, code, apply_edits(code, edits), edits


def fast_expected(ms, edits):
    """expected_after for many edits: prefix sums instead of one pass over the edits per line"""
    from bisect import bisect_left
    counts = {}
    for (kind, k, text) in edits:
        if kind != "trail":
            counts[k] = counts.get(k, 0) + (2 if kind == "block2" else 1)
    ks = sorted(counts)
    pre = [0]
    for k in ks:
        pre.append(pre[-1] + counts[k])
    f = lambda l: l + pre[bisect_left(ks, l)]
    return [(n, f(sl), sc, f(el), ec, ln) for (n, sl, sc, el, ec, ln) in ms]


def _ladder_work(desc):
    """real analysis of original and variant; -> None if the property holds, else (observed, required, kind, functions)"""
    lang, code, v, edits = ladder_variant(desc)
    o = sr.decode_scan(sr.real_scan(lang, code))
    r = sr.real_scan(lang, v)
    d = sr.decode_scan(r)
    if o is None:
        return {"functions": 0, "bad": None}
    want = fast_expected(o[0], edits)
    got = d[0] if d else r
    if got == want:
        return {"functions": len(o[0]), "bad": None}
    return {"functions": len(o[0]), "bad": ("%d functions reported; first differences: %s" % (len(got), [x for x in got if x not in set(want)][:3]) if d else r[:200],
                                            "%d functions; e.g. %s" % (len(want), [x for x in want if d is None or x not in set(got)][:3]),
                                            "lexer" if lexer_changed(lang, code, v) else "pipeline")}


def ladder_failures(ctx, dist=None, started=None):
    jobs = sorted(ladder_descs(ctx), key=lambda d: -(d["lines"] + d["insertions"]))
    fails = []
    nontrivial = 0
    for d, res in zip(jobs, (started or scan_streams.Heavy(_ladder_work, jobs, 12)).results()):
        if dist is not None:
            key = "%d lines x %d insertions" % (d["lines"], d["insertions"])
            dist["ladder"][key] = dist["ladder"].get(key, 0) + 1
        nontrivial += 1 if res["functions"] else 0
        if res["bad"]:
            fails.append({"input": dict(d), "observed": res["bad"][0], "required": res["bad"][1], "kind": res["bad"][2]})
    fails.sort(key=lambda f: (f["input"]["lines"], f["input"]["insertions"]))
    for f in fails[:2]:
        # fewest insertions (a prefix of the same edit list) that still fail
        d = f["input"]
        small = scan_streams.bisect_size(lambda k, d=d: bool(_ladder_work(dict(d, insertions=k))["bad"]), 0, d["insertions"], budget_s=10.0)
        bad = _ladder_work(dict(d, insertions=small))["bad"]
        if bad:
            f.update({"input": dict(d, insertions=small, found_at_insertions=d["insertions"]), "observed": bad[0], "required": bad[1], "kind": bad[2]})
    return len(jobs), nontrivial, fails[:6]


# ---- observation through files: the file-name based front end (Scanner.scan_path) ------------------------------------

def file_variants(ctx):
    """canonical programs and their variants as FILES, named by any file name Pygments maps to the language (four in
    five; half of those among the names another lexer claims too: `*.h`, `*.hh`, ...), every line end x encoding in turn
    -> [case dict]"""
    import file_front as ff
    rnd = ctx.rng("c04files")
    out = []
    # byte-level forms, taken in turn: every line end (LF, CR LF, CR, mixed) x every encoding Code Limit reads (UTF-8 with
    # a non-ASCII character, plain ASCII, a legacy 8-bit encoding: a non-ASCII character stored as ONE byte, not UTF-8)
    forms = [(nl, enc) for enc in ("ascii", "utf-8", "latin-1") for nl in ff.NEWLINES]
    rnd.shuffle(forms)
    for k, (lang, code, _) in enumerate(scan_streams.canonical(ctx, ctx.pick(12, 120), "c04files")):
        nl, enc = forms[k % len(forms)]
        if enc != "ascii":
            tail = ("# caf\xe9 \xa9 1999" if lang == "Python" else "// caf\xe9 \xa9 1999") + "\n"
            code = code + ("" if code.endswith("\n") or not code else "\n") + tail
        try:
            code.encode("utf-8" if enc == "ascii" else enc)
        except UnicodeEncodeError:
            enc = "utf-8"
        b, t = safe_points(lang, code)
        if not b and not t:
            continue
        name = ff.pick_name(lang, rnd, "m%d" % len(out), sr.EXT[lang], share=0.8)
        # for a name that several lexers claim: half of the comments from the texts that Pygments' content heuristics of
        # a competing lexer rate above the resolved one
        pool = scan_streams.lookalike_texts(name, ctx.rng("c04lookalike", os.path.splitext(name)[1])) or None
        for _ in range(ctx.pick(3, 6)):
            v, edits = make_variant(lang, code, rnd, b, t, pool)
            if edits:
                out.append({"language": lang, "name": name, "newline": nl, "encoding": _encodable(enc, v), "nl_seed": rnd.randrange(10 ** 6), "code": code, "variant": v, "edits": edits})
        # white space at the EDGES of the file only: blank / whitespace-only lines above the first and below the last line,
        # trailing blanks (what an editor's clean-up or a merge leaves behind)
        edits = [("blank", 0, rnd.choice(["", "", "  ", "\t"])) for _ in range(rnd.randint(1, 3))] if 0 in b else []
        if b and b[-1] != 0 and rnd.random() < 0.5:
            edits += [("blank", b[-1], rnd.choice(["", " "]))]
        if t and rnd.random() < 0.5:
            edits += [("trail", rnd.choice(t), rnd.choice([" ", "  ", "\t"]))]
        if edits:
            out.append({"language": lang, "name": name, "newline": nl, "encoding": _encodable(enc, apply_edits(code, edits)), "nl_seed": rnd.randrange(10 ** 6), "code": code, "variant": apply_edits(code, edits), "edits": edits})
    return out


def _encodable(enc, text):
    """`enc` if the (variant) text can be stored in it, else UTF-8 (an inserted comment may hold any character)"""
    try:
        text.encode("utf-8" if enc == "ascii" else enc)
        return enc
    except UnicodeEncodeError:
        return "utf-8"


def case_bytes(c, text):
    """the bytes of the case's file: its line ends and its encoding (`ascii`: the text has no other characters)"""
    import random
    import file_front as ff
    enc = c.get("encoding", "utf-8")
    return ff.to_bytes(text, c["newline"], False, random.Random(c.get("nl_seed", 0)), "utf-8" if enc == "ascii" else enc)


def file_failures(cases, workers=8):
    """-> (variants, variants of files with functions, oracle failures); the cases are dealt out to `workers` trees"""
    cases = list(cases)
    chunks = [cases[i::workers] for i in range(workers) if cases[i::workers]]
    n, nontrivial, fails = 0, 0, []
    for (a, b, fs) in scan_streams.heavy_map(_file_chunk, chunks, workers):
        n += a; nontrivial += b; fails += fs
    fails.sort(key=lambda f: len(f["input"]["code"]) + 50 * len(f["input"]["edits"]))
    return n, nontrivial, fails[:8]


def _file_chunk(cases):
    """original and variant of every case in two directories of ONE tree, one Scanner.scan_path over it; oracle: the
    variant file is listed with the original file's functions, each line shifted by the lines inserted above it"""
    import file_front as ff
    fails, nontrivial = [], 0
    with ff.Tree("c04files_") as tree:
        for i, c in enumerate(cases):
            c["o"] = os.path.join("o%04d" % i, c["name"]); c["v"] = os.path.join("v%04d" % i, c["name"])
            tree.write(c["o"], case_bytes(c, c["code"]))
            tree.write(c["v"], case_bytes(c, c["variant"]))
        cb, err = tree.scan()
        got = ff.entries(cb) if cb is not None else {}
        for c in cases:
            inp = {"stream": "file", "language": c["language"], "name": c["name"], "newline": c["newline"], "encoding": c.get("encoding", "utf-8"), "nl_seed": c.get("nl_seed", 0), "code": c["code"], "edits": [list(e) for e in c["edits"]]}
            if err:
                fails.append({"input": inp, "observed": "scan_path: " + err, "required": "completes", "kind": "pipeline"}); break
            o, v = got.get(c["o"]), got.get(c["v"])
            if o is None:
                continue        # not analysed under this name at all: nothing to compare (counted as trivial)
            nontrivial += 1 if o[1] else 0
            want = expected_after(o[1], c["edits"])
            c["o_ms"] = o[1]
            if v is None or v[1] != want:
                fails.append({"input": inp, "observed": "the variant file is not listed by scan_path although the original is" if v is None else [x for x in v[1] if x not in want][:3],
                              "required": want[:3] if v is None else [x for x in want if x not in v[1]][:3],
                              "kind": "lexer" if lexer_changed(c["language"], c["code"], c["variant"]) else "pipeline"})
        # history: the SAME path is edited (original overwritten by its variant) and the tree is scanned again with the
        # first scan's report as cache, as `codelimit scan` does on every run after the first
        if cb is not None and not err:
            report = ff.report_of(cb)
            for c in cases:
                tree.write(c["o"], case_bytes(c, c["variant"]))
            cb2, err2 = tree.scan(report)
            got2 = ff.entries(cb2) if cb2 is not None else {}
            for c in cases:
                if "o_ms" not in c:
                    continue
                inp = {"stream": "file", "history": "edited in place, scanned again with the first report as cache", "language": c["language"], "name": c["name"],
                       "newline": c["newline"], "encoding": c.get("encoding", "utf-8"), "nl_seed": c.get("nl_seed", 0), "code": c["code"], "edits": [list(e) for e in c["edits"]]}
                if err2:
                    fails.append({"input": inp, "observed": "scan_path: " + err2, "required": "completes", "kind": "pipeline"}); break
                want = expected_after(c["o_ms"], c["edits"])
                v = got2.get(c["o"])
                if (v is None or v[1] != want) and not lexer_changed(c["language"], c["code"], c["variant"]):
                    fails.append({"input": inp, "observed": "not listed" if v is None else [x for x in v[1] if x not in want][:3],
                                  "required": want[:3] if v is None else [x for x in want if x not in v[1]][:3], "kind": "pipeline"})
    fails.sort(key=lambda f: len(f["input"]["code"]) + 50 * len(f["input"]["edits"]))
    return 2 * len(cases), nontrivial, fails[:8]


# ---- column ladder: insertions next to a line whose code starts beyond column n ----------------------------------------

def wide_jobs(ctx):
    if getattr(ctx, "_c04wide", None) is None:
        rnd = ctx.rng("c04wide-edits")
        ctx._c04wide = [dict(d, edit_seed=rnd.getrandbits(48)) for d in scan_streams.wide_descs(ctx, scan_streams.column_rungs(ctx), ctx.pick(2, 4), "c04wide")]
    return ctx._c04wide


def wide_variants(desc):
    """-> (language, text, [edits]): ONE insertion at every token-safe boundary within three lines of the widened line
    (blank line / comment-only line), and two random multi-insertion variants"""
    import random
    w = scan_streams.wide_program(desc)
    if w is None:
        return desc["language"], None, []
    text, _, ln = w
    lang = desc["language"]
    rnd = random.Random(desc["edit_seed"])
    b, t = safe_points(lang, text)
    out = []
    for k in b:
        if ln - 3 <= k <= ln + 3:
            out.append([("blank", k, "")] if rnd.random() < 0.5 else [("comment", k, ladder_comment(lang, rnd))])
            if rnd.random() < 0.3:
                out.append([("blank", k, "")] * rnd.randint(2, 4))
    for _ in range(2):
        e = make_variant(lang, text, rnd, b, t)[1]
        if e:
            out.append(e)
    return lang, text, out


def _wide_work(desc):
    lang, text, variants = wide_variants(desc)
    if text is None:
        return {"n": 0, "functions": 0, "bad": None}
    if "edits" in desc:
        variants = [[tuple(e) for e in desc["edits"]]]
    o = sr.decode_scan(sr.real_scan(lang, text))
    if o is None:
        return {"n": 0, "functions": 0, "bad": None}
    for edits in variants:
        v = apply_edits(text, edits)
        r = sr.real_scan(lang, v)
        d = sr.decode_scan(r)
        want = expected_after(o[0], edits)
        got = d[0] if d else r
        if got != want:
            return {"n": len(variants), "functions": len(o[0]),
                    "bad": ([list(e) for e in edits], got if d is None else [x for x in got if x not in want][:3], [x for x in want if d is None or x not in got][:3],
                            "lexer" if lexer_changed(lang, text, v) else "pipeline")}
    return {"n": len(variants), "functions": len(o[0]), "bad": None}


def wide_failures(ctx, dist=None):
    jobs = wide_jobs(ctx)
    fails, n, nontrivial = [], 0, 0
    for d, res in zip(jobs, scan_streams.heavy_map(_wide_work, jobs)):
        n += res["n"]
        nontrivial += res["n"] if res["functions"] else 0
        if dist is not None:
            dist.setdefault("column_ladder", {})[str(d["chars"])] = dist.setdefault("column_ladder", {}).get(str(d["chars"]), 0) + res["n"]
        if res["bad"]:
            fails.append({"input": dict(d, edits=res["bad"][0]), "observed": res["bad"][1], "required": res["bad"][2], "kind": res["bad"][3]})
    fails.sort(key=lambda f: f["input"]["chars"])
    for f in fails[:2]:
        d = f["input"]
        small = scan_streams.bisect_size(lambda k, d=d: bool(_wide_work(dict(d, chars=k))["bad"]), 5, d["chars"])
        bad = _wide_work(dict(d, chars=small))["bad"]
        if bad:
            f.update({"input": dict(d, chars=small, found_at_chars=d["chars"]), "observed": bad[1], "required": bad[2], "kind": bad[3]})
    return n, nontrivial, fails[:4]


# ---- listings: the findings listing (library, text and markdown formatters, CLI) before / after invisible edits -----------

INSERT_RUNGS = [1, 2, 3, 5, 9, 10, 30, 90, 100, 1000]


def listing_cases(ctx):
    """trees of 1..3 files; every file holds several functions of EQUAL length above the listing threshold (lengths from a
    ladder around 30 / 60, each used 2..5 times, shuffled); edits: runs of 1 .. 1000 (+ integers new in the source) blank /
    whitespace-only / comment-only lines inserted above the first function or between two functions"""
    import file_front as ff
    from gen import srcdict
    rnd = ctx.rng("c04listing")
    rungs = sorted(set(INSERT_RUNGS) | set(srcdict.novel_rungs(1, 3000)))
    lengths = sorted({31, 32, 36, 45, 60, 61, 62, 75, 100} | set(srcdict.novel_rungs(31, 150)))
    cases = []
    for k in range(ctx.pick(8, 60)):
        files, edits = {}, {}
        for j in range(rnd.randint(1, 3)):
            lang = rnd.choice(sr.LANGS)
            ls = []
            for n in rnd.sample(lengths, rnd.randint(1, 3)):
                ls += [n] * rnd.randint(2, 5)
            rnd.shuffle(ls)
            text, gaps = scan_streams.tie_program(lang, [("t%d_%d_%d" % (k, j, i), n) for i, n in enumerate(ls)])
            rel = os.path.join(rnd.choice(["", "src", "lib"]), "m%d_%d.%s" % (k, j, sr.EXT[lang]))
            files[rel] = {"language": lang, "text": text}
            if j == 0 or rnd.random() < 0.6:
                c = "# %s" if lang == "Python" else rnd.choice(["// %s", "/* %s */"])
                edits[rel] = [[rnd.choice(gaps), rnd.choice(rungs), rnd.choice(["", "   ", "\t", c % "licence", c % "explains the step below"])] for _ in range(rnd.randint(1, 2))]
        cases.append({"stream": "listing", "files": files, "edits": edits, "newline": rnd.choice(["lf", "lf", "crlf"]), "cli": k < ctx.pick(1, 4)})
    return cases


def _insert_lines(text, edits):
    lines = text.split("\n")
    for (at, n, line) in sorted(edits, key=lambda e: -e[0]):
        lines[at:at] = [line] * n
    return "\n".join(lines)


def _listings(cb):
    """what users see of the findings: the library listing and the text / markdown formatters, default and --full"""
    import io
    from rich.console import Console
    from codelimit.common.report.Report import Report
    from codelimit.common.report import format_text, format_markdown
    rep = Report(cb)
    out = {"units": [(u.file, u.measurement.unit_name, u.measurement.start.line, u.measurement.value) for u in rep.all_report_units_sorted_by_length_asc(30)]}
    for full in (False, True):
        buf = io.StringIO(); format_text.print_findings(Console(file=buf, width=250, soft_wrap=True), rep, full); out["findings%s" % (" --full" if full else "")] = buf.getvalue()
        buf = io.StringIO(); format_markdown.print_findings(rep, Console(file=buf, width=250, soft_wrap=True), full); out["findings --format markdown%s" % (" --full" if full else "")] = buf.getvalue()
    return out


def _names_in(text):
    import re
    return re.findall(r"\bt\d+_\d+_\d+\b", text)


def _listing_work(case):
    """-> (functions listed, failures): the listing of the edited tree = the listing of the original tree, the same
    functions in the same order (every view), each line shifted by the lines inserted above it (library view)"""
    import file_front as ff
    fails = []
    inp = {k: case[k] for k in ("stream", "files", "edits", "newline", "cli")}
    with ff.Tree("c04list_") as tree:
        views = []
        for phase in (0, 1):
            for rel, f in case["files"].items():
                text = f["text"] if phase == 0 else _insert_lines(f["text"], case["edits"].get(rel, []))
                tree.write(rel, ff.to_bytes(text, case["newline"]))
            cb, err = tree.scan()
            if err:
                return 0, [{"input": inp, "observed": "scan_path: " + err, "required": "completes", "kind": "pipeline"}]
            v = _listings(cb)
            if case.get("cli"):
                st, out = ff.cli(["scan", tree.root], tree.root)
                for args in (["findings"], ["findings", "--full"], ["findings", "--format", "markdown"]):
                    st2, out2 = ff.cli(args + [tree.root], tree.root)
                    v["CLI: codelimit scan; codelimit %s" % " ".join(args)] = "exit %s/%s\n%s" % (st, st2, out2)
            views.append(v)
        before, after = views
        shift = lambda rel, line: line + sum(n for (at, n, _) in case["edits"].get(rel, []) if at < line)
        want = [(f, name, shift(f, line), value) for (f, name, line, value) in before["units"]]
        if after["units"] != want:
            diff = [i for i, (a, b) in enumerate(zip(after["units"], want)) if a != b][:1]
            fails.append({"input": inp, "observed": "library listing, first difference at row %s: %s" % (diff, after["units"][diff[0]:diff[0] + 3] if diff else len(after["units"])),
                          "required": "the rows of the original listing with shifted lines: %s" % (want[diff[0]:diff[0] + 3] if diff else len(want)), "kind": "pipeline"})
        for key in before:
            if key != "units" and _names_in(before[key]) != _names_in(after[key]):
                fails.append({"input": inp, "observed": "%s lists %s" % (key, _names_in(after[key])[:12]), "required": "the functions of the listing before the edit, in that order: %s" % _names_in(before[key])[:12], "kind": "pipeline"})
        return len(before["units"]), fails[:2]


def listing_failures(ctx, dist=None):
    cases = listing_cases(ctx)
    res = scan_streams.heavy_map(_listing_work, cases, 6)
    fails = [f for (_, fs) in res for f in fs]
    fails.sort(key=lambda f: sum(len(x["text"]) for x in f["input"]["files"].values()))
    if dist is not None:
        dist["listings"] = {"trees": len(cases), "functions_listed": sum(n for (n, _) in res), "through_the_cli": sum(1 for c in cases if c["cli"]),
                            "inserted_runs": sorted({e[1] for c in cases for es in c["edits"].values() for e in es})}
    return len(cases), sum(1 for (n, _) in res if n), fails[:4]


def _extra_job(tier):
    """the file stream and the column ladder, run in a worker process next to the in-memory comparison"""
    import main
    ctx = main.Ctx(ID, tier)
    dist = {}
    fcases = file_variants(ctx)
    nfile, fnontrivial, ffails = file_failures(fcases)
    dist["files"] = {"variants": nfile, "with_functions": fnontrivial, "crlf": sum(1 for c in fcases if c["newline"] == "crlf"),
                     "line_ends_x_encodings": {"%s/%s" % (nl, enc): sum(1 for c in fcases if (c["newline"], c["encoding"]) == (nl, enc)) for nl in ("lf", "crlf", "cr", "mixed") for enc in ("ascii", "utf-8", "latin-1")},
                     "names": sorted({os.path.splitext(c["name"])[1] or c["name"] for c in fcases})}
    nwide, wnontrivial, wfails = wide_failures(ctx, dist)
    nlist, lnontrivial, lfails = listing_failures(ctx, dist)
    return nfile + nwide + nlist, fnontrivial + wnontrivial + lnontrivial, lfails + wfails + ffails, dist


def base_cases(ctx):
    out = [(l, t) for (l, t, _) in scan_streams.canonical(ctx, ctx.pick(40, 120), "c04")]
    out += [(l, t) for (l, t) in scan_streams.corpus_cases() if len(t) < 30000]
    return out


def _correspond_programs(ctx):
    extra = scan_streams.Heavy(_extra_job, [ctx.tier], 1)
    heavy = scan_streams.Heavy(_ladder_work, sorted(ladder_descs(ctx), key=lambda d: -(d["lines"] + d["insertions"])), 12)
    rnd = ctx.rng("edits")
    base = base_cases(ctx)
    variants = []
    for (lang, code, edits) in REGRESS:
        variants.append((lang, code, apply_edits(code, edits), edits))
    per = ctx.pick(3, 12)
    dist = {"edits": {}, "files": len(base), "points_considered": 0}
    for (lang, code) in base:
        b, t = safe_points(lang, code)
        dist["points_considered"] += len(b) + len(t)
        if not b and not t:
            continue
        if ctx.thorough and code.count("\n") <= 100:
            # every safe point once, one edit at a time
            for k in b:
                variants.append((lang, code, apply_edits(code, [("comment", k, comment_for(lang, rnd))]), [("comment", k, "c")]))
            for l in t:
                e = [("trail", l, "  " + comment_for(lang, rnd, True))]
                variants.append((lang, code, apply_edits(code, e), e))
        for _ in range(per):
            v, edits = make_variant(lang, code, rnd, b, t)
            if edits:
                variants.append((lang, code, v, edits))
    originals = {}
    uniq = list({(l, c) for (l, c, _, _) in variants})
    for (l, c), r in zip(uniq, sr.real_scan_many(uniq)):
        originals[(l, c)] = r
    vr = sr.real_scan_many([(l, v) for (l, _, v, _) in variants])
    vm = sr.model_scan_many([sr.scan_request(l, v) for (l, _, v, _) in variants])
    dis, fails = [], []
    nontrivial = set()
    for (lang, code, v, edits), r, m in zip(variants, vr, vm):
        inp = {"language": lang, "code": code, "edits": [list(e) for e in edits]}
        if r != m:
            dis.append({"stream": "scan/%s" % lang, "input": dict(inp, variant=v), "model": m[:300], "impl": r[:300]})
        o = sr.decode_scan(originals[(lang, code)])
        d = sr.decode_scan(r)
        if o is None:
            continue
        want = expected_after(o[0], edits)
        got = d[0] if d else r
        if got != want:
            fails.append({"input": inp, "observed": got if d is None else [x for x in got if x not in want][:3], "required": [x for x in want if d is None or x not in got][:3],
                          "kind": "lexer" if lexer_changed(lang, code, v) else "pipeline"})
        if o[0]:
            nontrivial.add((lang, v))
        for e in edits:
            dist["edits"][e[0]] = dist["edits"].get(e[0], 0) + 1
    dist["ladder"] = {}
    nladder, lnontrivial, lfails = ladder_failures(ctx, dist, heavy)
    fails = lfails + fails
    nextra, enontrivial, efails, edist = extra.results()[0]
    dist.update(edist)
    fails = efails + fails
    nladder += nextra
    lnontrivial += enontrivial
    dist["foreign_comment_texts"] = sum(1 for (_, _, _, edits) in variants for e in edits if e[0] in ("comment", "trail") and e[2] and any(ch in e[2] for ch in "@[$<`"))
    return {
        "evaluations": len(variants) + nladder, "distinct_nontrivial": len(nontrivial) + lnontrivial,
        "rule": "LISTINGS: trees of 1..3 files holding several functions of EQUAL length above the listing threshold (lengths 31 .. 100, each 2..5 times, shuffled), the findings listing observed through Report.all_report_units_sorted_by_length_asc, the text and markdown formatters (default and --full) and `codelimit scan` + `codelimit findings [--full|--format markdown]` in fresh processes, before and after runs of 1, 2, 3, 5, 9, 10, 30, 90, 100, 1000 (+ integers new in the source) blank / whitespace-only / comment-only lines inserted above the first function or between functions: same functions in the same order, lines shifted; comment texts: each language's own styles plus (a third) texts in the syntax of many languages - sigil words, quoted strings, bracketed word groups, foreign comment openers, rulers, string literals of the code under check; FILES: original and variant written under any file name Pygments maps to the language (`*.h`, `*.hh`, `*.mjs`, `BUILD`, ...; as BYTES in every combination of line end (LF, CR LF, CR, mixed) x encoding (ASCII, UTF-8 with a non-ASCII character, a legacy 8-bit encoding that is not valid UTF-8), taken in turn; for names that several lexers claim, half of the comment texts are those that a competing lexer's Pygments content heuristic rates above the resolved lexer's) and observed through Scanner.scan_path(root).files, fresh and - history - after the original was overwritten by its variant, scanned again with the first scan's report as cache (one variant per file with white space at the edges of the file only); column ladder: one code line of a brace-language program pushed right by 10^2 .. 10^5 characters (block comment / blanks; plus n-1, n, n+1, 2n for integers new in the source) x one insertion at every safe boundary within three lines of it + random multi-insertions; size ladder: generated files of 10^2 .. 10^4 lines (many functions; thorough: also one function of 3162 lines) x 10, 10^2, 10^3, 10^4, 10^5 simultaneous insertions (any number at the same point), real analysis before and after, direct oracle only; canonical programs and the vendored corpus x 1..5 simultaneous insertions (blank line, whitespace-only line, comment-only line in every comment style of the language incl. two-line block comments, trailing comment, trailing blanks) at token-safe points computed from the real lexer's token stream (thorough: additionally every safe point of every file of at most 100 lines); oracle: analysis of the variant = analysis of the original with every line shifted by the number of lines inserted above it; non-trivial = distinct variants of files with at least one function",
        "samples": [{"language": l, "edits": e, "original": originals[(l, c)][:80], "variant": r[:80]} for (l, c, v, e), r in list(zip(variants, vr))[5:8]],
        "exhaustive": False, "distribution": dist,
        "disagreements": dis[:50], "oracle_failures": fails[:50],
    }


def search(ctx, hints):
    rnd = ctx.rng("search")
    fails = []
    variants = [(l, c, apply_edits(c, e), e) for (l, c, e) in REGRESS]
    for (lang, code) in base_cases(ctx):
        b, t = safe_points(lang, code)
        for _ in range(6):
            v, edits = make_variant(lang, code, rnd, b, t)
            if edits:
                variants.append((lang, code, v, edits))
    uniq = list({(l, c) for (l, c, _, _) in variants})
    originals = dict(zip(uniq, sr.real_scan_many(uniq)))
    vr = sr.real_scan_many([(l, v) for (l, _, v, _) in variants])
    for (lang, code, v, edits), r in zip(variants, vr):
        o = sr.decode_scan(originals[(lang, code)]); d = sr.decode_scan(r)
        if o is None:
            continue
        want = expected_after(o[0], edits)
        if (d[0] if d else r) != want:
            fails.append({"input": {"language": lang, "code": code, "edits": [list(e) for e in edits]}, "observed": r[:200], "required": str(want)[:200],
                          "kind": "lexer" if lexer_changed(lang, code, v) else "pipeline"})
    fails.sort(key=lambda f: len(f["input"]["code"]) + 50 * len(f["input"]["edits"]))
    return fails[:8] + ladder_failures(ctx)[2][:3] + wide_failures(ctx)[2][:2] + file_failures(file_variants(ctx))[2][:3] + listing_failures(ctx)[2][:2]


def replay(payload):
    inp = payload["input"]
    if inp.get("stream") == "wide":
        res = _wide_work(inp)
        print("%s: generated program with one line pushed right by %d characters (%s), edits %s -> %s" % (inp["language"], inp["chars"], inp.get("kind"), inp.get("edits"), res["bad"] or "unchanged up to the line shift"))
        return not res["bad"]
    if inp.get("stream") == "listing":
        n, fs = _listing_work(inp)
        print("tree %s, runs of lines inserted %s -> %s" % (sorted(inp["files"]), {r: [(at, k, line) for (at, k, line) in es] for r, es in inp["edits"].items()}, fs[0]["observed"] if fs else "%d functions listed as before" % n))
        return not fs
    if inp.get("stream") == "file":
        c = dict(inp, edits=[tuple(e) for e in inp["edits"]])
        c["variant"] = apply_edits(c["code"], c["edits"])
        n, nt, fs = file_failures([c])
        print("%s file %r, edits %s -> %s" % (inp["language"], inp["name"], c["edits"], fs[0]["observed"] if fs else "unchanged up to the line shift"))
        return not fs
    if inp.get("stream") == "ladder":
        res = _ladder_work(inp)
        print("%s: generated file of >= %d lines, %d insertions -> %s" % (inp["language"], inp["lines"], inp["insertions"], res["bad"] or "unchanged up to the line shift"))
        return not res["bad"]
    edits = [tuple(e) for e in inp["edits"]]
    o = sr.decode_scan(sr.real_scan(inp["language"], inp["code"]))
    v = apply_edits(inp["code"], edits)
    d = sr.decode_scan(sr.real_scan(inp["language"], v))
    want = expected_after(o[0], edits) if o else None
    print("edits %s\noriginal %s\nvariant  %s\nrequired %s" % (edits, o and o[0], d and d[0], want))
    return o is not None and d is not None and d[0] == want


def correspond(ctx):
    """the program stream above PLUS forests of the Lean type `Prog PTok` decorated with comments and suppression
    markers (harness/mark_stream.py): the expectation is the MARKED tree report computed by the model driver
    (`Props/C01marks.lean`: comments anywhere are invisible, a function named on a marked line is dissolved into its
    tokens - the tree-level form of this property)"""
    import mark_stream
    res = _correspond_programs(ctx)
    mk = mark_stream.correspond(ctx.rng("marktrees-%s" % ID), ctx.pick(250, 3000))
    for key in ("lexer_mismatch", "generator_bug", "model_errors"):
        for x in mk.get(key, [])[:10]:
            res["disagreements"].append({"stream": "marktree/%s" % key, "input": x.get("input"),
                                         "model": str(x.get("forest") or x.get("why") or x.get("model"))[:300], "impl": str(x.get("real", ""))[:300]})
    res["oracle_failures"] = list(res["oracle_failures"]) + mk["oracle_failures"][:20]
    res["evaluations"] += mk["evaluations"]
    res["distinct_nontrivial"] += mk["distinct_nontrivial"]
    res["rule"] += " PLUS " + mk["rule"]
    res["distribution"] = dict(res.get("distribution", {}), marktrees=dict(mk["distribution"], **mk.get("counts", {})))
    return res
