"""C04 - comments, blank lines and whitespace never change what is measured.

Theorems (Props/C04.lean): at token level the analysis commutes with every strictly monotone
line relabelling and ignores whitespace / non-marker comment tokens. What is assumed there -
that inserting such lines at token-safe points changes each lexer's code-token stream only by
a relabelling - is checked here on real texts: metamorphic comparison of the real analysis
before and after 1..5 simultaneous insertions at token-safe points (the oracle), with the
model run on the variant as the tie."""
import os
import sys

sys.path.insert(0, os.path.dirname(os.path.dirname(os.path.abspath(__file__))))
import common
import scan_real as sr
import scan_streams
from props import C15

ID = "C04"
TRUSTED = [
    "correspondence harness (harness/props/C04.py): computation of token-safe insertion points from the real lexer's raw token stream",
    "translator/patterns.py (shipped header patterns -> Gen/Languages.lean)",
    "modelled, not verified: Pygments lexers - that inserted blank/comment lines change the code-token stream only by a line relabelling is the part checked by this run, not proved",
]
ASSUMPTIONS = ["insertions happen at line boundaries whose newline belongs to a whitespace token or ends a single-line comment (not inside a multi-line token or a backslash continuation)"]
regen = C15.regen
REGRESS = [("JavaScript", "function f() {\n  x = 1\n  y = 2;\n}\n", [("comment", 2, "// note")]),   # F12: zero-length Text token before a comment
           ("TypeScript", "function f() {\n  x = 1\n}\n", [("trail", 2, " // t")])]


KF2_WITNESS = ("C", "int fn1(int a,\n    int b) {\n  x = 1;\n}\n", [("comment", 1, "  /* int g() { */")])


def code_stream(lang, code):
    """the Pygments lexer's own sequence of non-comment, non-whitespace (type, value) tokens"""
    return [(str(tt), v) for (_, tt, v) in sr.raw_tokens(lang, code)[0] if sr.kind_of(tt) not in (5, 6)]


def lexer_changed(lang, code, variant):
    """did the insertion change the LEXER's code-token stream (not just Code Limit's view of it)?"""
    return code_stream(lang, code) != code_stream(lang, variant)


def matches_known(k, failure):
    """KF2: the Pygments C/C++ lexers tokenise a whole function header with one regular expression
    (`[^;]*?` up to the first ')' and `[^;{]*` up to the first '{'); a comment containing one of
    these delimiters inside a multi-line header is therefore not lexed as a comment. Signature:
    language C or C++, the lexer's own code-token stream differs between original and variant."""
    return k.get("id") == "KF2" and failure.get("kind") == "lexer" and failure["input"]["language"] in ("C", "C++")


def replay_known(k):
    lang, code, edits = KF2_WITNESS
    v = apply_edits(code, edits)
    o = sr.decode_scan(sr.real_scan(lang, code)); d = sr.decode_scan(sr.real_scan(lang, v))
    return bool(o and d and d[0] != expected_after(o[0], edits) and lexer_changed(lang, code, v))


def safe_points(lang, code):
    """-> (boundaries, trail_lines): k in boundaries = a line may be inserted after line k
    (0 = before the first line); l in trail_lines = a trailing comment / blanks may be appended to line l"""
    raw, bad = sr.raw_tokens(lang, code)
    if bad or "\r" in code:
        return [], []
    from pygments.token import Comment, String
    owner = {}
    for (off, tt, val) in raw:
        for j, ch in enumerate(val):
            if ch == "\n":
                kind = sr.kind_of(tt)
                if kind == 6 and val.isspace():
                    owner[off + j] = "ws"
                elif tt in Comment and j == len(val) - 1 and tt not in Comment.Preproc and tt not in Comment.PreprocFile:
                    owner[off + j] = "cend"
                else:
                    owner[off + j] = "tok"
    nl = [i for i, ch in enumerate(code) if ch == "\n"]
    boundaries = [0] if (not raw or True) else []
    trail = []
    for k, pos in enumerate(nl, start=1):
        if owner.get(pos) in ("ws", "cend"):
            boundaries.append(k)
        if owner.get(pos) == "ws":
            trail.append(k)
    # line 0 boundary is unsafe if the first token is a shebang-like thing; fine otherwise
    return boundaries, trail


def comment_for(lang, rnd, trailing=False):
    """comment texts; comment-ONLY lines may even start with the suppression marker: such a
    comment sits on no function's name line, so it must not change anything either"""
    if lang == "Python":
        return rnd.choice(["# note", "# def x():", "#(", "#  later: nocl", "# {"] + ([] if trailing else ["# nocl", "#NOCL"]))
    c = rnd.choice(["// note", "/* block */", "// f() {", "/* { */", "// }", "/* int g() { */", "// x nocl"] + ([] if trailing else ["// nocl", "/* nocl */", "//NoCl"]))
    return c


def make_variant(lang, code, rnd, boundaries, trail):
    """-> (variant text, edits) ; edits = list of (kind, line, text)"""
    lines = code.split("\n")
    edits = []
    n = rnd.randint(1, 5)
    for _ in range(n):
        r = rnd.random()
        if r < 0.3 and boundaries:
            edits.append(("blank", rnd.choice(boundaries), rnd.choice(["", "   ", "\t", "\x0c", " \x0b ", "\x1c", "\x85", "\u2028", "\xa0\u2003"])))
        elif r < 0.6 and boundaries:
            edits.append(("comment", rnd.choice(boundaries), " " * rnd.choice([0, 2, 4, 8]) + comment_for(lang, rnd)))
        elif r < 0.7 and boundaries and lang != "Python":
            edits.append(("block2", rnd.choice(boundaries), None))
        elif r < 0.9 and trail:
            edits.append(("trail", rnd.choice(trail), " " * rnd.randint(1, 3) + comment_for(lang, rnd, True)))
        elif trail:
            edits.append(("trail", rnd.choice(trail), rnd.choice([" ", "  ", "\t", " \x0c", "\xa0"]) * rnd.randint(1, 3)))
    return apply_edits(code, edits), edits


def apply_edits(code, edits):
    lines = code.split("\n")
    trails = {}
    inserts = {}
    for (kind, k, text) in edits:
        if kind == "trail":
            if k not in trails:       # at most one trailing addition per line
                trails[k] = text
        elif kind == "block2":
            inserts.setdefault(k, []).extend(["/* a block", "   comment ( { */"])
        else:
            inserts.setdefault(k, []).append(text)
    out = list(inserts.get(0, []))
    for i, ln in enumerate(lines, start=1):
        out.append(ln + trails.get(i, ""))
        out.extend(inserts.get(i, []))
    return "\n".join(out)


def shift_fn(edits):
    counts = {}
    for (kind, k, text) in edits:
        if kind == "trail":
            continue
        counts[k] = counts.get(k, 0) + (2 if kind == "block2" else 1)
    ks = sorted(counts)

    def f(l):
        return l + sum(counts[k] for k in ks if k < l)
    return f


def expected_after(ms, edits):
    f = shift_fn(edits)
    return [(n, f(sl), sc, f(el), ec, ln) for (n, sl, sc, el, ec, ln) in ms]


# ---- size ladder: files of 10^2 .. 10^4 lines x 10 .. 10^5 simultaneous insertions -----------------------------------

def ladder_comment(lang, rnd, trailing=False):
    """C / C++: comment texts without the delimiters of KF2 (with thousands of insertions one of them always lands inside
    a multi-line parameter list, and the known finding would hide everything else)"""
    if lang in ("C", "C++"):
        return rnd.choice(["// note", "/* block */", "// x nocl", "/* a */ /* b */", "//"] + ([] if trailing else ["// nocl", "/* nocl */", "//NoCl"]))
    return comment_for(lang, rnd, trailing)


def many_edits(lang, rnd, boundaries, trail, n):
    """n insertions, drawn one after the other (the first k of them are the same for every n >= k): comment-only lines
    in every style, blank / whitespace-only lines, two-line block comments, trailing comments and blanks; any number of
    them at the same boundary"""
    edits = []
    trailed = set()
    for _ in range(n):
        r = rnd.random()
        if r < 0.12 and boundaries:
            edits.append(("blank", rnd.choice(boundaries), rnd.choice(["", "   ", "\t", "\x0c", "\u2028"])))
        elif r < 0.80 and boundaries:
            edits.append(("comment", rnd.choice(boundaries), " " * rnd.choice([0, 2, 4, 8]) + ladder_comment(lang, rnd)))
        elif r < 0.85 and boundaries and lang not in ("Python", "C", "C++"):
            edits.append(("block2", rnd.choice(boundaries), None))
        elif trail:
            k = rnd.choice(trail)
            if k not in trailed:
                trailed.add(k)
                edits.append(("trail", k, " " * rnd.randint(1, 3) + ladder_comment(lang, rnd, True)))
            elif boundaries:
                edits.append(("comment", rnd.choice(boundaries), ladder_comment(lang, rnd)))
        elif boundaries:
            edits.append(("comment", rnd.choice(boundaries), ladder_comment(lang, rnd)))
    return edits


def ladder_descs(ctx):
    if getattr(ctx, "_c04ladder", None) is None:
        rnd = ctx.rng("c04ladder-edits")
        out = []
        files = scan_streams.ladder_programs(ctx, ctx.pick([], [3162]), ctx.pick([100, 1000], [100, 1000, 10 ** 4]), "c04ladder",
                                             many_python=ctx.pick([100, 1000], [100, 1000, 3162]))
        for (lang, text, o, d) in files:
            for n in scan_streams.rungs(10, 10 ** 5, True):
                out.append(dict(d, insertions=n, edit_seed=rnd.getrandbits(48)))
        ctx._c04ladder = out
    return ctx._c04ladder


def ladder_variant(desc):
    """-> (language, original text, variant text, edits)"""
    import random
    lang = desc["language"]
    code = scan_streams.ladder_program(desc)[1]
    b, t = safe_points(lang, code)
    edits = many_edits(lang, random.Random(desc["edit_seed"]), b, t, desc["insertions"])
    return lang, code, apply_edits(code, edits), edits


def fast_expected(ms, edits):
    """expected_after for many edits: prefix sums instead of one pass over the edits per line"""
    from bisect import bisect_left
    counts = {}
    for (kind, k, text) in edits:
        if kind != "trail":
            counts[k] = counts.get(k, 0) + (2 if kind == "block2" else 1)
    ks = sorted(counts)
    pre = [0]
    for k in ks:
        pre.append(pre[-1] + counts[k])
    f = lambda l: l + pre[bisect_left(ks, l)]
    return [(n, f(sl), sc, f(el), ec, ln) for (n, sl, sc, el, ec, ln) in ms]


def _ladder_work(desc):
    """real analysis of original and variant; -> None if the property holds, else (observed, required, kind, functions)"""
    lang, code, v, edits = ladder_variant(desc)
    o = sr.decode_scan(sr.real_scan(lang, code))
    r = sr.real_scan(lang, v)
    d = sr.decode_scan(r)
    if o is None:
        return {"functions": 0, "bad": None}
    want = fast_expected(o[0], edits)
    got = d[0] if d else r
    if got == want:
        return {"functions": len(o[0]), "bad": None}
    return {"functions": len(o[0]), "bad": ("%d functions reported; first differences: %s" % (len(got), [x for x in got if x not in set(want)][:3]) if d else r[:200],
                                            "%d functions; e.g. %s" % (len(want), [x for x in want if d is None or x not in set(got)][:3]),
                                            "lexer" if lexer_changed(lang, code, v) else "pipeline")}


def ladder_failures(ctx, dist=None, started=None):
    jobs = sorted(ladder_descs(ctx), key=lambda d: -(d["lines"] + d["insertions"]))
    fails = []
    nontrivial = 0
    for d, res in zip(jobs, (started or scan_streams.Heavy(_ladder_work, jobs, 12)).results()):
        if dist is not None:
            key = "%d lines x %d insertions" % (d["lines"], d["insertions"])
            dist["ladder"][key] = dist["ladder"].get(key, 0) + 1
        nontrivial += 1 if res["functions"] else 0
        if res["bad"]:
            fails.append({"input": dict(d), "observed": res["bad"][0], "required": res["bad"][1], "kind": res["bad"][2]})
    fails.sort(key=lambda f: (f["input"]["lines"], f["input"]["insertions"]))
    for f in fails[:2]:
        # fewest insertions (a prefix of the same edit list) that still fail
        d = f["input"]
        small = scan_streams.bisect_size(lambda k, d=d: bool(_ladder_work(dict(d, insertions=k))["bad"]), 0, d["insertions"], budget_s=10.0)
        bad = _ladder_work(dict(d, insertions=small))["bad"]
        if bad:
            f.update({"input": dict(d, insertions=small, found_at_insertions=d["insertions"]), "observed": bad[0], "required": bad[1], "kind": bad[2]})
    return len(jobs), nontrivial, fails[:6]


def base_cases(ctx):
    out = [(l, t) for (l, t, _) in scan_streams.canonical(ctx, ctx.pick(40, 120), "c04")]
    out += [(l, t) for (l, t) in scan_streams.corpus_cases() if len(t) < 30000]
    return out


def _correspond_programs(ctx):
    heavy = scan_streams.Heavy(_ladder_work, sorted(ladder_descs(ctx), key=lambda d: -(d["lines"] + d["insertions"])), 12)
    rnd = ctx.rng("edits")
    base = base_cases(ctx)
    variants = []
    for (lang, code, edits) in REGRESS:
        variants.append((lang, code, apply_edits(code, edits), edits))
    per = ctx.pick(3, 12)
    dist = {"edits": {}, "files": len(base), "points_considered": 0}
    for (lang, code) in base:
        b, t = safe_points(lang, code)
        dist["points_considered"] += len(b) + len(t)
        if not b and not t:
            continue
        if ctx.thorough and code.count("\n") <= 100:
            # every safe point once, one edit at a time
            for k in b:
                variants.append((lang, code, apply_edits(code, [("comment", k, comment_for(lang, rnd))]), [("comment", k, "c")]))
            for l in t:
                e = [("trail", l, "  " + comment_for(lang, rnd, True))]
                variants.append((lang, code, apply_edits(code, e), e))
        for _ in range(per):
            v, edits = make_variant(lang, code, rnd, b, t)
            if edits:
                variants.append((lang, code, v, edits))
    originals = {}
    uniq = list({(l, c) for (l, c, _, _) in variants})
    for (l, c), r in zip(uniq, sr.real_scan_many(uniq)):
        originals[(l, c)] = r
    vr = sr.real_scan_many([(l, v) for (l, _, v, _) in variants])
    vm = sr.model_scan_many([sr.scan_request(l, v) for (l, _, v, _) in variants])
    dis, fails = [], []
    nontrivial = set()
    for (lang, code, v, edits), r, m in zip(variants, vr, vm):
        inp = {"language": lang, "code": code, "edits": [list(e) for e in edits]}
        if r != m:
            dis.append({"stream": "scan/%s" % lang, "input": dict(inp, variant=v), "model": m[:300], "impl": r[:300]})
        o = sr.decode_scan(originals[(lang, code)])
        d = sr.decode_scan(r)
        if o is None:
            continue
        want = expected_after(o[0], edits)
        got = d[0] if d else r
        if got != want:
            fails.append({"input": inp, "observed": got if d is None else [x for x in got if x not in want][:3], "required": [x for x in want if d is None or x not in got][:3],
                          "kind": "lexer" if lexer_changed(lang, code, v) else "pipeline"})
        if o[0]:
            nontrivial.add((lang, v))
        for e in edits:
            dist["edits"][e[0]] = dist["edits"].get(e[0], 0) + 1
    dist["ladder"] = {}
    nladder, lnontrivial, lfails = ladder_failures(ctx, dist, heavy)
    fails = lfails + fails
    return {
        "evaluations": len(variants) + nladder, "distinct_nontrivial": len(nontrivial) + lnontrivial,
        "rule": "size ladder: generated files of 10^2 .. 10^4 lines (many functions; thorough: also one function of 3162 lines) x 10, 10^2, 10^3, 10^4, 10^5 simultaneous insertions (any number at the same point), real analysis before and after, direct oracle only; canonical programs and the vendored corpus x 1..5 simultaneous insertions (blank line, whitespace-only line, comment-only line in every comment style of the language incl. two-line block comments, trailing comment, trailing blanks) at token-safe points computed from the real lexer's token stream (thorough: additionally every safe point of every file of at most 100 lines); oracle: analysis of the variant = analysis of the original with every line shifted by the number of lines inserted above it; non-trivial = distinct variants of files with at least one function",
        "samples": [{"language": l, "edits": e, "original": originals[(l, c)][:80], "variant": r[:80]} for (l, c, v, e), r in list(zip(variants, vr))[5:8]],
        "exhaustive": False, "distribution": dist,
        "disagreements": dis[:50], "oracle_failures": fails[:50],
    }


def search(ctx, hints):
    rnd = ctx.rng("search")
    fails = []
    variants = [(l, c, apply_edits(c, e), e) for (l, c, e) in REGRESS]
    for (lang, code) in base_cases(ctx):
        b, t = safe_points(lang, code)
        for _ in range(6):
            v, edits = make_variant(lang, code, rnd, b, t)
            if edits:
                variants.append((lang, code, v, edits))
    uniq = list({(l, c) for (l, c, _, _) in variants})
    originals = dict(zip(uniq, sr.real_scan_many(uniq)))
    vr = sr.real_scan_many([(l, v) for (l, _, v, _) in variants])
    for (lang, code, v, edits), r in zip(variants, vr):
        o = sr.decode_scan(originals[(lang, code)]); d = sr.decode_scan(r)
        if o is None:
            continue
        want = expected_after(o[0], edits)
        if (d[0] if d else r) != want:
            fails.append({"input": {"language": lang, "code": code, "edits": [list(e) for e in edits]}, "observed": r[:200], "required": str(want)[:200],
                          "kind": "lexer" if lexer_changed(lang, code, v) else "pipeline"})
    fails.sort(key=lambda f: len(f["input"]["code"]) + 50 * len(f["input"]["edits"]))
    return fails[:8] + ladder_failures(ctx)[2][:3]


def replay(payload):
    inp = payload["input"]
    if inp.get("stream") == "ladder":
        res = _ladder_work(inp)
        print("%s: generated file of >= %d lines, %d insertions -> %s" % (inp["language"], inp["lines"], inp["insertions"], res["bad"] or "unchanged up to the line shift"))
        return not res["bad"]
    edits = [tuple(e) for e in inp["edits"]]
    o = sr.decode_scan(sr.real_scan(inp["language"], inp["code"]))
    v = apply_edits(inp["code"], edits)
    d = sr.decode_scan(sr.real_scan(inp["language"], v))
    want = expected_after(o[0], edits) if o else None
    print("edits %s\noriginal %s\nvariant  %s\nrequired %s" % (edits, o and o[0], d and d[0], want))
    return o is not None and d is not None and d[0] == want


def correspond(ctx):
    """the program stream above PLUS forests of the Lean type `Prog PTok` decorated with comments and suppression
    markers (harness/mark_stream.py): the expectation is the MARKED tree report computed by the model driver
    (`Props/C01marks.lean`: comments anywhere are invisible, a function named on a marked line is dissolved into its
    tokens - the tree-level form of this property)"""
    import mark_stream
    res = _correspond_programs(ctx)
    mk = mark_stream.correspond(ctx.rng("marktrees-%s" % ID), ctx.pick(250, 3000))
    for key in ("lexer_mismatch", "generator_bug", "model_errors"):
        for x in mk.get(key, [])[:10]:
            res["disagreements"].append({"stream": "marktree/%s" % key, "input": x.get("input"),
                                         "model": str(x.get("forest") or x.get("why") or x.get("model"))[:300], "impl": str(x.get("real", ""))[:300]})
    res["oracle_failures"] = list(res["oracle_failures"]) + mk["oracle_failures"][:20]
    res["evaluations"] += mk["evaluations"]
    res["distinct_nontrivial"] += mk["distinct_nontrivial"]
    res["rule"] += " PLUS " + mk["rule"]
    res["distribution"] = dict(res.get("distribution", {}), marktrees=dict(mk["distribution"], **mk.get("counts", {})))
    return res
