"""C12 - check and scan agree on every file.

With the working directory at the root of a real temp tree (same generator as C11, exclusion
patterns supplied as option / .codelimit.yml / .gitignore), the REAL `check_command` is run once
per way of reaching files: every file by its relative path, every directory of the tree by its
relative and by its absolute path (parent directories, the root `.`). Its printed lines, the
number of files checked and the files it read are compared (1) with the model
`CL.Sel.checkPaths` on a snapshot of the directory (oracles answered by the real pathspec /
Pygments; measurements = what the real scan pipeline returns for the file), and (2) with the
property text: checked = supported, not excluded, and - through a directory - not hidden; listed
= scan's measurements of the file with length > 30, longest first, ties in scan order. A third of
the trees contain symbolic links to files (inside the tree, into hidden / excluded folders, outside
the root; two links to one target): for scan and for check a link is a file of its own, named by
ITS path however it is reached (defect F26 was found this way; regression tree in FIXED). Round 5: sub-directories carry
nested .gitignore files, names come from the Pygments / Unicode pools too, and every judged call is also judged by
agreement alone (`agreement`): a non-hidden file below the argument is analysed by check iff scan analyses it."""
import json
import os
import sys

sys.path.insert(0, os.path.dirname(os.path.dirname(os.path.abspath(__file__))))
sys.path.insert(0, os.path.join(os.path.dirname(os.path.dirname(os.path.dirname(os.path.abspath(__file__)))), "translator"))
import common
import logic
import select_real as sr

ID = "C12"
TRUSTED = [
    "translator/logic.py (the threshold `check_lists` used by the model's risks is regenerated from check.py)",
    "correspondence harness harness/props/C12.py + harness/select_real.py (temp trees, chdir, capture of rich/typer output, wrapping of check._read_file)",
    "oracle parameters of the model answered by the real libraries: pathspec, Pygments get_lexer_for_filename, and the real lex + scan_file for the measurements of each file",
]
ASSUMPTIONS = [
    "the working directory is the codebase root; `.` / `..` components of a relative FILE argument are collapsed lexically before the model and the oracle see it (the trees have no directory symlinks); directory arguments have none",
    "directories passed to check have no hidden component of their own; absolute *file* paths are outside the property (Appendix A) - the model covers both, the direct oracle does not judge them",
    "the tree is a snapshot of a real directory (unique non-empty names without '/', no directory symlinks; symbolic links to files are files of their own) and does not change during the run",
]


def regen(ctx):
    try:
        text = logic.translate(common.REPO)
    except logic.Refuse as e:
        return [str(e)]
    common.write_if_changed(os.path.join(common.LEAN, "CodeLimit", "Gen", "Logic.lean"), text)
    return []


# ------------------------------------------------------------------ cases

def gen_case(rnd, env_share=0.0):
    tree = sr.gen_tree(rnd, max_depth=rnd.choice([2, 3, 3, 4]), printed_paths=True)
    patterns = sr.gen_patterns(rnd, tree)
    case = {"tree": sr.tree_to_json(tree), "patterns": patterns, "sources": sr.split_sources(rnd, patterns)}
    if env_share and rnd.random() < env_share:
        case["env"] = sr.gen_env(rnd, tree)      # the surroundings of the root never matter (hidden / excluded names above it, a git checkout's .gitignore)
    return case


def boundary_ns(full):
    if full:
        return [n for n in sr.line_rungs() if n <= 130] + [n for n in sr.line_rungs() if n > 130][:6]
    from gen import srcdict
    return sorted(set([16, 30, 31, 60, 61]) | set(srcdict.novel_rungs(3, 5000)[:8]))


def boundary_case(exts=(".py", ".c", ".js", ".ts", ".cpp"), full=True):
    """files that are ONE function of n lines - n on the neighbours of every threshold plus source-integer rungs - with
    and without a final newline and with CR LF line ends: a ladder over (line count x ending x language)"""
    ns = boundary_ns(full)
    dirs = []
    for ext in exts:
        fs = []
        for n in ns:
            for tag, ending in (("nl", "\n"), ("nonl", ""), ("crlf", "crlf")):
                fs.append(["F", "w%d_%s%s" % (n, tag, ext), sr.whole_file_function(ext, n, ending).decode("latin-1")])
        dirs.append(["D", ext[1:], fs])
    return {"tree": ["D", "root", dirs], "patterns": [], "sources": {"option": [], "config": [], "gitignore": []}}


LONG = sr.source_for(".py", [5, 31, 61, 30, 31, 75]).decode()
LONGJS = sr.source_for(".js", [61, 31, 31]).decode()
FIXED = [
    {"tree": ["D", "root", [
        ["F", "big.py", LONG], ["F", ".hidden.py", LONG], ["F", "notes.txt", "x"], ["F", "latin.py", sr.LATIN1.decode("latin-1")],
        ["F", "broken.c", sr.MALFORMED.decode("latin-1")],
        ["D", "src", [["F", "big.js", LONGJS], ["F", "gen.ts", LONGJS], ["D", ".cache", [["F", "c.py", LONG]]],
                      ["D", "lib", [["F", "deep.py", LONG], ["F", "skip.py", LONG]]]]],
        ["D", "tests", [["F", "t.py", LONG]]],
        ["D", ".venv", [["F", "v.py", LONG]]],
     ]], "patterns": ["*.ts", "src/lib/skip.py"], "sources": {"option": ["*.ts"], "config": [], "gitignore": ["src/lib/skip.py"]}},
    {"tree": ["D", "root", [["D", "a", [["F", "x.py", LONG], ["D", "b", [["F", "y.py", LONG]]]]], ["D", "lib", [["D", "a", [["F", "z.py", LONG]]]]]]],
     "patterns": ["a/*", "lib/"], "sources": {"option": [], "config": ["a/*", "lib/"], "gitignore": []}},
    # anchored patterns and same-named directories deeper in the tree (seeded changes C12-1, C11-4: pruning
    # directories by their bare name): `/out` and `src/gen` exclude only the entries directly at that path
    {"tree": ["D", "root", [["D", "out", [["F", "a.py", LONG]]], ["F", "c.py", LONG],
                            ["D", "src", [["D", "out", [["F", "b.py", LONG], ["D", "deep", [["F", "b2.js", LONGJS]]]]],
                                          ["D", "gen", [["F", "g.py", LONG]]],
                                          ["D", "pkg", [["D", "gen", [["F", "h.py", LONG]]], ["D", "src", [["D", "gen", [["F", "i.py", LONG]]]]]]]]]]],
     "patterns": ["/out", "src/gen"], "sources": {"option": ["/out"], "config": [], "gitignore": ["src/gen"]}},
    # regression for defect F26 (found by the symlink trees): `check <relative file>` tested the exclusions on the link's
    # resolved target: src/link.py (target in the built-in-excluded tests/) was skipped although scan and `check src` analyse
    # it; tests/link2.py (inside tests/, target elsewhere) and tests/out.py (target outside the root) were checked although
    # scan skips them; gen/alias.py: two links to one target; a link and its target in one directory
    {"tree": ["D", "root", [["D", "src", [["F", "impl.py", LONG], ["F", "big.js", LONGJS], ["L", "link.py", ["tests", "real.py"], LONG], ["L", "compat.py", ["src", "impl.py"], LONG]]],
                            ["D", "tests", [["F", "real.py", LONG], ["L", "link2.py", ["src", "impl.py"], LONG], ["L", "out.py", ["..", "outside", "shared.py"], LONG]]],
                            ["D", "gen", [["L", "alias.py", ["..", "outside", "shared.py"], LONG], ["L", "alias2.js", ["src", "big.js"], LONGJS], ["F", "keep.py", LONG]]],
                            ["D", "lib", [["L", "shared.py", ["..", "outside", "shared.py"], LONG]]]]],
     "patterns": ["gen/*", "lib/"], "sources": {"option": [], "config": [], "gitignore": ["gen/*", "lib/"]}},
]


def spellings(comps, dirs, rnd=None):
    """other spellings of the relative path of one file (round 7): `./x`, `a/./x`, and a detour `d/../` at every level
    through every directory that exists there - the file's own ancestors, their siblings, excluded and hidden ones
    (the tree has no directory symlinks, so the spellings name the same file). With `rnd`: for 60 % of the files ONE spelling
    (mostly a detour); without: all of them."""
    comps = [str(c) for c in comps]
    kids = {}
    for d in dirs:
        if d:
            kids.setdefault(tuple(d[:-1]), []).append(d[-1])
    dots = [comps[:i] + ["."] + comps[i:] for i in range(1, len(comps))]
    detours = [comps[:i] + [s, ".."] + comps[i:] for i in range(len(comps)) for s in sorted(kids.get(tuple(comps[:i]), []))]
    double = [comps[:i] + [s, t, "..", ".."] + comps[i:] for i in range(len(comps)) for s in sorted(kids.get(tuple(comps[:i]), []))
              for t in sorted(kids.get(tuple(comps[:i] + [s]), []))]
    if rnd is not None:
        if rnd.random() >= 0.6:
            return []
        pool = rnd.choice([detours, detours, detours, detours, double, dots, [["."] + comps]]) or detours or [["."] + comps]
        return [rnd.choice(pool)]
    return [["."] + comps] + dots + detours + double


def arg_of(w, root):
    """the argument text of one way element [kind, components(, spelling)]"""
    kind, comps = w[0], w[1]
    if kind in (0, 2):
        return "/".join(w[2] if len(w) > 2 else comps) if comps else "."
    return os.path.join(root, *comps)


def ways(snap, rnd=None, all_spellings=False):
    """ways of calling check = lists of arguments [kind, components] (kind 0 relative file,
    1 absolute file, 2 relative directory, 3 absolute directory): every file by its relative and
    by its absolute path, every directory relatively and absolutely, and one call with several
    arguments; [0, components, spelling]: a relative file path WRITTEN with `.` / `..` components"""
    out = []
    dirs = sr.all_dirs(snap)
    for comps, _ in sr.all_files(snap):
        out.append([[0, list(comps)]])
        out.append([[1, list(comps)]])
        for sp in spellings(comps, dirs, None if all_spellings or rnd is None else rnd):
            out.append([[0, list(comps), sp]])
    for d in sr.all_dirs(snap):
        out.append([[2, list(d)]])
        out.append([[3, list(d)]])
    if rnd is not None and len(out) >= 2:
        out.append([list(a[0]) for a in rnd.sample(out, min(len(out), rnd.choice([2, 3])))])      # (may contain spelled file arguments)
    return out


def observe(case, only=None, rnd=None):
    """real runs for one tree -> list of (way, real observation, model request) + tables"""
    tree = sr.tree_from_json(case["tree"])
    runs = []
    with sr.TempTree(tree, case.get("env")) as T:
        T.chdir(T.root)
        sr.install_exclusions(T.root, case["sources"], ".")
        snap = sr.snapshot(T.root, skip=sr.HARNESS_FILES)
        files = sr.all_files(snap)
        paths = [p for p, _ in files]
        excl = sr.real_excluded_paths(".", paths)
        ids = sr.Ids()
        # what scan measures: scan_path for the files it selects, the same pipeline for the others
        try:
            entries, _ = sr.run_scan(".")
            scan_ms = {k: [tuple(m) for m in ms] for (k, _l, _c, ms, _p, _loc) in entries}
            scan_err = None
        except Exception as e:
            scan_ms, scan_err = {}, "%s: %s" % (type(e).__name__, e)
        table = {SCAN_KEYS: None if scan_err else sorted(scan_ms)}
        for comps, data in files:
            lang = sr.real_lang_of(comps[-1])
            if lang is None:
                continue
            key = "/".join(comps)
            if key in scan_ms:
                table[key] = scan_ms[key]
            else:
                try:
                    table[key] = [tuple(m) for m in sr.analyse_directly(os.path.join(T.root, *comps), comps[-1])]
                except Exception as e:
                    table[key] = []
                    scan_err = scan_err or "direct analysis of %s: %s" % (key, e)
        meas = {}
        for comps, data in files:
            key = "/".join(comps)
            if key in table:
                meas[ids.of(data, sr.real_lang_of(comps[-1]))] = table[key]
        tree_enc = sr.enc_tree(snap, ids)
        # two files with the same bytes and language must have the same measurements
        meas_enc = "%d%s" % (len(meas), "".join(" %d %d%s" % (i, len(ms), "".join(
            " %s %d %d %d %d %d" % (sr.S(m[0]), m[1], m[2], m[3], m[4], m[5]) for m in ms)) for i, ms in sorted(meas.items())))
        tail = "%s %s %s %s" % (tree_enc, sr.enc_paths(excl), sr.enc_langs(snap), meas_enc)
        links = sr.all_links(tree)
        excl_set = {tuple(p) for p in excl}

        def sens(way, sub=None, ex=excl_set):
            """the way names a symbolic link by a relative path and the REAL exclusion list treats the link's own
            path and its target differently (counted only; such calls are compared and judged like all others)"""
            for kind, comps in [w[:2] for w in way]:
                full = tuple(([sub] if sub else []) + list(comps))
                t = links.get(full) if kind == 0 else None
                if t is None:
                    continue
                if sub is None:
                    tex = t[0] != ".." and tuple(t) in ex
                else:
                    tex = t[0] == sub and tuple(t[1:]) in ex
                if (tuple(comps) in ex) != tex:
                    return True
            return False
        for way in (only if only is not None else ways(snap, rnd, case.get("_all_spellings", False))):
            args = [arg_of(w, T.root) for w in way]
            real = sr.run_check(args)
            spelled = any(len(w) > 2 for w in way)       # `.` / `..` in an argument: what check prints / reads is collapsed lexically
            real["read"] = [canon(p, T.root, (), spelled) for p in real["read"]]
            real["listed"] = [[canon(l[0], T.root, (), spelled)] + list(l[1:]) for l in real["listed"]]
            line = "checksel 0 %d %s %s" % (len(way), " ".join("%d %s" % (w[0], sr.enc_path(w[1])) for w in way), tail)
            runs.append((way, real, line, [], sens(way)))
        # outside the property (model comparison only): the working directory BELOW the root, so
        # that some arguments lie outside it (`relative_to` raises ValueError, no exclusion test)
        subs = [c[1] for c in snap[2] if c[0] == "D" and not c[1].startswith(".")]
        if only is None and rnd is not None and subs:
            sub = rnd.choice(subs)
            T.chdir(os.path.join(T.root, sub))
            sr.install_exclusions(T.root, case["sources"], ".")
            below = [p[1:] for p in paths if p[0] == sub]
            excl2 = sr.real_excluded_paths(".", below)
            tail2 = "%s %s %s %s" % (tree_enc, sr.enc_paths(excl2), sr.enc_langs(snap), meas_enc)
            others = [d for d in subs if d != sub]
            ways2 = [[[3, []]], [[2, []]], [[3, [sub]]]]
            if others:
                ways2.append([[3, [rnd.choice(others)]]])
            if below:
                f = list(rnd.choice(below))
                ways2.append([[0, f]])
                ways2.append([[1, [sub] + f]])
            for way in ways2:
                args = [("/".join(comps) if comps else ".") if kind in (0, 2) else os.path.join(T.root, *comps)
                        for kind, comps in way]
                real = sr.run_check(args)
                real["read"] = [canon(p, T.root, [sub]) for p in real["read"]]
                real["listed"] = [[canon(l[0], T.root, [sub])] + list(l[1:]) for l in real["listed"]]
                line = "checksel %s %d %s %s" % (sr.enc_path([sub]), len(way),
                                                 " ".join("%d %s" % (kind, sr.enc_path(comps)) for kind, comps in way), tail2)
                runs.append(([[kind + 10, comps] for kind, comps in way], real, line, [sub], sens(way, sub, {tuple(p) for p in excl2})))
    return runs, table, scan_err


SCAN_KEYS = "\x00scan-keys"      # entry of `table`: the keys of scan_path(".") (None if the scan raised)


def agreement(case, way, real, table):
    """the property's second sentence, judged on the two commands alone (no reading of the exclusion rules): every
    non-hidden file below the argument (or the file argument itself) is analysed by check iff scan analyses it -
    whatever makes scan skip a file (root or nested .gitignore, built-in list, configuration) must make check skip it"""
    keys = table.get(SCAN_KEYS)
    if keys is None or len(way) != 1 or way[0][0] not in (0, 2, 3) or real["error"]:
        return []
    kind, comps = way[0][:2]
    if kind != 0 and sr.spec_hidden(comps):
        return []
    keys = set(keys)
    read = set(real["read"])
    only_check, only_scan = [], []
    for f, _data in sr.all_files(sr.tree_from_json(case["tree"])):
        f = list(f)
        if (f != comps) if kind == 0 else (f[:len(comps)] != comps):
            continue
        if sr.spec_hidden(f):
            continue
        k = "/".join(f)
        if k in read and k not in keys:
            only_check.append(k)
        if k in keys and k not in read:
            only_scan.append(k)
    bad = []
    if only_check:
        bad.append("check analyses %s, which scan skips" % only_check[:4])
    if only_scan:
        bad.append("scan analyses %s, which check skips" % only_scan[:4])
    return bad


def canon(p, root, cwd=(), collapse=False):
    """a path as printed / as handed to _read_file -> root-relative with '/'"""
    if os.path.isabs(p):
        return os.path.relpath(p, root).replace(os.sep, "/")
    if collapse:
        import posixpath
        p = posixpath.normpath(p.replace(os.sep, "/"))
    return "/".join(list(cwd) + p.replace(os.sep, "/").split("/"))


def parse_model(reply, cwd=()):
    ws = reply.split()
    if not ws or ws[0] not in ("ok", "err"):
        return {"error": reply}
    out = {"error": None, "listed": [], "files_checked": None, "read": []}
    i = 1
    if ws[0] == "err":
        out["error"] = "err " + ws[1]
        i = 2
    else:
        n = int(ws[1]); i = 2
        out["files_checked"] = n
        for _ in range(n):
            is_abs = ws[i] == "1"; i += 1
            comps, i = sr.read_path(ws, i)
            comps = comps if is_abs else list(cwd) + comps
            k = int(ws[i]); i += 1
            for _ in range(k):
                name, i = sr.read_str(ws, i)
                sl, sc, ln = int(ws[i]), int(ws[i + 1]), int(ws[i + 2]); i += 3
                out["listed"].append(["/".join(comps), sl, sc, ln, name])
    a = int(ws[i]); i += 1
    for _ in range(a):
        is_abs = ws[i] == "1"; i += 1
        comps, i = sr.read_path(ws, i)
        out["read"].append("/".join(comps if is_abs else list(cwd) + comps))
    return out


def link_status_differs(case, way):
    """the way names, by a relative path, a symbolic link whose own path and whose target differ in exclusion status
    (a link into an excluded folder, a link inside an excluded folder to a file elsewhere or outside the root).
    Such calls are JUDGED like all others - a link is a file of its own, named by ITS path (defect F26: `check` used to
    test the exclusions on the resolved target); the function only counts how many of them a run contains."""
    links = sr.all_links(sr.tree_from_json(case["tree"]))
    for kind, comps in [w[:2] for w in way]:
        t = links.get(tuple(comps)) if kind == 0 else None
        if t is None:
            continue
        own = sr.spec_excluded(list(comps), case["patterns"])
        target = False if t[0] == ".." else sr.spec_excluded(list(t), case["patterns"])
        if own != target:
            return True
    return False


def expected(case, way, table):
    """the property text for one way of reaching files -> (checked paths as a set, listed per
    file, exit code) or None when the way is outside the property (hidden directory argument)"""
    if len(way) != 1 or way[0][0] == 1 or way[0][0] >= 10:
        return None     # several arguments / an absolute file path / working directory below the root: model comparison only
    kind, comps = way[0][:2]
    tree = sr.tree_from_json(case["tree"])
    if kind != 0 and sr.spec_hidden(comps):
        return None
    checked = {}
    for f, _data in sr.all_files(tree):
        f = list(f)
        if kind == 0:
            if f != comps:
                continue
        elif f[:len(comps)] != comps:
            continue
        if sr.expected_language(f[-1]) is None or sr.spec_excluded(f, case["patterns"]):
            continue
        if kind != 0 and sr.spec_hidden(f):
            continue
        key = "/".join(f)
        ms = table.get(key, [])
        risks = sorted([m for m in ms if m[5] > 30], key=lambda m: -m[5])     # stable
        checked[key] = [[key, m[1], m[2], m[5], m[0]] for m in risks]
    code = 1 if any(l[3] > 60 for ls in checked.values() for l in ls) else 0
    return checked, code


def oracle(case, way, real, table):
    exp = expected(case, way, table)
    if exp is None:
        return agreement(case, way, real, table)
    checked, code = exp
    bad = []
    if real["error"]:
        return ["check raised " + real["error"]]
    if sorted(real["read"]) != sorted(checked):
        extra = sorted(set(real["read"]) - set(checked)); missing = sorted(set(checked) - set(real["read"]))
        bad.append("files analysed: unexpected %s, missing %s%s" % (extra[:4], missing[:4],
                                                                   "" if len(real["read"]) == len(set(real["read"])) else ", one twice"))
    if real["files_checked"] != len(checked):
        bad.append("%s files checked, expected %d" % (real["files_checked"], len(checked)))
    got = {}
    order = []
    for l in real["listed"]:
        if l[0] not in got:
            order.append(l[0])
        got.setdefault(l[0], []).append(l)
    for k in set(got) | set(checked):
        if got.get(k, []) != checked.get(k, []):
            bad.append("listed for %s: %s, expected %s" % (k, [x[1:] for x in got.get(k, [])][:4], [x[1:] for x in checked.get(k, [])][:4]))
    flat = [l[0] for l in real["listed"]]
    if flat != [k for k in order for _ in got[k]]:
        bad.append("lines of one file are not contiguous")
    if real["code"] != code:
        bad.append("exit code %s, expected %d" % (real["code"], code))
    return bad + agreement(case, way, real, table)


def run_cases(cases, rnd):
    dis, fails, stats = [], [], {"runs": 0, "kinds": {0: 0, 1: 0, 2: 0, 3: 0, "several": 0, "cwd_below_root": 0, "spelled": 0}, "judged_by_oracle": 0, "listed_lines": 0,
                                 "named_excluded_skipped": 0, "named_hidden_checked": 0, "gt30": 0, "gt60": 0}
    nontrivial = set()
    for c in cases:
        runs, table, scan_err = observe(c, None, rnd)
        if scan_err:
            fails.append({"input": dict({k: v for k, v in c.items() if not k.startswith("_")}, way=None), "observed": scan_err, "required": ["scan completes"]})
        nl = len(sr.all_links(sr.tree_from_json(c["tree"])))
        stats["trees_with_symlinks"] = stats.get("trees_with_symlinks", 0) + (1 if nl else 0)
        stats["symlinks"] = stats.get("symlinks", 0) + nl
        fl = sr.all_files(sr.tree_from_json(c["tree"]))
        stats["nested_gitignore_files"] = stats.get("nested_gitignore_files", 0) + sum(1 for f, _ in fl if f[-1] == ".gitignore")
        stats["names_by_pygments_pool"] = stats.get("names_by_pygments_pool", 0) + sum(
            1 for f, _ in fl if sr.expected_language(f[-1]) and os.path.splitext(f[-1])[1] not in sr.SUPPORTED_EXT)
        stats["non_ascii_paths"] = stats.get("non_ascii_paths", 0) + sum(1 for f, _ in fl if any(ord(ch) > 127 for ch in "/".join(f)))
        replies = common.run_driver([run[2] for run in runs])
        for run, reply in zip(runs, replies):
            way, real = run[0], run[1]
            model = parse_model(reply, run[3])
            r = {"error": real["error"], "listed": real["listed"], "files_checked": real["files_checked"], "read": real["read"]}
            m = {"error": model.get("error"), "listed": model.get("listed"), "files_checked": model.get("files_checked"), "read": model.get("read")}
            inp = dict({k: v for k, v in c.items() if not k.startswith("_")}, way=way)
            stats["symlink_named_status_differs"] = stats.get("symlink_named_status_differs", 0) + (1 if run[4] else 0)
            if r != m:
                dis.append({"stream": "check_command", "input": inp, "model": m, "impl": r})
            bad = oracle(c, way, real, table)
            if bad:
                fails.append({"input": inp, "observed": {"listed": real["listed"][:6], "read": real["read"][:8],
                                                          "files_checked": real["files_checked"], "code": real["code"], "error": real["error"]},
                              "required": bad})
            stats["runs"] += 1
            stats["kinds"]["cwd_below_root" if way[0][0] >= 10 else "several" if len(way) != 1 else "spelled" if len(way[0]) > 2 else way[0][0]] += 1
            if len(way) == 1 and len(way[0]) > 2 and ".." in way[0][2]:
                through = [way[0][2][j - 1] for j in range(1, len(way[0][2])) if way[0][2][j] == ".." and way[0][2][j - 1] != ".."]
                stats["spelled_through_hidden"] = stats.get("spelled_through_hidden", 0) + (1 if any(t.startswith(".") for t in through) else 0)
                stats["spelled_through_excluded_directory"] = stats.get("spelled_through_excluded_directory", 0) + (
                    1 if any(sr.spec_excluded([t, "x"], c["patterns"]) for t in through) else 0)
            stats["judged_by_oracle"] += 1 if expected(c, way, table) is not None else 0
            stats["listed_lines"] += len(real["listed"])
            stats["gt30"] += sum(1 for l in real["listed"] if 30 < l[3] <= 60)
            stats["gt60"] += sum(1 for l in real["listed"] if l[3] > 60)
            if len(way) == 1 and way[0][0] == 0:
                if sr.spec_hidden(way[0][1]) and real["read"]:
                    stats["named_hidden_checked"] += 1
                if sr.spec_excluded(way[0][1], c["patterns"]) and sr.expected_language(way[0][1][-1]) and not real["read"]:
                    stats["named_excluded_skipped"] += 1
            if real["listed"]:
                nontrivial.add(json.dumps([c["tree"], c["patterns"], way], sort_keys=True))
    return dis, fails, stats, nontrivial


def correspond(ctx):
    rnd = ctx.rng("trees")
    n = ctx.pick(115, 2500)
    cases = [dict(c, _all_spellings=True) for c in FIXED] + [gen_case(rnd) for _ in range(n)]
    re_ = ctx.rng("environment")
    spy, sjs = sr.source_for(".py", [31, 61]).decode(), sr.source_for(".js", [61]).decode()
    small = {"tree": ["D", "root", [["F", "big.py", spy], ["D", "src", [["F", "big.js", sjs], ["D", "lib", [["F", "deep.py", spy]]]]]]],
             "patterns": [], "sources": {"option": [], "config": [], "gitignore": []}}
    cases += [dict(small, env=sr.gen_env(re_, sr.tree_from_json(small["tree"]))) for _ in range(ctx.pick(5, 30))]
    cases += [dict(FIXED[k % len(FIXED)], env=sr.gen_env(re_, sr.tree_from_json(FIXED[k % len(FIXED)]["tree"]))) for k in range(ctx.pick(1, 12))]
    cases += [gen_case(re_, 1.0) for _ in range(ctx.pick(8, 400))]
    cases.append(boundary_case(ctx.pick((".py", ".c"), (".py", ".c", ".js", ".ts", ".cpp")), ctx.thorough))
    dis, fails, stats, nontrivial = run_cases(cases, ctx.rng("ways"))
    stats["with_environment"] = sum(1 for c in cases if c.get("env"))
    stats["environment_hidden_ancestor"] = sum(1 for c in cases if any(a.startswith(".") for a in (c.get("env") or {}).get("above", [])))
    stats["environment_git_checkout_above"] = sum(1 for c in cases if any("/.git" in "/" + f for f in (c.get("env") or {}).get("files", {})))
    stats["whole_file_function_ladder"] = {"line_counts": boundary_ns(ctx.thorough), "endings": ["final newline", "none", "CR LF"]}
    stats["kinds"] = {"relative file": stats["kinds"][0], "relative file written with . / .. components": stats["kinds"]["spelled"], "absolute file (model only)": stats["kinds"][1],
                      "relative directory": stats["kinds"][2], "absolute directory": stats["kinds"][3],
                      "several arguments (model only)": stats["kinds"]["several"],
                      "working directory below the root (model only)": stats["kinds"]["cwd_below_root"]}
    stats["names_with_control_characters_dropped"] = sr.DROPPED["names_with_control_characters"]
    return {
        "evaluations": stats["runs"], "distinct_nontrivial": len(nontrivial),
        "rule": "%d random trees + %d fixed (generator of C11; functions of 3..75 lines incl. 30/31/60/61; Latin-1, malformed and empty files; a third of the trees with 1-3 symbolic links to files inside the tree - also in hidden / excluded folders - or outside it: a link is a file of its own for scan and for check, named by ITS path - also when it is reached by a relative file path and its target lies in an excluded folder or outside the root (defect F26, fixed; regression tree in FIXED)) x patterns of the 6 gitignore classes via option/.codelimit.yml/.gitignore; per tree: check on every file by relative path (and by absolute path, model comparison only), on every directory (root `.` and all sub-directories; hidden directories for the model comparison only) relatively and absolutely, one call with 2-3 arguments (model only), and ~6 calls from a working directory below the root incl. arguments outside it (model only); non-trivial = distinct (tree, patterns, way) with at least one listed function; the trees carry %d nested .gitignore files (lines drawn from the names beneath them), %d files whose language follows from a Pygments extension / whole-name pattern outside the classic pool (*.h, *.hh, *.mjs, *.pyi, BUILD.bazel, SConscript, ...) and %d paths with non-ASCII (NFC / NFD twin) or shell/JSON-awkward names; names with control characters (< U+0020; %d drawn and dropped) are not used here because check's listing is compared as PRINTED (rich expands TAB for the terminal: interpretation decision, Appendix A) - C11 keeps them for the exact key comparison; every judged call is ALSO judged by agreement alone: a non-hidden file below the argument is analysed by check iff scan_path(\".\") analyses it" % (n, len(FIXED), stats.get("nested_gitignore_files", 0), stats.get("names_by_pygments_pool", 0), stats.get("non_ascii_paths", 0), stats["names_with_control_characters_dropped"]) + "; round 6: %d trees sit in a generated ENVIRONMENT (1-3 directories above the root with hidden / built-in-excluded / plain names, %d with a hidden ancestor; %d below a git checkout's `.git` + .gitignore whose lines name files of the tree): the surroundings of the root never matter; one ladder tree of files that are ONE function of n lines (n = the thresholds' neighbours 15/16, 29..32, 59..62 + source-integer rungs) x (final newline / none / CR LF) x language, and a share of all generated files of that shape" % (stats["with_environment"], stats["environment_hidden_ancestor"], stats["environment_git_checkout_above"]) + "; round 7: every file is also named by OTHER SPELLINGS of its relative path (%d calls): `./x`, `a/./x`, and detours `d/../` (and `d/e/../../`) at every level through the directories that exist there - the file's ancestors, their siblings, %d through a hidden and %d through an excluded directory (all spellings on the fixed trees, one drawn spelling for 60 percent of the files of the random ones); the model and the oracle judge them as the collapsed path (no directory symlinks: lexical = physical)" % (stats["kinds"]["relative file written with . / .. components"], stats.get("spelled_through_hidden", 0), stats.get("spelled_through_excluded_directory", 0)),
        "samples": [], "exhaustive": False, "distribution": stats,
        "disagreements": dis[:50], "oracle_failures": sorted(fails, key=lambda f: len(json.dumps(f["input"], default=str)))[:50],
    }


def search(ctx, hints):
    rnd = ctx.rng("search")
    cases = []
    for h in hints:
        if isinstance(h, dict) and "tree" in h:
            cases.append({k: h[k] for k in ("tree", "patterns", "sources", "env") if k in h})
    cases += [gen_case(rnd) for _ in range(ctx.pick(60, 400))]
    fails = []
    for c in cases:
        runs, table, scan_err = observe(c, None, rnd)       # (with `rnd`: one drawn spelling per file instead of all of them)
        for run in runs:
            way, real = run[0], run[1]
            bad = oracle(c, way, real, table)
            if bad:
                fails.append({"input": dict({k: v for k, v in c.items() if not k.startswith("_")}, way=way),
                              "observed": {"listed": real["listed"][:6], "read": real["read"][:8],
                                           "files_checked": real["files_checked"], "code": real["code"], "error": real["error"]},
                              "required": bad})
    fails.sort(key=lambda f: len(json.dumps(f["input"])))
    return fails[:20]


def replay(payload):
    inp = payload["input"]
    c = {k: inp[k] for k in ("tree", "patterns", "sources", "env") if k in inp}
    if c.get("env"):
        print("environment: root = <tmp>/w/%s/root, files above the root: %s" % ("/".join(c["env"]["above"]), c["env"]["files"]))
    way = inp.get("way")
    only = [way] if way else None
    runs, table, scan_err = observe(c, only)
    ok = not scan_err
    for run in runs:
        w, real = run[0], run[1]
        bad = oracle(c, w, real, table)
        print("check %s, patterns %s" % (", ".join("%s %s" % (["relative file", "absolute file", "relative directory", "absolute directory"][x[0] % 10],
                                                              "/".join(x[2] if len(x) > 2 else x[1]) or ".") for x in w), c["patterns"]))
        print("analysed: %s" % real["read"])
        print("listed:   %s" % real["listed"])
        print("violated: %s" % (bad or "nothing"))
        ok = ok and not bad
    return ok
