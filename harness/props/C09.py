"""C09 - cache-assisted scans equal fresh scans over any edit history.

Proof: Props/C09.lean over Model/Cache.lean (invariant "cache honest or unusable").
Tie: the REAL `scan_command` is driven on temp dirs through histories of operations; every scan
is compared (report entries, reused paths, analysed paths, cache-directory state) with the model
driver's `history` command on the same abstract history, and the direct oracles are evaluated on
the real outputs: scan completes, report == from-scratch scan of a copy of the tree, a file is
reused only if the cache file on disk (parsed independently) has the current version and an entry
for that path with the md5 of the file's current bytes, the cache left behind is usable.
`report_command` / `findings_command` are run on caches of every version class and compared with
the model's `readreport`.

Streams: (1) bounded-exhaustive: from 3 initial states, all operation sequences up to length
3 (quick) / 4 (thorough) over a 47-letter alphabet on 3 paths x 3 contents that end in a scan;
(2) random histories up to length 25 on 7 paths (one of an unsupported language, two directories
with the same file names) x 10 contents (plain, several same-named functions on one line, a size
ladder 10^3..10^6 bytes) x 5 exclusion settings (one with a negated pattern) x 4 configurations
(verbose, repository), including back-dated writes, symbolic links to old files and directories
renamed over each other; (3) version guard of report/findings; (4) round trip of every content
under every path through the cache (scan, scan, touch, scan, other configuration, scan);
(5) replacement matrix: every way of putting other bytes under a cached path (write, back-dated
write on a ladder of ages, delete+write, rename over, swap, directory renamed over, symbolic link
created / re-pointed) x ordered pairs of contents from the ladder x configurations, scanned before
and twice after; (6)-(8) trees with ARBITRARY file names, judged by the direct oracles alone (the model's
universe is numbered paths): every file name Pygments maps to a supported language (gen/names.py: `*.h`,
`*.hh`, `BUILD`, `*.pyi`, ...) stays byte-identical while a sibling of another language comes and goes in
its folder; one file walks through all those names by renames / copies that keep its bytes (other
extension, other language, other folder); random histories with canonically equivalent and awkward
names, nested .gitignore files, back-dated writes, the root named in seven ways with the matching working
directory (`cache_real.spell_root`), and the three observation points (scan_command, the CLI entry function,
`python -m codelimit scan`); (9) files that become unreadable (dangling / looping symbolic links, mode 000) after they
were cached: the from-scratch scan of a copy WITH the unreadable entry is the oracle, "both abort" is an equal outcome.
(10) every cache-rejection reason (foreign version in 4 classes with differently measured entries and 3 key spellings, 9 kinds of
damage) x every file-name class (awkward, canonically equivalent pairs, Pygments names, unsupported), oracle-only.
(3) the version guard covers every option of report / findings that reads a report file (`report --diff <file>` in
both formats, through report_command and the CLI entry function) with documents of every version class, damaged and
missing files, on both sides."""
import contextlib
import io
import json
import os
import sys

sys.path.insert(0, os.path.dirname(os.path.dirname(os.path.abspath(__file__))))
import common
import cache_real as cr

ID = "C09"
TRUSTED = [
    "correspondence harness harness/props/C09.py + harness/cache_real.py (abstraction function from the cache file and the analysis log to the model's numbers; rich output silenced by patching rich, not codelimit)",
    "streams (6)-(8) (trees with arbitrary file names) are judged by the direct oracles only, not by the model: from-scratch scan of a copy of the tree by the same program (scan_command), field-by-field comparison cache_real.full_shape / shape_diff, reuse rule from the analysis log; observation points 1 and 2 run codelimit.__main__.scan in a forked child / harness/cache_cli_worker.py (runpy of the module codelimit) in a fresh interpreter; file-name pools harness/gen/names.py (Pygments lexer tables, Unicode normal forms)",
    "root spellings (cache_real.spell_root): the scans of a share of the histories get the root as `.` / a relative path / `../name` / a path with `..` / a path through a symbolic link `<root>.lnk`, with os.chdir to the matching working directory (in the pool worker, restored afterwards; in the forked child; cwd= of the fresh interpreter)",
    "stream (9), files that cannot be read: the oracle is the from-scratch scan of a copy of the tree in which the unreadable path is a dangling / self-referring symbolic link or a file of mode 000 (cache_real.make_unreadable); when that scan aborts, the scan with the cache must abort too (scan_command: with the same exception class), which counts as equal outcomes; the harness runs as %s" % ("root: mode 000 does not make a file unreadable and is replaced by a deleted link target" if os.geteuid() == 0 else "an ordinary user"),
    "version guard: the CLI entry functions codelimit.__main__.report / findings are called in a forked child with the values typer would pass (Path, ReportFormat); `python -m codelimit report|findings <root>` in a fresh interpreter only without --diff / --format (typer's usage formatter fails on every option with a value under the click of this sandbox)",
    "modelled as parameters, not verified here: _analyze_file (C01-C06), md5, the file selection of scan_path (C11), totals/tree as functions of the file entries (C07), JSON writer/reader round trip (C08)",
]
ASSUMPTIONS = [
    "md5 is collision-free on the contents that occur (hypothesis `Function.Injective P.hash` of the theorems)",
    "a cache file of the CURRENT version that was not written by a scan is honest (entries are analyses of some content with that checksum); forged same-version entries with a valid checksum are undetectable and outside the property (DESIGN Appendix A)",
    "nothing modifies the tree while a scan runs",
    "a path that is a symbolic link to a regular file outside the tree counts as a file with the target's bytes (the from-scratch oracle scans a copy made of regular files)",
    "a scan of a tree with an unreadable file may abort (the property speaks about reports that are produced); what is required is that the scan with the cache and the from-scratch scan end the same way",
]

INITS = [
    ([], 0, []),
    ([(0, 0), (1, 1), (2, 2)], 0, [["s"]]),
    ([(0, 0), (1, 0)], 1, [["s"], ["e", 0]]),
]


def alphabet():
    a = []
    for p in range(3):
        for c in range(3):
            a.append(["w", p, c])
    for p in range(3):
        a.append(["d", p])
    for x in range(3):
        for y in range(3):
            if x != y:
                a.append(["r", x, y])
    a.append(["t", 0])
    a += [["wb", 0, 1, 8], ["wb", 1, 2, 3], ["ln", 0, 2], ["ln", 2, 1]]   # back-dated writes, links to old files
    for x, y in ((0, 1), (0, 2), (1, 2)):
        a.append(["x", x, y])
    for k in range(3):
        a.append(["e", k])
    a += [["cm"], ["cj", 0, 2], ["cj", 1]]
    for p in range(3):
        a.append(["ca", 2, p, 0, 1000])       # other version, altered entry, checksum kept
    a.append(["ca", 0, 0, 0, 0])             # version key removed
    for c in range(3):
        a.append(["ca", 3, 0, c + 1, 1000])   # other version, altered entry, checksum of content c
    a += [["co", 0], ["cr", 1], ["dup", 0, 0], ["k", 0, 77], ["k", 1], ["D"], ["M"], ["s"]]
    return a


def content_pool(thorough):
    """content ids for the random histories: mostly plain ones; of the size ladder two rungs in the quick
    tier (10^4, 10^5; an analysis of 10^6 bytes costs 0.15 s) and all four in the thorough tier; streams
    (4) and (5) go through the whole ladder systematically in both tiers"""
    if thorough:
        return cr.PLAIN * 4 + cr.DENSE * 3 + sorted(cr.SIZED)
    return cr.PLAIN * 8 + cr.DENSE * 4 + [7, 8]


def gen_history(rnd, maxlen, pool=None):
    pool = pool or content_pool(False)
    paths = list(range(len(cr.PATHS)))
    init = [(p, rnd.choice(pool)) for p in paths if rnd.random() < 0.6]
    excl = rnd.choice([0, 0, 0, 1, 2, 3, 4])
    cfg = rnd.choice([0, 0, 1, 2, 3])
    ops = []
    files = dict(init)
    nscans = 0

    def dir_rename(a, b):
        for pb in cr.DIR_FILES[b]:
            files.pop(pb, None)
        for pa, pb in zip(cr.DIR_FILES[a], cr.DIR_FILES[b]):
            if pa in files:
                files[pb] = files.pop(pa)
    for _ in range(rnd.randint(3, maxlen)):
        r = rnd.random()
        if r < 0.28:
            ops.append(["s"]); nscans += 1
        elif r < 0.40:
            p, c = rnd.choice(paths), rnd.choice(pool)
            ops.append(["w", p, c]); files[p] = c
        elif r < 0.44:
            p, c = rnd.choice(paths), rnd.choice(pool)
            ops.append(["wb", p, c, rnd.randrange(10)]); files[p] = c
        elif r < 0.48:
            p, c = rnd.choice(paths), rnd.choice(pool)
            ops.append(["ln", p, c]); files[p] = c
        elif r < 0.53:
            p = rnd.choice(paths); ops.append(["d", p]); files.pop(p, None)
        elif r < 0.58:
            a, b = rnd.sample(paths, 2); ops.append(["r", a, b])
            if a in files:
                files[b] = files.pop(a)
        elif r < 0.61:
            a = rnd.randrange(2); ops.append(["R", a, 1 - a]); dir_rename(a, 1 - a)
        elif r < 0.63:
            ops.append(["t", rnd.choice(paths)])
        elif r < 0.68:
            a, b = rnd.sample(paths, 2); ops.append(["x", a, b])
            if a in files and b in files:
                files[a], files[b] = files[b], files[a]
        elif r < 0.73:
            ops.append(["e", rnd.randrange(len(cr.EXCL))])
        elif r < 0.74:
            ops.append(["cfg", rnd.randrange(cr.CFGS)])
        elif r < 0.75:
            ops.append(["root", rnd.randrange(cr.SPELLINGS)])
        elif r < 0.84:
            p = rnd.choice([0, 1, 2, 3, 5, 6])
            v = rnd.choice([0, 2, 2, 3, 4])
            hm = rnd.choice([0, files.get(p, 0) + 1, rnd.randrange(cr.NCONTENT) + 1])
            ops.append(["ca", v, p, hm, rnd.choice([0, 1000, 1000])])
        elif r < 0.87:
            q = [0, 1, 2, 3, 5, 6]
            ops.append(rnd.choice([["cr", rnd.choice(q)], ["cr", rnd.choice(q)], ["fmt"],
                                   ["dup", rnd.choice(q), 0], ["dup", rnd.choice(q), rnd.choice([0, 0, 1])]]))
        elif r < 0.91:
            ops.append(["co", rnd.randrange(max(1, nscans))])
        elif r < 0.93:
            ops.append(["cm"])
        elif r < 0.96:
            ops.append(["cj", 0, rnd.randrange(len(cr.JUNK))] if rnd.random() < 0.7 else ["cj", 1])
        elif r < 0.98:
            ops.append(["k", 0, rnd.randrange(5000)] if rnd.random() < 0.7 else ["k", 1])
        else:
            ops.append(rnd.choice([["D"], ["M"]]))
    ops.append(["s"])
    return {"init": [list(x) for x in init], "excl": excl, "cfg": cfg, "ops": ops}


SUPPORTED = [0, 1, 2, 3, 5, 6]


def round_trip_histories(thorough):
    """stream (4): every content under every supported path goes through the cache"""
    out = []
    paths = SUPPORTED if thorough else [0, 2, 3, 5]
    for c in range(cr.NCONTENT):
        for i, p in enumerate(paths):
            k = (c + i) % cr.CFGS
            out.append({"init": [[p, c]], "excl": 0, "cfg": k,
                        "ops": [["s"], ["s"], ["t", p], ["s"], ["cfg", (k + 1) % cr.CFGS], ["s"]]})
    return out


def replacement_histories(thorough):
    """stream (5): every way of putting other bytes under a cached path, for ordered pairs of contents
    (old, new) from the ladder; p = pkg/b.py or pkg/c.js, q = the same name in the other directory"""
    cs = list(range(cr.NCONTENT)) if thorough else [1, 4, 7, 9]
    ages = list(range(10)) if thorough else [2, 8]
    out = []
    n = 0
    for c1 in cs:
        for c2 in cs:
            if c1 == c2:
                continue
            for p, q in ((1, 5), (2, 6)):
                if not thorough and (c1 + c2 + p) % 2:
                    continue        # quick tier: each pair with one of the two file names
                both = [[p, c1], [q, c2]]
                kinds = [("write", both, [["w", p, c2]]),
                         ("delete+write", both, [["d", p], ["w", p, c2]]),
                         ("rename over", both, [["r", q, p]]),
                         ("swap", both, [["x", p, q]]),
                         ("directory renamed over", both, [["R", 1, 0]]),
                         ("link created", both, [["ln", p, c2]]),
                         ("link re-pointed", [[q, c2]], None)]
                kinds += [("back-dated write 10^%d s" % k, both, [["wb", p, c2, k]]) for k in ages]
                for name, init, repl in kinds:
                    cfgs = range(cr.CFGS) if thorough else [n % cr.CFGS]
                    n += 1
                    for cfg in cfgs:
                        if repl is None:
                            ops = [["ln", p, c1], ["s"], ["ln", p, c2], ["s"], ["s"]]
                        else:
                            ops = [["s"]] + repl + [["s"], ["s"]]
                        out.append({"init": init, "excl": 0, "cfg": cfg, "ops": ops, "kind": name})
    return out


# ------------------------------------------------------------------ trees of files with arbitrary names (oracle-only)

_NAMES = {}


def lang_rows(stem="unit"):
    """names.language_file_names(stem), computed once (it walks through all lexers of Pygments)"""
    from gen import names
    if stem not in _NAMES:
        _NAMES[stem] = names.language_file_names(stem)
    return _NAMES[stem]


def lang_names(stem="unit"):
    """[(file name, language)] - every file name Pygments maps to a supported language (gen/names.py)"""
    return [(fn, lang) for fn, lang, _others in lang_rows(stem)]


def other_names():
    """names of no supported language (next to the whole-name languages BUILD, SConstruct, ...)"""
    from gen import names
    if "other" not in _NAMES:
        _NAMES["other"] = names.sibling_names("BUILD") + ["notes.txt", "data.json"]
    return _NAMES["other"]


def sibling_histories(thorough, rnd):
    """stream (6): a file f stays byte-identical at its path while a sibling g comes and goes in ITS folder, for every
    f of the name pool and every g of another language (thorough: every g; also in the root folder): scan, then
    per g in a random order: the previous sibling is deleted, g created, scan (every fifth time a scan without any
    sibling in between); finally the last sibling is deleted, scan"""
    pool = lang_names()
    out = []
    for i, (f, lf) in enumerate(pool):
        for folder in (("lib/", "") if thorough else ("lib/",)):
            gs = [g for g, lg in pool if g != f and (thorough or lg != lf)]
            rnd.shuffle(gs)
            ops = [["s"]]
            prev = None
            for j, g in enumerate(gs):
                if prev:
                    ops.append(["d", folder + prev])
                    if j % 5 == 0:
                        ops.append(["s"])
                ops += [["w", folder + g, 100 + (i + j) % 9], ["s"]]
                prev = g
            ops += [["d", folder + prev], ["s"]]
            out.append({"named": 1, "kind": "siblings", "files": [[folder + f, 100 + i % 11]], "ops": ops})
    return out


def rename_chain_histories(thorough, rnd):
    """stream (7): one file keeps its bytes and walks through every name of the pool (renamed to another extension
    of its language, to another language's, to a name that is a language by itself; every second step into another
    folder), a scan after every step; in the second half of the chains an older copy stays behind"""
    pool = [fn for fn, _ in lang_names()]
    out = []
    for k in range(40 if thorough else 6):
        names = list(pool)
        rnd.shuffle(names)
        folders = ["src/", "lib/", ""]
        cur = folders[0] + names[0]
        ops = [["s"]]
        for j, n in enumerate(names[1:]):
            nxt = folders[(j // 2) % 3] + n
            ops += [["cp" if k % 2 and j % 3 == 0 else "r", cur, nxt], ["s"]]
            cur = nxt
        out.append({"named": 1, "kind": "rename-chain", "files": [[folders[0] + names[0], 100 + k % 13]],
                    "cfg": k % cr.CFGS, "ops": ops})
    return out


DIRS_N = ["", "lib/", "src/deep/"]
EXCL_N = [[], [], [], ["*.js"], ["lib"], ["*.h", "!lib/unit.h"], ["src/**/*.py"], ["BUILD"]]


def name_pool(rnd):
    """the file names of one random named history: language names (two stems), both spellings of a canonically
    equivalent pair, awkward names, names of no supported language"""
    from gen import names
    ln = lang_names("unit") + lang_names("main")
    pool = [rnd.choice(DIRS_N) + fn for fn, _ in rnd.sample(ln, 7)]
    # the ambiguous names (claimed by several lexers) and the names that are a language by themselves: always some
    special = [fn for fn, _lang, others in lang_rows("unit") if others or "." not in fn]
    pool += [rnd.choice(DIRS_N) + fn for fn in rnd.sample(special, 2)]
    ext = rnd.choice([".py", ".js", ".c", ".h", ".cpp", ".ts", ".java", ".cs"])
    d = rnd.choice(DIRS_N)
    pool += [d + x for x in rnd.choice(names.unicode_twins(ext))]
    pool += [rnd.choice(DIRS_N) + x for x in rnd.sample(names.awkward_names(ext), 2)]
    pool += [rnd.choice(DIRS_N) + x for x in rnd.sample(other_names(), 2)]
    return sorted(set(pool))


def gen_named_history(rnd, maxlen=20):
    pool = name_pool(rnd)
    cids = list(range(100, 122)) * 2 + cr.PLAIN + cr.DENSE + [7]
    files = [[n, rnd.choice(cids)] for n in pool if rnd.random() < 0.4]
    have = set(n for n, _ in files)
    ops = []
    for _ in range(rnd.randint(4, maxlen)):
        if rnd.random() < 0.06:
            # the cache replaced by one of another version (entries measured differently, keys in one of three spellings) / damaged
            ops.append(["cv", rnd.choice(FOREIGN_V), rnd.choice([1, 1000]), rnd.randrange(len(cr.KEY_SPELLINGS))]
                       if rnd.random() < 0.7 else ["cdmg", rnd.randrange(len(cr.DAMAGE_KINDS))])
            continue
        r = rnd.random()
        if r < 0.27:
            ops.append(["s"])
        elif r < 0.40:
            n = rnd.choice(pool); ops.append(["w", n, rnd.choice(cids)]); have.add(n)
        elif r < 0.46:
            n = rnd.choice(pool); ops.append(["wb", n, rnd.choice(cids), rnd.randrange(9)]); have.add(n)
        elif r < 0.54 and have:
            n = rnd.choice(sorted(have)); ops.append(["d", n]); have.discard(n)
        elif r < 0.70 and have:
            a, b = rnd.choice(sorted(have)), rnd.choice(pool)
            if a != b:
                ops.append(["r", a, b]); have.discard(a); have.add(b)
        elif r < 0.80 and have:
            a, b = rnd.choice(sorted(have)), rnd.choice(pool)
            if a != b:
                ops.append(["cp", a, b]); have.add(b)
        elif r < 0.84:
            ops.append(["gi", rnd.choice(DIRS_N), rnd.choice([["*.py"], ["unit.*"], ["*", "!*.h"], ["deep"], []])])
        elif r < 0.88:
            ops.append(["e", rnd.choice(EXCL_N)])
        elif r < 0.92:
            ops.append(["root", rnd.randrange(cr.SPELLINGS)])
        elif r < 0.95:
            ops.append(["cfg", rnd.randrange(cr.CFGS)])
        elif r < 0.97:
            ops += [["ent", 1], ["s"], ["ent", 0]]          # a forked child with two git calls costs 0.1 s
        elif r < 0.977:
            ops += [["ent", 2], ["s"], ["ent", 0]]          # a fresh interpreter costs a second
        elif r < 0.985:
            n = rnd.choice(pool); ops.append(["lnk", n, rnd.choice(cids)]); have.add(n)
        elif r < 0.993 and have:
            # a file becomes unreadable (every later scan may abort until it is repaired, deleted or excluded)
            n = rnd.choice(sorted(have))
            ops += [["brk", n, rnd.randrange(len(cr.UNREADABLE_KINDS))], ["s"]]
            if rnd.random() < 0.7:
                ops.append(rnd.choice([["fix", n, rnd.choice(cids)], ["d", n], ["e", [n]]]))
                if ops[-1][0] == "d":
                    have.discard(n)
        elif have:
            ops.append(["t", rnd.choice(sorted(have))])
    ops.append(["s"])
    return {"named": 1, "kind": "random", "files": files, "excl": rnd.choice(EXCL_N), "cfg": rnd.choice([0, 0, 1, 2, 3]),
            "entry": rnd.choice([0] * 9 + [1]), "ops": ops}


def unreadable_histories(thorough, rnd):
    """stream (9): a file that WAS readable (a regular file or a symbolic link to a shared file outside the tree,
    scanned or not yet scanned) can no longer be read - the target of the link deleted / renamed / its folder moved, a
    link to itself, mode 000 - next to a file that stays; two scans, then the file is repaired with the old or another
    content / deleted / excluded / renamed, two scans.  Names from the Pygments pool (quick: a sample)."""
    pool = [fn for fn, _ in lang_names()]
    names = pool if thorough else rnd.sample(pool, 5)
    hows = range(len(cr.UNREADABLE_KINDS))
    out = []
    n = 0
    for f in names:
        rel = rnd.choice(["", "lib/"]) + f
        for how in hows:
            for start in (0, 1, 2, 3):
                c1, c2 = 100 + n % 17, 100 + (n + 5) % 17
                pre = [[["s"]], [["lnk", rel, c1], ["s"]], [], [["s"], ["lnk", rel, c2], ["s"]]][start]
                repairs = [[["fix", rel, c1]], [["fix", rel, c2]], [["d", rel]], [["e", [rel]]], [["r", rel, "moved/" + f]], [["lnk", rel, c2]]]
                for rep in (repairs if thorough else [repairs[n % len(repairs)]]):
                    ops = pre + [["brk", rel, how], ["s"], ["s"]] + rep + [["s"], ["s"]]
                    out.append({"named": 1, "kind": "unreadable", "files": [[rel, c1], ["keep.py", 100 + (n + 1) % 17]],
                                "cfg": n % cr.CFGS, "entry": 1 if n % 8 == 7 else 0, "ops": ops})
                    n += 1
    return out


FOREIGN_V = (2, 0, 3, 4)          # cache_real.VERS: another release, key absent, current + suffix, a number


def rejection_reasons():
    """every reason for which a cache on disk must not be used: written by another version (4 version classes x 3
    spellings of the file keys, every entry measured differently) and damaged (cache_real.DAMAGE_KINDS)"""
    out = [["cv", v, 1000 if (v + k) % 2 else 1, k] for v in FOREIGN_V for k in range(len(cr.KEY_SPELLINGS))]
    return out + [["cdmg", k] for k in range(len(cr.DAMAGE_KINDS))]


def name_classes(thorough, rnd):
    """[(name class, [file names of one tree])]: every awkward name (backslash, quote, tab, pattern characters ...), both
    spellings of every canonically equivalent pair, names Pygments maps to a supported language (quick: a sample), names
    of no supported language"""
    from gen import names
    exts = [".py", ".js", ".c", ".h", ".cpp", ".ts", ".java", ".cs"]
    out = []
    for i, ext in enumerate(exts if thorough else [rnd.choice(exts)]):
        for j, n in enumerate(names.awkward_names(ext)):
            out.append(("awkward", [n]))
        for pair in names.unicode_twins(ext):
            out.append(("canonically equivalent pair", list(pair)))
    out.append(("awkward", names.awkward_names(rnd.choice(exts))))           # all of them in one folder
    ln = [fn for fn, _ in lang_names()]
    for fn in (ln if thorough else rnd.sample(ln, 10)):
        out.append(("Pygments", [fn]))
    for fn in (other_names() if thorough else rnd.sample(other_names(), 2)):
        out.append(("no supported language", [fn]))
    return out


def rejection_histories(thorough, rnd):
    """stream (10): every cache-rejection reason x every name class.  A tree of the named file(s) in a folder, a file
    with a Pygments name in another folder and one in the root is scanned; then, per reason in a random order: the
    cache is replaced (foreign version with differently measured entries / damaged), scan (must analyse every file and
    equal the from-scratch scan), scan (reuse).  Every fourth tree is edited between the reasons."""
    ln = [fn for fn, _ in lang_names()]
    out = []
    for i, (cls, fns) in enumerate(name_classes(thorough, rnd)):
        folder = DIRS_N[i % 3]
        nb = rnd.choice([x for x in ln if x not in fns])
        files = [[folder + fn, 100 + (i + j) % 19] for j, fn in enumerate(fns)]
        files += [[("lib/" if folder != "lib/" else "src/deep/") + nb, 100 + (i + 7) % 19], ["keep.py", 100 + (i + 3) % 19]]
        reasons = rejection_reasons()
        rnd.shuffle(reasons)
        ops = [["s"]]
        for j, r in enumerate(reasons):
            if i % 4 == 3 and j % 3 == 1:
                ops.append(["w", files[j % len(files)][0], 100 + (i + j) % 19])
            ops += [r, ["s"]] + ([["s"]] if j % 2 == 0 or thorough else [])
        out.append({"named": 1, "kind": "cache-rejection", "name_class": cls, "files": files, "cfg": i % cr.CFGS,
                    "entry": 1 if i % 16 == 15 else 0, "ops": ops})
    return out


def named_histories(ctx, rnd):
    out = sibling_histories(ctx.thorough, rnd) + rename_chain_histories(ctx.thorough, rnd)
    out += unreadable_histories(ctx.thorough, rnd)
    out += rejection_histories(ctx.thorough, ctx.rng("rejection-histories"))
    out += [gen_named_history(rnd) for _ in range(ctx.pick(160, 2500))]
    return out


def _named_stats(hists, recs):
    d = {"histories": {}, "scans": 0, "scans_with_reuse": 0, "scans_aborted_like_the_from_scratch_scan": 0, "scans_by_entry": {},
         "scans_by_root_spelling": {}, "ops": {}, "file_names": 0, "languages_by_name": {}}
    names_seen = set()
    for h, r in zip(hists, recs):
        d["histories"][h["kind"]] = d["histories"].get(h["kind"], 0) + 1
        for op in h["ops"]:
            d["ops"][op[0]] = d["ops"].get(op[0], 0) + 1
            if op[0] in ("w", "wb", "lnk", "fix"):
                names_seen.add(op[1])
            elif op[0] in ("r", "cp"):
                names_seen.add(op[2])
        names_seen |= set(n for n, _ in h["files"])
        k, ks = 0, []
        for op in h["ops"]:
            if op[0] == "root":
                k = op[1] % cr.SPELLINGS
            elif op[0] == "s":
                ks.append(k)
        for k in ks:
            d["scans_by_root_spelling"][cr.SPELLING_NAMES[k]] = d["scans_by_root_spelling"].get(cr.SPELLING_NAMES[k], 0) + 1
        for o in r["real"]:
            d["scans"] += 1
            d["scans_aborted_like_the_from_scratch_scan"] += o[5]
            d["scans_with_reuse"] += 1 if o[2] else 0
            d["scans_by_entry"][str(o[4])] = d["scans_by_entry"].get(str(o[4]), 0) + 1
    d["file_names"] = len(names_seen)
    d["cache_rejection_by_name_class"] = {}
    d["cache_rejection_reasons"] = {}
    for h in hists:
        if h["kind"] == "cache-rejection":
            d["cache_rejection_by_name_class"][h["name_class"]] = d["cache_rejection_by_name_class"].get(h["name_class"], 0) + 1
        for op in h["ops"]:
            if op[0] == "cv":
                k = "version class %s, keys %s" % (cr.VERS[op[1]], cr.KEY_SPELLINGS[op[3] % len(cr.KEY_SPELLINGS)])
            elif op[0] == "cdmg":
                k = "damaged: " + cr.DAMAGE_KINDS[op[1] % len(cr.DAMAGE_KINDS)]
            else:
                continue
            d["cache_rejection_reasons"][k] = d["cache_rejection_reasons"].get(k, 0) + 1
    for fn, lang in lang_names():
        d["languages_by_name"][lang] = d["languages_by_name"].get(lang, 0) + 1
    return d


# ------------------------------------------------------------------ report / findings version guard

VCLASSES = (None, 0, 1, 2, 3, 4)        # no file | version key absent | current | other | current + suffix | a number
DAMAGED = {"junk": b"not json", "empty": b"", "truncated": None, "array": b"[]"}


def _report_bytes(v, init):
    """the cache file a scan of `init` writes, re-labelled with version class v (entries of another version altered) -> (bytes, abstract cache)"""
    w = cr.new_world(init, 0)
    try:
        w.apply(["s"])
        w.apply(["ca", v, 0, 0, 1000] if v != 1 else ["fmt"])
        return w.cache_bytes(), w.abstract()
    finally:
        w.close()


def _readreport_request(a):
    return "readreport " + ("0" if a[0] == "m" else "1" if a[0] == "j" else
                            "3 %d %d %s" % (a[1], len(a[2]), " ".join(str(x) for r in a[2] for x in r)))


def _outcome(code, err, txt):
    if err:
        return "raised " + err
    if code in (None, 0):
        return "2"
    if code == 1 and "version mismatch" in txt:
        return "1"
    if code == 1 and "No cached report" in txt:
        return "0"
    return "exit %s %s" % (code, txt[:80])


def _display(name, root, fmt, diff=None, full=False, via=0):
    """one call of report / findings -> outcome: "2" displayed, "1" refused (exit code 1, version mismatch message), "0" no
    report, else a text.  via 0: report_command / findings_command; 1: the functions typer calls for `codelimit report` /
    `codelimit findings` (codelimit.__main__) in a forked child; 2: `python -m codelimit report|findings ...` in a fresh interpreter"""
    m = cr.cl()
    F = m["ReportFormat"]
    f = F.markdown if fmt == "markdown" else F.text
    P = m["Path"]
    if via == 2:
        import subprocess
        import tempfile
        args = [name] + (["--diff", diff] if diff else []) + (["--full"] if full else []) + (["--format", fmt] if fmt != "text" else []) + [root]
        fd, res = tempfile.mkstemp(prefix="clcli_", suffix=".json")
        os.close(fd)
        env = dict(os.environ, VERIF_REPO=common.REPO, CACHE_CLI_RESULT=res, COLUMNS="200")
        worker = os.path.join(os.path.dirname(os.path.abspath(cr.__file__)), "cache_cli_worker.py")
        try:
            p = subprocess.run([sys.executable, worker] + args, env=env, stdout=subprocess.PIPE, stderr=subprocess.PIPE,
                               cwd=tempfile.gettempdir(), timeout=300)
            try:
                out = json.load(open(res))
            except (OSError, ValueError):
                return "the process ended with status %s: %s" % (p.returncode, p.stderr.decode("utf-8", "replace")[-120:])
        finally:
            with contextlib.suppress(OSError):
                os.unlink(res)
        txt = " ".join(p.stdout.decode("utf-8", "replace").split())
        e = out["error"]
        if e is None:
            return _outcome(None, None, txt)
        if e.startswith("exit status "):
            return _outcome(int(e.split()[-1]) if e.split()[-1].isdigit() else e, None, txt)
        return "raised " + e.split(":")[0]

    def call():
        buf = io.StringIO()
        code = err = None
        try:
            with contextlib.redirect_stdout(buf):
                if via == 1:
                    import codelimit.__main__ as em
                    if name == "report":
                        em.report(P(root), P(diff) if diff else None, f)
                    else:
                        em.findings(P(root), full, f)
                elif name == "report":
                    if diff:
                        m["report_command"](P(root), f, P(diff))
                    else:
                        m["report_command"](P(root), f)
                else:
                    m["findings_command"](P(root), full, f)
        except (m["typer"].Exit, SystemExit) as e:
            code = getattr(e, "exit_code", getattr(e, "code", None))
        except Exception as e:  # noqa: BLE001
            err = type(e).__name__
        return _outcome(code, err, " ".join(buf.getvalue().split()))
    if via == 1:
        return cr._in_child(call) or "the process died"
    return call()


def version_guard_cases(thorough=False):
    """every way of DISPLAYING a report - report / findings in both formats, findings --full, and every option that reads
    a report file: `report --diff <file>` - on caches of every version class, with --diff files of every version class,
    missing and damaged ones; through the command functions, the CLI entry functions and (a few) fresh interpreters
    -> list of (description, model request(s), real outcome, required outcome, model outcome composer)
    required: "0" no cache, "1" refused when the cache or the --diff file was written by another version, "2" displayed when
    all files involved are of the current version, "!2" (anything but displayed) for a missing / damaged --diff file"""
    import tempfile
    import shutil
    out = []
    docs = {v: _report_bytes(v, [(0, 1), (2, 2)]) for v in VCLASSES if v is not None}
    saved = {v: _report_bytes(v, [(0, 2), (2, 3), (3, 1)]) for v in VCLASSES if v is not None}     # an older state of the code base
    base = tempfile.mkdtemp(prefix="clvg_")
    jobs = []
    try:
        diffs = {}
        for v, (b, a) in saved.items():
            diffs[v] = (os.path.join(base, "baseline-%s.json" % v), _readreport_request(a))
            with open(diffs[v][0], "wb") as f:
                f.write(b)
        for k, b in DAMAGED.items():
            diffs[k] = (os.path.join(base, "baseline-%s.json" % k), None)
            with open(diffs[k][0], "wb") as f:
                f.write(b if b is not None else saved[1][0][:len(saved[1][0]) // 2])
        diffs["missing"] = (os.path.join(base, "no-such-report.json"), None)
        roots = {}
        for v in VCLASSES:
            roots[v] = os.path.join(base, "project-%s" % v)
            os.makedirs(os.path.join(roots[v], ".codelimit_cache"))
            if v is not None:
                with open(os.path.join(roots[v], ".codelimit_cache", "codelimit.json"), "wb") as f:
                    f.write(docs[v][0])
        for v in VCLASSES:
            creq = "readreport 0" if v is None else _readreport_request(docs[v][1])
            base_req = "0" if v is None else "2" if v == 1 else "1"
            for name, fmt, full in (("report", "text", False), ("report", "markdown", False), ("findings", "text", False),
                                    ("findings", "markdown", False), ("findings", "text", True)):
                for via in ((0, 1) if thorough or fmt == "text" else (0,)):
                    jobs.append(("%s%s --format %s on cache version class %s (via %d)" % (name, " --full" if full else "", fmt, v, via),
                                 [creq], base_req, (name, roots[v], fmt, None, full, via)))
            # report --diff <file>: the cache of class v, the file of class d
            for d in diffs:
                if v != 1 and not thorough and d not in (1, 2, "junk"):
                    continue
                for fmt in ("text", "markdown"):
                    for via in (0, 1):
                        if not thorough and via == 1 and (v != 1 or (fmt == "markdown") != (d in (0, 3, "junk"))):
                            continue
                        req = base_req if base_req != "2" else "2" if d == 1 else "1" if d in (0, 2, 3, 4) else "!2"
                        jobs.append(("report --diff <file of version class %s> --format %s on cache version class %s (via %d)" % (d, fmt, v, via),
                                     [creq, diffs[d][1]], req, ("report", roots[v], fmt, diffs[d][0], False, via)))
        # fresh interpreters (a second each, run concurrently)
        # (with the typer / click of this sandbox every option that takes a value - --format, --diff - ends in a TypeError of
        # typer's usage formatter, so the fresh interpreters run the commands without options; --diff and --format go through
        # the CLI entry functions, via 1)
        fresh = [("report", 1, "text", None), ("report", 2, "text", None), ("findings", 2, "text", None), ("findings", 1, "text", None)]
        if thorough:
            fresh += [(n, v, "text", None) for n in ("report", "findings") for v in (None, 0, 3, 4)]
        for name, v, fmt, d in fresh:
            base_req = "0" if v is None else "2" if v == 1 else "1"
            req = base_req if d is None or base_req != "2" else "2" if d == 1 else "1" if d in (0, 2, 3, 4) else "!2"
            jobs.append(("`python -m codelimit %s%s --format %s` on cache version class %s (via 2)" % (
                name, " --diff <file of version class %s>" % d if d is not None else "", fmt, v),
                ["readreport 0" if v is None else _readreport_request(docs[v][1])] + ([diffs[d][1]] if d is not None else []), req,
                (name, roots[v], fmt, diffs[d][0] if d is not None else None, False, 2)))
        from concurrent.futures import ThreadPoolExecutor
        slow = [j for j in jobs if j[3][5] == 2]
        with ThreadPoolExecutor(8) as ex:
            slow_out = list(ex.map(lambda j: _display(*j[3]), slow))
        results = {id(j): r for j, r in zip(slow, slow_out)}
        for j in jobs:
            real = results[id(j)] if id(j) in results else _display(*j[3])
            out.append((j[0], j[1], real, j[2]))
    finally:
        shutil.rmtree(base, ignore_errors=True)
    return out


def version_guard_judge(cases):
    """-> (disagreements with the model, oracle failures): the model's `readreport` is asked for every report file
    involved; a display happens when every one of them is displayed ("2"), else the first refusal is the outcome"""
    dis, fails = [], []
    reqs = [r for c in cases for r in c[1] if r]
    replies = dict(zip(reqs, common.run_driver(reqs))) if reqs else {}
    for what, mreqs, real, required in cases:
        inp = {"stream": "version-guard", "case": what}
        if all(mreqs):
            model = "2"
            for r in mreqs:
                if replies[r] != "2":
                    model = replies[r]
                    break
            if model != real:
                dis.append({"stream": "read_report", "input": inp, "model": model, "impl": real})
        if (real == "2") if required == "!2" else (real != required):
            fails.append({"input": inp, "observed": real + (" (2 = the report was displayed)" if real == "2" else ""),
                          "required": required + " (0 no report, 1 refused with exit code 1 and the version mismatch message because the cache or the --diff file was written by another version, 2 shown, !2 anything but shown)"})
    return dis, fails


# ------------------------------------------------------------------ check

def _tasks(ctx):
    depth = ctx.pick(3, 4)
    al = alphabet()
    tasks = []
    for init, excl, prefix in INITS:
        for first in al:
            tasks.append((init, excl, prefix, first, al, depth))
    return tasks, depth, len(al)


def _stats(records):
    d = {"scans": 0, "scans_with_reuse": 0, "scans_all_reused": 0, "scans_after_foreign_or_damaged_cache": 0, "ops": {}}
    for r in records:
        ops = r["input"]["ops"]
        for op in ops:
            d["ops"][op[0]] = d["ops"].get(op[0], 0) + 1
        last = r["real"][-1] if r["real"] else None
        d["scans"] += 1
        if last and len(last) == 5:
            if last[1]:
                d["scans_with_reuse"] += 1
            if last[1] and not last[2]:
                d["scans_all_reused"] += 1
        if any(op[0] in ("ca", "cj", "cm", "k", "cr", "co", "D", "fmt", "dup") for op in ops):
            d["scans_after_foreign_or_damaged_cache"] += 1
    return d


def correspond(ctx):
    tasks, depth, nal = _tasks(ctx)
    recs = [r for part in cr.pool_map(cr.run_dfs, tasks) for r in part]
    n_ex = len(recs)
    rnd = ctx.rng("random-histories")
    nrand = ctx.pick(1200, 8000)
    pool = content_pool(ctx.thorough)
    hists = [gen_history(rnd, 25, pool) for _ in range(nrand)]
    chunks = [hists[i::32] for i in range(32)]
    rrecs = [r for part in cr.pool_map(cr.run_histories, chunks) for r in part]
    # (4) round trips, (5) replacement matrix
    trips = round_trip_histories(ctx.thorough)
    repl = replacement_histories(ctx.thorough)
    extra = trips + repl
    xrecs = [r for part in cr.pool_map(cr.run_histories, [extra[i::32] for i in range(32)]) for r in part]
    # (6)-(8) trees with arbitrary names: oracles only
    nhists = named_histories(ctx, ctx.rng("named-histories"))
    order = sorted(range(len(nhists)), key=lambda i: -len(nhists[i]["ops"]))      # long ones first, spread over the pool
    nparts = cr.pool_map(cr.run_histories, [[nhists[i] for i in order[j::48]] for j in range(48)])
    nrecs = [None] * len(nhists)
    for j, part in enumerate(nparts):
        for i, r in zip(order[j::48], part):
            nrecs[i] = r
    dis, fails = cr.judge(recs + rrecs + xrecs + nrecs)
    # version guard of report / findings
    vg = version_guard_cases(ctx.thorough)
    vdis, vfails = version_guard_judge(vg)
    dis += vdis
    fails = vfails + fails
    if not cr.pre()["distinct"]:
        fails.append({"input": {"stream": "universe"}, "observed": "two contents have the same analysis under one path",
                      "required": "distinct measurement results per (path, content)"})
    nscans_random = sum(len(r["real"]) for r in rrecs)
    nscans_extra = sum(len(r["real"]) for r in xrecs)
    nst = _named_stats(nhists, nrecs)
    st = _stats(recs)
    st_r = _stats(rrecs)
    manip = ("ca", "cj", "cm", "k", "cr", "co", "D", "fmt", "dup")
    nontrivial = set(r["request"] + "|%s" % r["input"].get("cfg", 0) for r in recs + rrecs + xrecs
                     if any(o and len(o) == 5 and o[1] for o in r["real"]) or any(op[0] in manip for op in r["input"]["ops"]))
    nontrivial |= set(json.dumps(h, sort_keys=True) for h, r in zip(nhists, nrecs) if any(o[2] for o in r["real"]))
    kinds = {}
    for h in repl:
        kinds[h["kind"]] = kinds.get(h["kind"], 0) + 1
    used = {}
    for r in rrecs + xrecs:
        for p, c in r["input"]["init"]:
            used[c] = used.get(c, 0) + 1
        for op in r["input"]["ops"]:
            if op[0] in ("w", "wb", "ln"):
                used[op[2]] = used.get(op[2], 0) + 1
    # shrink what failed (keeps the evidence small and the replay readable)
    fails = _shrunk(fails)
    return {
        "evaluations": n_ex + nscans_random + nscans_extra + len(vg) + nst["scans"],
        "distinct_nontrivial": len(nontrivial),
        "rule": "from %d initial states (no cache / 3 files scanned / 2 files of equal content scanned under an exclusion) every sequence of at most %d operations over a %d-letter alphabet (write 3x3, delete, rename, touch, back-dated write, symbolic link to an old file, swap, exclusions, remove cache, junk, ill-typed, other-version caches with an altered entry and kept / forged checksum, version key removed, old cache restored, entry dropped, truncation, cache dir / marker removal, scan) that ends in a scan: %d scans, each compared with the model and the oracles; %d random histories of length <= 25 on 7 paths (two directories with the same file names) x %d contents (4 plain, 2 with several same-named functions on one line, size ladder %s bytes) x 5 exclusion settings (one with a negated pattern) x 4 configurations (verbose, repository; also switched inside a history) with back-dated writes (10^0..10^9 s), links to old files and directories renamed over each other (%d scans); %d round-trip histories (every content under %d paths: scan, scan, touch, scan, other configuration, scan); %d replacement histories (%s) over ordered pairs of %d ladder contents, scan before and twice after (%d scans in streams 4+5); %d report / findings calls (report and findings in text and markdown, findings --full, and `report --diff <file>` - the option that reads a second report file - with files of every version class, missing, empty, not JSON, truncated, on caches of every version class: 0 no file, key absent, current, other, current + suffix, a number; through report_command / findings_command, the CLI entry functions codelimit.__main__.report / findings in a forked child and `python -m codelimit report|findings` in a fresh interpreter: %s), required: displayed only when EVERY report file involved is of the current version; non-trivial = histories with a reuse or a cache manipulation; PLUS, judged by the oracles alone (report == from-scratch scan of a copy field by field incl. the shape of identifier and time stamp, reuse only of files whose path and bytes the current-version cache knows), trees with file names from Pygments / Unicode data (%d names that select one of %d languages by extension or whole name): %s; %d scans, by observation point (0 scan_command, 1 the CLI entry function in a forked child, 2 `python -m codelimit scan` in a fresh interpreter) %s" % (
            len(INITS), depth, nal, n_ex, nrand, len(set(pool)), sorted(cr.SIZED[c] for c in set(pool) if c in cr.SIZED),
            nscans_random, len(trips), len(set(h["init"][0][0] for h in trips)), len(repl),
            ", ".join("%s %d" % kv for kv in sorted(kinds.items())), len(set(h["init"][-1][1] for h in repl)), nscans_extra, len(vg),
            json.dumps({k: sum(1 for c in vg if "(via %s)" % k in c[0]) for k in "012"}, sort_keys=True),
            len(lang_names()), len(nst["languages_by_name"]),
            "%d sibling histories (a file stays byte-identical while a file of another language comes and goes in its folder, every name x every name of another language), %d rename / copy chains through all names (bytes kept across extensions, languages and folders), %d histories in which a file that was readable (regular or a symbolic link to a shared file outside the tree, cached or not) becomes UNREADABLE (%s) next to a file that stays, two scans, repaired (old / other content, deleted, excluded, renamed, re-linked), two scans - a from-scratch scan of such a tree may abort, then the scan with the cache has to abort the same way (equal outcomes: %d scans), otherwise the reports are equal, %d random histories (write, back-dated write, delete, rename, copy, link to a shared file, file made unreadable, nested .gitignore, exclusions, root named in %d ways - absolute, through a symbolic link, with `..`, `.`, relative, `../name`, relative through a link, with the matching working directory: %s -, configuration and observation point switched; canonically equivalent and awkward names; 6%% of the operations replace the cache by one of another version / damage it), %d CACHE-REJECTION histories: every reason for which a cache must not be used (written by another version - version key another release / absent / current + suffix / a number, EVERY entry measured differently with the checksums kept, file keys as written / with backslash separators / with a leading ./ - and damaged: %s) x every name class (%s), a file with a Pygments name in another folder and one in the root next to it: after each replacement a scan that must analyse every file and equal the from-scratch scan, then a scan that may reuse" % (
                nst["histories"].get("siblings", 0), nst["histories"].get("rename-chain", 0), nst["histories"].get("unreadable", 0),
                ", ".join(cr.UNREADABLE_KINDS) + ("; mode 000 has no effect for root and counts as a deleted target" if os.geteuid() == 0 else ""),
                nst["scans_aborted_like_the_from_scratch_scan"], nst["histories"].get("random", 0), cr.SPELLINGS, json.dumps(nst["scans_by_root_spelling"], sort_keys=True),
                nst["histories"].get("cache-rejection", 0), ", ".join(cr.DAMAGE_KINDS), json.dumps(nst["cache_rejection_by_name_class"], sort_keys=True)),
            nst["scans"], json.dumps(nst["scans_by_entry"], sort_keys=True)),
        "samples": [{"request": r["request"], "real_last_scan": str(r["real"][-1])} for r in (recs[5:7] + rrecs[:3] + xrecs[:2])],
        "exhaustive": True,
        "distribution": {"exhaustive": st, "random": st_r, "random_scans": nscans_random,
                         "round_trip_histories": len(trips), "replacement_histories": kinds,
                         "round_trip_and_replacement": _stats(xrecs), "round_trip_and_replacement_scans": nscans_extra,
                         "content_uses_outside_exhaustive": {str(k): v for k, v in sorted(used.items())},
                         "content_bytes": {str(k): len(cr.content(k)) for k in range(cr.NCONTENT)},
                         "configurations_random": {str(k): sum(1 for r in rrecs if r["input"].get("cfg", 0) == k) for k in range(cr.CFGS)},
                         "oracle_only_histories": sum(1 for r in recs + rrecs + xrecs if r.get("oracle_only")),
                         "forged_histories_skipped": sum(1 for r in recs + rrecs + xrecs if r.get("forged")),
                         "named_trees": nst,
                         "version_guard": {"calls": len(vg), "with_diff_file": sum(1 for c in vg if "--diff" in c[0]),
                                           "displayed": sum(1 for c in vg if c[2] == "2"), "refused_or_no_report": sum(1 for c in vg if c[2] in ("0", "1")),
                                           "other_outcomes": sorted(set(c[2] for c in vg if c[2] not in ("0", "1", "2")))}},
        "disagreements": dis[:50], "oracle_failures": fails[:50],
    }


def _shrunk(fails):
    out = []
    for f in fails[:6]:
        inp = f.get("input", {})
        if "ops" in inp:
            try:
                small = cr.shrink(inp)
                probs = cr.history_problems(small)
                if probs:
                    f = dict(f, input=small, observed=probs[0])
            except Exception:  # noqa: BLE001
                pass
        out.append(f)
    return out + fails[6:9]


def search(ctx, hints):
    """failing-input search: the hinted histories first (shrunk), then more random histories"""
    found = []
    for h in hints:
        if isinstance(h, dict) and "ops" in h:
            probs = cr.history_problems(h)
            if probs:
                small = cr.shrink(h)
                found.append({"input": small, "observed": (cr.history_problems(small) or probs)[0],
                              "required": "model and real scan agree; report == fresh scan"})
        if len(found) >= 3:
            return found
    rnd = ctx.rng("search")
    hists = [gen_history(rnd, 25, content_pool(ctx.thorough)) for _ in range(ctx.pick(400, 3000))]
    hists += replacement_histories(False) + round_trip_histories(False)
    hists += named_histories(ctx, ctx.rng("named-histories"))
    recs = [r for part in cr.pool_map(cr.run_histories, [hists[i::32] for i in range(32)]) for r in part]
    dis, fails = cr.judge(recs)
    for d in dis[:3]:
        found.append({"input": cr.shrink(d["input"]), "observed": d["impl"], "required": "model and real scan agree"})
    found += _shrunk(fails)[:5]
    found += version_guard_judge(version_guard_cases(ctx.thorough))[1][:4]
    return found[:10]


def replay(payload):
    inp = payload["input"]
    if inp.get("stream") == "version-guard":
        ok = True
        for what, req, real, required in version_guard_cases(True):
            if what == inp["case"]:
                print("%s -> %s (required %s)" % (what, real, required))
                ok = ok and ((real != "2") if required == "!2" else real == required)
        return ok
    if "ops" not in inp:
        print("nothing to replay")
        return False
    probs = cr.history_problems(inp)
    print("history %s" % inp)
    for p in probs:
        print("  problem: %s" % p)
    return not probs
