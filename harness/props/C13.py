"""C13 - the pattern engine implements regular-expression semantics.

Tie: correspondence between Model/Regex.lean + Model/Pattern.lean (driver ops match/sw/nfa)
and codelimit.common.gsm.matcher on the same (pattern, word) pairs.
Oracle (only decides when something is broken): reference semantics by derivatives.

Besides the tree streams (model against code on new objects per case) the OBJECT streams of obj_streams.py run the
real engine against the reference semantics on what a tree does not show: operator objects used at several places
(within a pattern and across the patterns of a process), every call repeated on the same objects, alphabets whose
items are words / tuples / other values with one-item operands written bare or as lists, in-place edits of the
expression list between calls, and size ladders (sequence length, items of the list, operator nesting; long inputs
are judged by a second reference, the position automaton of gen/rx.py)."""
import os
import sys

sys.path.insert(0, os.path.dirname(os.path.dirname(os.path.abspath(__file__))))
import common
from gen import rx
from gen import srcdict
import engine_real
import obj_streams

ID = "C13"
TRUSTED = [
    "correspondence harness harness/props/C13.py + gen/rx.py (generator quality bounds what it sees)",
    "modelled, not verified: Python set/dict semantics (iteration order is a model parameter `ord`), object identity of State (modelled by ids)",
]
ASSUMPTIONS = [
    "atoms are Identity predicates over distinct items (pairwise disjoint predicates, as the property requires)",
]
OPS = ("match", "sw", "nfa")
REGRESS = [  # minimised past failures: run first
    (("s", ("o", ("a", 1))), [1]),          # F1: epsilon cycle -> RecursionError
    (("p", ("o", ("a", 1))), [1, 1]),
    (("s", ("s", ("a", 1))), [1]),
    (("u", ("c", ("a", 1), ("a", 2)), ("a", 1)), [1, 2]),
]


def cases(ctx):
    size = ctx.pick(3, 5)
    wl = 4
    out = list(REGRESS)
    alphabet = (1, 2, 3, 4)
    ws = list(rx.words(alphabet, wl))
    for r in rx.up_to(size):
        for w in ws:
            out.append((r, w))
    rnd = ctx.rng("random")
    for _ in range(ctx.pick(1500, 20000)):
        r = rx.random_rx(rnd, rnd.randint(4, 9))
        n = rnd.randint(0, 8)
        w = [rnd.choice(alphabet) for _ in range(n)]
        if rnd.random() < 0.6:   # bias towards words of the language: walk derivatives
            w = biased_word(rnd, r, n)
        out.append((r, w))
    return out, "all ASTs of size <= %d over atoms a,b,c x all words of length <= %d over a,b,c,x (exhaustive) + random ASTs of size 4..9 with words biased towards the language" % (size, wl)


def biased_word(rnd, r, n):
    w = []
    cur = r
    for _ in range(n):
        good = [x for x in (1, 2, 3) if rx.deriv(cur, x) != rx.EMPTY]
        x = rnd.choice(good) if good and rnd.random() < 0.9 else rnd.choice((1, 2, 3, 4))
        w.append(x)
        cur = rx.deriv(cur, x)
        if cur == rx.EMPTY:
            break
    return w


_POSREF = {}


def ref(r, w):
    """-> (in_lang, shortest_prefix) by derivatives; by the position automaton for long inputs"""
    if len(w) <= 40 and rx.node_count(r) <= 40:
        return rx.in_lang(r, w), rx.shortest_prefix(r, w)
    if r not in _POSREF:
        if len(_POSREF) > 64:
            _POSREF.clear()
        _POSREF[r] = rx.PosRef(r)
    return _POSREF[r].in_lang(w), _POSREF[r].shortest_prefix(w)


def oracle(op, r, w, reply):
    """does the real engine's reply satisfy the property on this input?"""
    if reply.startswith("err"):
        return False
    if len(w) > 40 or rx.node_count(r) > 40:
        inl, sp = ref(r, w)
        if op == "match":
            return reply == ("ok %d" % len(w) if inl else "ok none")
        if op == "nfa":
            return (reply == "ok T") == inl
        if op == "sw":
            return reply == ("ok none" if sp is None else "ok %d" % sp)
        return True
    if op == "match":
        return (reply != "ok none") == rx.in_lang(r, w) and (reply == "ok none" or reply == "ok %d" % len(w))
    if op == "nfa":
        return (reply == "ok T") == rx.in_lang(r, w)
    if op == "sw":
        k = rx.shortest_prefix(r, w)
        return reply == ("ok none" if k is None else "ok %d" % k)
    return True


def bad_of(op, r, w, reply):
    if oracle(op, r, w, reply):
        return []
    inl, sp = ref(r, w)
    return [("semantics", "reference semantics: in_lang=%s shortest_prefix=%s" % (inl, sp))]


def object_histories(ctx):
    """the pattern as a Python OBJECT (see obj_streams): sessions with shared operator objects and repeated
    calls, alphabets of words / tuples with bare operands, in-place edits between calls, size ladders"""
    rnd = ctx.rng("objects")
    ws = list(rx.words((1, 2, 3), 3))
    hs = obj_streams.sessions(rx.up_to(ctx.pick(4, 5)), ws, OPS, rnd)
    hs += obj_streams.variants(rx.up_to(ctx.pick(3, 4)), ws, OPS)
    hs += obj_streams.edits(rnd, ctx.pick(400, 6000), OPS)
    hs += obj_streams.ladders(rnd, OPS, lengths=ctx.pick((100, 1000, 10000), (100, 1000, 10000, 100000, 1000000)),
                              widths=ctx.pick((10, 100, 1000), (10, 100, 1000, 10000)), depths=(10, 30, 100),
                              per_rung=ctx.pick(3, 6))
    ks, bl_rule = blowup_rungs(ctx)
    hs += blowup_histories(rnd, ks, ctx.pick(2, 4))
    mh, mx_rule = mixed_histories(ctx)
    hs += mh
    rule = ("OBJECT streams (real engine against the reference semantics of the tree): sessions = all trees of size <= %d x all words of length <= 3, "
            "one process per 30 patterns with structurally equal operator sub-trees being one Python object within and across patterns, in "
            "enumeration order and shuffled, every call repeated on the same objects; variants = all trees of size <= %d over the alphabets %s "
            "with one-item operands written bare and as lists; edits = %d random histories of 2-4 patterns on ONE list object edited in place "
            "(slice / pop+append / pop(0)+insert / clear+extend), random alphabet / spelling / sharing; ladders = sequence length %s, items in "
            "the pattern list %s, operator nesting 10, 30, 100 (deeper: Python recursion in the engine's construction)"
            % (ctx.pick(4, 5), ctx.pick(3, 4), ", ".join(rx.ALPHABETS), ctx.pick(400, 6000), ctx.pick("10^2..10^4", "10^2..10^6"), ctx.pick("10..10^3", "10..10^4")) + "; " + bl_rule + "; " + mx_rule)
    return hs, rule


def mixed_histories(ctx):
    """alphabet-WIDTH ladder over MIXED alphabets (gen/rx.py `mixed/<n>/<seed>/<pct>`): n pairwise disjoint atoms, pct % of them
    user-defined Predicate objects (integer interval / string prefix / tuple tag) and the others plain values; patterns = small
    random trees with leaves replaced by unions of m atoms (m = the rung); sequences walk the position automaton (reference),
    are cut before the end, get a foreign item, and every call runs twice on the same objects"""
    rnd = ctx.rng("mixed")
    base = ctx.pick((2, 3, 4, 5, 6, 8, 12, 16, 32, 64, 128), (2, 3, 4, 5, 6, 7, 8, 9, 10, 12, 16, 24, 32, 64, 128, 256, 512, 1000, 3000))
    top = ctx.pick(300, 3000)
    novel = sorted(set(srcdict.novel_rungs(2, top)) - set(base))[:24]
    per = ctx.pick(8, 24)
    hs = []
    for m in sorted(set(base) | set(novel)):
        for i in range(per if m <= 16 else max(2, per // 2) if m <= 32 else 2):
            n = m + rnd.choice((0, 1, 3))
            alphabet = "mixed/%d/%d/%d" % (n, rnd.randrange(10 ** 6), (15, 50, 0, 100, 15, 50, 30, 5)[i % 8])
            r = rx.wide_rx(rnd, n, m, flat=m > 16)
            P = rx.PosRef(r)
            ws = []
            for _ in range(4 if m <= 32 else 1):
                w = rx.walk_word(rnd, P, rnd.randint(1, 7), n + 1, noise=0.1)
                ws += [w, w[:-1], w + [rnd.randint(1, n + 1)]]
            seen, uniq = set(), []
            for w in ws:
                if tuple(w) not in seen:
                    seen.add(tuple(w))
                    uniq.append(w)
            hs.append({"kind": "ladder/alphabet", "rung": m, "alphabet": alphabet, "spelling": rnd.choice(rx.SPELLINGS), "sharing": rnd.choice(("none", "pattern")), "heavy": m >= 32,
                       "steps": [{"ast": r, "how": "new", "calls": obj_streams.two_pass([[op, w] for w in uniq for op in OPS])}]})
    return hs, ("alphabet width = mixed alphabets of m..m+3 pairwise disjoint atoms for m = %s%s, 0/5/15/30/50/100 %% of them user-defined Predicate objects (integer "
                "interval, string prefix, tuple tag) and the others plain strings / integers / tuples, %d patterns per rung (half of it at 32, 2 beyond; no repetition operators beyond 16: the engine's subset construction takes seconds there): small random "
                "trees whose leaves are unions of m atoms (left-nested or balanced), sequences walking the position automaton, cut, extended "
                "and with a foreign item, every call twice" % ("/".join(map(str, base)), " (source-literal rungs: %s)" % novel if novel else "", per))


def blowup_rungs(ctx):
    """k ladder for the families of gen/rx.py `blowup` (about 2^(k+1) DFA states): a geometric ladder of the number of
    DFA states (factor 4) plus, for every integer n the current source has and the pinned tree has not, the k around
    log2 n (a state-count limit introduced by a change becomes a rung)"""
    base = ctx.pick((1, 2, 4, 6, 8, 10), (1, 2, 3, 4, 5, 6, 7, 8, 9, 10, 11, 12, 13))
    top = ctx.pick(11, 13)      # k = 13: about 2 s per call (the runner gives a call 20 s)
    novel = set()
    for n in srcdict.novel_ints():
        if 8 <= n <= 2 ** (top + 1):
            lg = n.bit_length() - 1          # 2^lg <= n
            novel.update(k for k in (lg - 2, lg - 1, lg, lg + 1) if 1 <= k <= top)
    ks = sorted(set(base) | novel)
    return ks, ("blow-up = the families %s of gen/rx.py (exponential subset construction, about 2^(k+1) DFA states from about 4k nodes) for k = %s%s, "
                "sequences over the two letters of length k+1..2k+3 and each of them cut at the reference's shortest matching prefix (the whole "
                "sequence is the prefix), one item before it and with a foreign item after it; reference: position automaton"
                % (", ".join(rx.BLOWUP_FAMILIES), "/".join(map(str, ks)), " (source-literal rungs: %s)" % sorted(novel) if novel else ""))


def blowup_histories(rnd, ks, n):
    hs = []
    for k in ks:
        for fam in rx.BLOWUP_FAMILIES:
            r, ws = rx.blowup_words(rnd, fam, k, n if k <= 10 else 1)      # a call costs about 0.1 s * 2^(k-9) (subset construction per call)
            hs.append({"kind": "ladder/blowup", "rung": k, "alphabet": "letters", "spelling": "list", "sharing": "none", "heavy": k >= 8,
                       "steps": [{"ast": r, "how": "new", "calls": [[op, w] for w in ws for op in OPS]}]})
    return hs


def run_objects(ctx):
    hs, rule = object_histories(ctx)
    replies = engine_real.run_histories(hs)
    dist = {}
    evals = 0
    nontrivial = set()
    for h, rs in zip(hs, replies):
        key = h["kind"] + ("/%s" % h["rung"] if "rung" in h else "")
        n = sum(len(x) for x in rs)
        dist[key] = dist.get(key, 0) + n
        evals += n
        for st, rr in zip(h["steps"], rs):
            for (op, w), rep in zip(st["calls"], rr):
                if rep not in ("ok none", "ok F") and not rep.startswith("err"):
                    nontrivial.add((h["kind"], h["alphabet"], h["spelling"], op, rx.ser(engine_real._tup(st["ast"])) if rx.node_count(engine_real._tup(st["ast"])) < 40 else id(st), tuple(w) if len(w) < 40 else len(w)))
    fails = []
    seen = set()
    for (hi, i, j, rep, kind, detail) in obj_streams.judge(hs, replies, bad_of):
        if (hi, i) in seen or len(fails) >= 12:
            continue
        seen.add((hi, i))
        small = obj_streams.shrink(hs[hi], i, j, bad_of) if len(fails) < 4 else None
        h = small or dict(hs[hi], steps=hs[hi]["steps"][:i + 1])
        fails.append({"input": {"stream": "objects", "history": h, "program": obj_streams.describe(h) if small else None,
                                "reproducible_alone": small is not None},
                      "observed": rep, "required": detail})
    fails.sort(key=lambda f: len(str(f["input"]["history"])))
    return evals, nontrivial, dist, fails, rule


def correspond(ctx):
    cs, rule = cases(ctx)
    reqs, flat = [], []
    for (r, w) in cs:
        for op in OPS:
            reqs.append("%s 1 %s %d %s" % (op, rx.ser(r), len(w), " ".join(map(str, w))))
            flat.append((op, r, w))
    model = common.run_driver_sharded(reqs)
    impl = engine_real.real_engine_many(flat)
    dis, fails, nontrivial = [], [], set()
    dist = {"ops": {}, "positive": 0, "errors": 0, "word_len": {}, "rx_size": {}}
    for (op, r, w), m, i in zip(flat, model, impl):
        inp = {"op": op, "rx": rx.show(r), "ast": r, "word": w}
        if m != i:
            dis.append({"stream": "engine/" + op, "input": inp, "model": m, "impl": i})
        if not oracle(op, r, w, i):
            fails.append({"input": inp, "observed": i, "required": "reference semantics: in_lang=%s shortest_prefix=%s" % (rx.in_lang(r, w), rx.shortest_prefix(r, w))})
        if i not in ("ok none", "ok F") and not i.startswith("err"):
            nontrivial.add((op, rx.ser(r), tuple(w)))
            dist["positive"] += 1
        if i.startswith("err"):
            dist["errors"] += 1
        dist["ops"][op] = dist["ops"].get(op, 0) + 1
        dist["word_len"][len(w)] = dist["word_len"].get(len(w), 0) + 1
    ev2, nt2, dist2, fails2, rule2 = run_objects(ctx)
    dist["objects"] = dist2
    fails = fails[:40] + fails2
    return {
        "evaluations": len(flat) + ev2, "distinct_nontrivial": len(nontrivial) + len(nt2),
        "rule": rule + "; x {match, starts_with, nfa_match}; non-trivial = distinct (op, pattern, word) where the real engine reports a match; " + rule2,
        "samples": [{"op": op, "pattern": rx.show(r), "word": w, "model": m, "impl": i} for (op, r, w), m, i in list(zip(flat, model, impl))[5000:5004] + list(zip(flat, model, impl))[-3:]],
        "exhaustive": True, "distribution": dist,
        "disagreements": dis[:50], "oracle_failures": fails[:50],
    }


def search(ctx, hints):
    """failing-input search on the real code with the reference semantics as oracle"""
    fails = []
    rnd = ctx.rng("search")
    cs = []
    for h in hints or []:
        if h:
            cs.append((h["op"], tuple_ast(h["ast"]), h["word"]))
    for r in rx.up_to(4):
        for w in rx.words((1, 2, 3, 4), 4):
            for op in OPS:
                cs.append((op, r, w))
    for _ in range(20000):
        r = rx.random_rx(rnd, rnd.randint(3, 10))
        w = biased_word(rnd, r, rnd.randint(0, 9))
        cs.append((rnd.choice(OPS), r, w))
    impl = engine_real.real_engine_many(cs)
    for (op, r, w), i in zip(cs, impl):
        if not oracle(op, r, w, i):
            fails.append({"input": {"op": op, "rx": rx.show(r), "ast": r, "word": w}, "observed": i,
                          "required": "in_lang=%s shortest_prefix=%s" % (rx.in_lang(r, w), rx.shortest_prefix(r, w))})
            if len(fails) >= 5:
                break
    fails.sort(key=lambda f: (len(rx.ser(tuple_ast(f["input"]["ast"]))), len(f["input"]["word"])))
    return fails


def tuple_ast(a):
    return tuple(tuple_ast(x) if isinstance(x, (list, tuple)) else x for x in a)


def replay(payload):
    inp = payload["input"]
    if inp.get("stream") == "objects":
        h = inp["history"]
        print("\n".join(obj_streams.describe(h)))
        rs = engine_real.run_history(h)
        bad = obj_streams.judge([h], [rs], bad_of)
        for (_, i, j, rep, kind, detail) in bad[:5]:
            print("step %d call %d %s -> %s; %s" % (i, j, h["steps"][i]["calls"][j], rep, detail))
        return not bad
    r = tuple_ast(inp["ast"])
    i = engine_real.real_engine(inp["op"], r, inp["word"])
    print("pattern %s word %s -> %s" % (rx.show(r), inp["word"], i))
    return oracle(inp["op"], r, inp["word"], i)
