"""C13 - the pattern engine implements regular-expression semantics.

Tie: correspondence between Model/Regex.lean + Model/Pattern.lean (driver ops match/sw/nfa)
and codelimit.common.gsm.matcher on the same (pattern, word) pairs.
Oracle (only decides when something is broken): reference semantics by derivatives."""
import os
import sys

sys.path.insert(0, os.path.dirname(os.path.dirname(os.path.abspath(__file__))))
import common
from gen import rx
import engine_real

ID = "C13"
TRUSTED = [
    "correspondence harness harness/props/C13.py + gen/rx.py (generator quality bounds what it sees)",
    "modelled, not verified: Python set/dict semantics (iteration order is a model parameter `ord`), object identity of State (modelled by ids)",
]
ASSUMPTIONS = [
    "atoms are Identity predicates over distinct items (pairwise disjoint predicates, as the property requires)",
]
OPS = ("match", "sw", "nfa")
REGRESS = [  # minimised past failures: run first
    (("s", ("o", ("a", 1))), [1]),          # F1: epsilon cycle -> RecursionError
    (("p", ("o", ("a", 1))), [1, 1]),
    (("s", ("s", ("a", 1))), [1]),
    (("u", ("c", ("a", 1), ("a", 2)), ("a", 1)), [1, 2]),
]


def cases(ctx):
    size = ctx.pick(3, 5)
    wl = 4
    out = list(REGRESS)
    alphabet = (1, 2, 3, 4)
    ws = list(rx.words(alphabet, wl))
    for r in rx.up_to(size):
        for w in ws:
            out.append((r, w))
    rnd = ctx.rng("random")
    for _ in range(ctx.pick(1500, 20000)):
        r = rx.random_rx(rnd, rnd.randint(4, 9))
        n = rnd.randint(0, 8)
        w = [rnd.choice(alphabet) for _ in range(n)]
        if rnd.random() < 0.6:   # bias towards words of the language: walk derivatives
            w = biased_word(rnd, r, n)
        out.append((r, w))
    return out, "all ASTs of size <= %d over atoms a,b,c x all words of length <= %d over a,b,c,x (exhaustive) + random ASTs of size 4..9 with words biased towards the language" % (size, wl)


def biased_word(rnd, r, n):
    w = []
    cur = r
    for _ in range(n):
        good = [x for x in (1, 2, 3) if rx.deriv(cur, x) != rx.EMPTY]
        x = rnd.choice(good) if good and rnd.random() < 0.9 else rnd.choice((1, 2, 3, 4))
        w.append(x)
        cur = rx.deriv(cur, x)
        if cur == rx.EMPTY:
            break
    return w


def oracle(op, r, w, reply):
    """does the real engine's reply satisfy the property on this input?"""
    if reply.startswith("err"):
        return False
    if op == "match":
        return (reply != "ok none") == rx.in_lang(r, w) and (reply == "ok none" or reply == "ok %d" % len(w))
    if op == "nfa":
        return (reply == "ok T") == rx.in_lang(r, w)
    if op == "sw":
        k = rx.shortest_prefix(r, w)
        return reply == ("ok none" if k is None else "ok %d" % k)
    return True


def correspond(ctx):
    cs, rule = cases(ctx)
    reqs, flat = [], []
    for (r, w) in cs:
        for op in OPS:
            reqs.append("%s 1 %s %d %s" % (op, rx.ser(r), len(w), " ".join(map(str, w))))
            flat.append((op, r, w))
    model = common.run_driver_sharded(reqs)
    impl = engine_real.real_engine_many(flat)
    dis, fails, nontrivial = [], [], set()
    dist = {"ops": {}, "positive": 0, "errors": 0, "word_len": {}, "rx_size": {}}
    for (op, r, w), m, i in zip(flat, model, impl):
        inp = {"op": op, "rx": rx.show(r), "ast": r, "word": w}
        if m != i:
            dis.append({"stream": "engine/" + op, "input": inp, "model": m, "impl": i})
        if not oracle(op, r, w, i):
            fails.append({"input": inp, "observed": i, "required": "reference semantics: in_lang=%s shortest_prefix=%s" % (rx.in_lang(r, w), rx.shortest_prefix(r, w))})
        if i not in ("ok none", "ok F") and not i.startswith("err"):
            nontrivial.add((op, rx.ser(r), tuple(w)))
            dist["positive"] += 1
        if i.startswith("err"):
            dist["errors"] += 1
        dist["ops"][op] = dist["ops"].get(op, 0) + 1
        dist["word_len"][len(w)] = dist["word_len"].get(len(w), 0) + 1
    return {
        "evaluations": len(flat), "distinct_nontrivial": len(nontrivial),
        "rule": rule + "; x {match, starts_with, nfa_match}; non-trivial = distinct (op, pattern, word) where the real engine reports a match",
        "samples": [{"op": op, "pattern": rx.show(r), "word": w, "model": m, "impl": i} for (op, r, w), m, i in list(zip(flat, model, impl))[5000:5004] + list(zip(flat, model, impl))[-3:]],
        "exhaustive": True, "distribution": dist,
        "disagreements": dis[:50], "oracle_failures": fails[:50],
    }


def search(ctx, hints):
    """failing-input search on the real code with the reference semantics as oracle"""
    fails = []
    rnd = ctx.rng("search")
    cs = []
    for h in hints or []:
        if h:
            cs.append((h["op"], tuple_ast(h["ast"]), h["word"]))
    for r in rx.up_to(4):
        for w in rx.words((1, 2, 3, 4), 4):
            for op in OPS:
                cs.append((op, r, w))
    for _ in range(20000):
        r = rx.random_rx(rnd, rnd.randint(3, 10))
        w = biased_word(rnd, r, rnd.randint(0, 9))
        cs.append((rnd.choice(OPS), r, w))
    impl = engine_real.real_engine_many(cs)
    for (op, r, w), i in zip(cs, impl):
        if not oracle(op, r, w, i):
            fails.append({"input": {"op": op, "rx": rx.show(r), "ast": r, "word": w}, "observed": i,
                          "required": "in_lang=%s shortest_prefix=%s" % (rx.in_lang(r, w), rx.shortest_prefix(r, w))})
            if len(fails) >= 5:
                break
    fails.sort(key=lambda f: (len(rx.ser(tuple_ast(f["input"]["ast"]))), len(f["input"]["word"])))
    return fails


def tuple_ast(a):
    return tuple(tuple_ast(x) if isinstance(x, (list, tuple)) else x for x in a)


def replay(payload):
    inp = payload["input"]
    r = tuple_ast(inp["ast"])
    i = engine_real.real_engine(inp["op"], r, inp["word"])
    print("pattern %s word %s -> %s" % (rx.show(r), inp["word"], i))
    return oracle(inp["op"], r, inp["word"], i)
