"""C17 - the suppression marker removes exactly the marked function.

Theorems: Props/C17.lean (marker recognition, exactly the marked scopes are dropped,
independence of unrelated functions under fold). Tie: model vs real on marked programs and on
comment texts (driver op `nocl`). Oracle (metamorphic, on the real code): marking a subset of
the independent functions of a canonical program removes exactly those and leaves every other
measurement identical; decoy comments change nothing."""
import os
import sys

sys.path.insert(0, os.path.dirname(os.path.dirname(os.path.abspath(__file__))))
import common
import scan_real as sr
import scan_streams
from gen import programs
from props import C15

ID = "C17"
TRUSTED = [
    "correspondence harness (harness/props/C17.py) and the canonical program generator (harness/gen/programs.py)",
    "translator/patterns.py (shipped header patterns -> Gen/Languages.lean)",
    "modelled, not verified: str.lower()/str.strip() on comment texts are modelled on code points (ASCII lowering, the 29 Unicode blanks); checked on generated comment texts incl. non-ASCII",
]
ASSUMPTIONS = ["a marker comment sits on the line of the function's name when it STARTS there (single-line comments, and block comments closed on a later line)"]
regen = C15.regen

MARK = {"Python": ["# nocl", "#nocl", "# NOCL", "#  NoCl because", "#\tnocl", "# \xa0nocl"],
        "brace": ["// nocl", "//nocl", "/* nocl */", "/*NOCL*/", "// NoCl: why", "//\tNOCL", "/*  nocl */"]}
DECOY = {"Python": ["# not nocl", "# x nocl", "#!nocl", "# n ocl", "# no-cl"],
         "brace": ["// not nocl", "// x nocl", "/* see nocl */", "// n ocl", "/// nocl", "/** nocl */"]}
TEXTS = ["#nocl", "# nocl", "#  NOCL x", ";nocl", "; NoCl", "//nocl", "// nocl", "/*nocl*/", "/* nocl */", "nocl", "NOCL", " nocl", "# //nocl", "#;nocl",
         "/ nocl", "// no cl", "#", "", "//", "/*", "# nocl", "// NoCl", "#​nocl", "# nocl\n", "//\tnocl", "/* \n nocl */", "#nOcL", "# ɴocl", "#İnocl", "// NOCLx"]


_pools = {}


def dictionary_pools(fam):
    """(markers, decoys) built from the string literals of the code under check (harness/gen/srcdict.py; literals that are
    new in the source first, then a sample of the others): each word w gives the comment bodies w, `nocl w`, `nocl-w`,
    `nocl:w`, `NOCL=w`, `w nocl` in every comment style of the family; the property's reading (`spec_is_nocl`: the text
    behind the leader begins with the marker, whatever follows) sorts each comment into markers or decoys"""
    if fam not in _pools:
        from gen import srcdict
        novel = [w for w in srcdict.words(novel_only=True) if w.strip()]
        for rx in srcdict.novel_regexes():
            import re
            novel += re.findall(r"[A-Za-z][A-Za-z-]{2,}", rx)
        rnd = common.rng("c17dict", fam)
        allw = [w for w in srcdict.words() if w.strip() and w.isprintable()]
        words = novel[:40] + rnd.sample(allw, min(len(allw), 12))
        marks, decoys = [], []
        for w in words:
            w = w.replace("*/", " ").strip()
            for body in (w, "nocl " + w, "nocl-" + w, "nocl:" + w, "NOCL=" + w, "NoCl" + w, w + " nocl", w.upper()):
                styles = ["# %s", "#%s", "#\t%s"] if fam == "Python" else ["// %s", "//%s", "/* %s */", "/*%s*/", "//\t%s"]
                text = rnd.choice(styles) % body
                (marks if spec_is_nocl(text) else decoys).append(text)
        _pools[fam] = (marks, decoys, len(novel))
    return _pools[fam]


def mark_text(fam, rnd):
    marks, _, novel = dictionary_pools(fam)
    if marks and rnd.random() < (0.5 if novel else 0.2):
        return rnd.choice(marks)
    return rnd.choice(MARK[fam])


def decoy_text(fam, rnd):
    _, decoys, novel = dictionary_pools(fam)
    if decoys and rnd.random() < (0.5 if novel else 0.2):
        return rnd.choice(decoys)
    return rnd.choice(DECOY[fam])


def independent(o):
    """functions that neither enclose nor are nested in another function, with a free name line"""
    has_child = {f.parent for f in o.funcs if f.parent is not None}
    out = []
    for f in o.funcs:
        if f.parent is None and f.id not in has_child and f.markable:
            segs = o.lines[f.markable - 1]
            if any((not code) and text.strip() for (text, owner, code) in segs):
                continue   # the line already carries a trailing comment
            out.append(f)
    return out


# white space between the code of the name line and the comment: blanks, tab, and the characters at which
# str.splitlines() (but not the property, which counts "\n" only) would break the line - every shipped lexer classifies
# them as white space (checked per variant on the lexer's raw stream, see `blank_for_lexer`)
GAPS = ["  ", "  ", "  ", " ", "\t", " \x0c", "\x0b", "\x1c ", "\x1d", " \x1e", "\x85", "\u2028", " \u2029 ", "\xa0", "\u3000 "]


def spacing_rungs(ctx):
    """ladder for every "run of blanks" dimension (behind the comment leader, between code and comment, in front of the
    closing `*/`, in front of a comment-only line): geometric rungs plus n-1, n, n+1, 2n for every integer literal that
    is new in the source under check"""
    from gen import srcdict
    base = ctx.pick([0, 1, 2, 3, 4, 8, 10, 16, 32, 100, 1000], [0, 1, 2, 3, 4, 8, 10, 16, 32, 100, 1000, 10 ** 4, 10 ** 5])
    return sorted(set(base) | set(srcdict.novel_rungs(1, ctx.pick(5000, 200000))))


def blank_run(n, rnd):
    """n blanks: spaces, tabs or a mixture"""
    kind = rnd.choice(["space", "space", "tab", "mixed"])
    if kind == "space":
        return " " * n
    if kind == "tab":
        return "\t" * n
    return "".join(rnd.choice(" \t") for _ in range(n))


def stretch(text, n, rnd, tail=None):
    """the comment `text` with the run of blanks behind its leader replaced by a run of n blanks (and, for a closed
    block comment, the run in front of `*/` by a run of `tail` blanks); its reading under the property is unchanged"""
    for lead in ("//", "/*", "#", ";"):
        if text.startswith(lead):
            out = lead + blank_run(n, rnd) + text[len(lead):].lstrip(" \t")
            if tail is not None and lead == "/*" and out.endswith("*/") and len(out) > 4 + n:
                out = out[:-2].rstrip(" \t") + blank_run(tail, rnd) + "*/"
            assert spec_is_nocl(out) == spec_is_nocl(text), (text, out)
            return out
    return text


# marker comments that start on the name line and are closed on a later line (%s: the marker word or, in the
# same-layout original, another word); the last one opens with a line break (blanks in the sense of str.strip)
MULTILINE = ["/* %s - trivial accessor,\n       kept for compatibility */", "/* %s\n */", "/*%s: generated\n * do not edit\n */", "/*\t%s because\n\n*/",
             "/* %s */ /* and\n more */", "/*\n   %s */"]


def with_comments(o, marks, gaps=None, inline=None):
    """text of the program with `<gap><comment>` appended to the given (1-based) lines (gap: two blanks unless `gaps`
    names another one for the line); `inline`: {line: (index, character)} - one blank of that line replaced"""
    lines = ["".join(seg[0] for seg in ln) for ln in o.lines]
    for ln, (i, ch) in (inline or {}).items():
        lines[ln - 1] = lines[ln - 1][:i] + ch + lines[ln - 1][i + 1:]
    for ln, text in marks.items():
        lines[ln - 1] = lines[ln - 1].rstrip(" \t") + (gaps or {}).get(ln, "  ") + text
    return "\n".join(lines) + "\n"


def inline_separators(o, lang, funcs, rnd, share=0.35):
    """for a share of the functions: one blank of the name line BEHIND the start of the header replaced by a separator
    character / exotic blank (between the tokens of the signature or inside a string literal of it). Kept only if the
    real lexer's raw stream shows the character inside a white-space or string token (independent of Code Limit)."""
    from pygments.token import String
    out = {}
    for f in funcs:
        if rnd.random() >= share:
            continue
        line = "".join(seg[0] for seg in o.lines[f.markable - 1]).rstrip(" \t")
        spots = [i for i, c in enumerate(line) if c == " " and i >= f.start[1]]
        if spots:
            out[f.markable] = (rnd.choice(spots), rnd.choice(scan_streams.SEPARATORS + scan_streams.SEPARATORS + scan_streams.BLANKS))
    if not out:
        return out
    text = with_comments(o, {}, None, out)
    starts = [0]
    for ln in text.split("\n")[:-1]:
        starts.append(starts[-1] + len(ln) + 1)
    raw, bad = sr.raw_tokens(lang, text)
    offs = [off for (off, _, _) in raw]
    from bisect import bisect_right
    for ln, (i, ch) in list(out.items()):
        k = bisect_right(offs, starts[ln - 1] + i) - 1
        (off, tt, val) = raw[k]
        if bad or not ((sr.kind_of(tt) == 6 and val.isspace()) or tt in String):
            del out[ln]
    return out


def variants(ctx):
    rnd = ctx.rng("mark")
    import itertools
    _turn = itertools.count(rnd.randrange(100))
    out = []   # (lang, original text, variant text, removed names+starts, kind)
    for (lang, _text, o) in scan_streams.canonical(ctx, ctx.pick(120, 2500), "c17", stubs=True):
        orig = with_comments(o, {})
        ind = independent(o)
        if not ind:
            continue
        fam = "Python" if lang == "Python" else "brace"
        for rnd_i in range(ctx.pick(2, 4)):
            k = rnd.randint(1, len(ind))
            chosen = rnd.sample(ind, k)
            marks = {f.markable: mark_text(fam, rnd) for f in chosen}
            removed = {(f.name, f.start[0], f.start[1]) for f in chosen}
            if rnd_i % 2 == 0:
                out.append((lang, orig, with_comments(o, marks), removed, "mark"))
                continue
            # every second marking with other white space in front of the comment and, for a share of the functions, a
            # separator character between the tokens (or inside a string literal) of the name line (in the original too)
            gaps = {f.markable: rnd.choice(GAPS) for f in chosen}
            inline = inline_separators(o, lang, chosen, rnd)
            out.append((lang, with_comments(o, {}, None, inline), with_comments(o, marks, gaps, inline), removed, "mark-separators"))
        chosen = rnd.sample(ind, rnd.randint(1, len(ind)))
        out.append((lang, orig, with_comments(o, {f.markable: decoy_text(fam, rnd) for f in chosen}, {f.markable: rnd.choice(GAPS) for f in chosen}), set(), "decoy"))
        # spacing ladder: every run of blanks of a marker / decoy comment (behind the leader, in front of the comment,
        # in front of `*/`) at a rung of the ladder, the rungs taken in turn over programs and functions
        rungs = spacing_rungs(ctx)
        nxt = lambda: rungs[next(_turn) % len(rungs)]
        chosen = rnd.sample(ind, rnd.randint(1, len(ind)))
        marks = {f.markable: stretch(mark_text(fam, rnd), nxt(), rnd, rnd.choice(rungs)) for f in chosen}
        gaps = {f.markable: blank_run(rnd.choice(rungs[1:]), rnd) for f in chosen}
        out.append((lang, orig, with_comments(o, marks, gaps), {(f.name, f.start[0], f.start[1]) for f in chosen}, "mark-spacing"))
        chosen = rnd.sample(ind, rnd.randint(1, len(ind)))
        out.append((lang, orig, with_comments(o, {f.markable: stretch(decoy_text(fam, rnd), nxt(), rnd, rnd.choice(rungs)) for f in chosen},
                                              {f.markable: blank_run(rnd.choice(rungs[1:]), rnd) for f in chosen}), set(), "decoy-spacing"))
        # marker comments that span several lines: a block comment that starts on the name line and is closed on a
        # later line; compared with the same layout whose comment says another word instead of the marker
        if fam == "brace":
            chosen = rnd.sample(ind, rnd.randint(1, len(ind)))
            forms = {f.markable: (rnd.choice(MULTILINE), rnd.choice(["nocl", "NOCL", "NoCl", "nocl"]), nxt() if rnd.random() < 0.3 else None) for f in chosen}
            marked = {ln: (form % w if n is None else stretch(form % w, n, common.rng("c17ml", ln, n))) for ln, (form, w, n) in forms.items()}
            plain = {ln: (form % "note" if n is None else stretch(form % "note", n, common.rng("c17ml", ln, n))) for ln, (form, w, n) in forms.items()}
            extra = {ln: text.count("\n") for ln, text in marked.items()}
            sh = lambda l: l + sum(k for ln, k in extra.items() if ln < l)
            out.append((lang, with_comments(o, plain), with_comments(o, marked), {(f.name, sh(f.start[0]), f.start[1]) for f in chosen}, "mark-multiline"))
        # a REAL marker comment on a line that is not the name's line changes nothing: the other
        # lines of a multi-line header, the first body line, the closing line, a comment-only
        # line directly above or below the name line
        elsewhere = {}
        for f in o.funcs:
            cands = list(f.extra_lines)
            if f.end:
                cands.append(f.end[0])
            if f.markable and f.markable + 1 <= len(o.lines):
                cands.append(f.markable + 1)
            name_lines = {g.markable for g in o.funcs}
            for ln in cands:
                segs = o.lines[ln - 1]
                free = not any((not code) and text.strip() for (text, owner, code) in segs) and any(code for (_, _, code) in segs)
                if ln not in name_lines and free and rnd.random() < 0.5:
                    elsewhere[ln] = mark_text(fam, rnd)
        if elsewhere:
            out.append((lang, orig, with_comments(o, elsewhere), set(), "marker-elsewhere"))
        # comment-only marker lines inserted directly above name lines
        lines = orig.split("\n")
        ins = sorted({f.markable for f in rnd.sample(o.funcs, min(len(o.funcs), 3)) if f.markable}, reverse=True)
        if ins:
            v = list(lines)
            shift = {}
            for ln in ins:
                v.insert(ln - 1, " " * rnd.choice([0, 2, 4]) + mark_text(fam, rnd))
            out.append((lang, orig, "\n".join(v), ("shift", sorted(ins)), "marker-line-above"))
    return out


def _correspond_programs(ctx):
    vs = variants(ctx)
    uniq = list({(l, o) for (l, o, _, _, _) in vs})
    originals = dict(zip(uniq, sr.real_scan_many(uniq)))
    vr = sr.real_scan_many([(l, v) for (l, _, v, _, _) in vs])
    vm = sr.model_scan_many([sr.scan_request(l, v) for (l, _, v, _, _) in vs])
    dis, fails = [], []
    nontrivial = set()
    dist = {"mark": 0, "mark-separators": 0, "decoy": 0, "mark-spacing": 0, "decoy-spacing": 0, "mark-multiline": 0, "spacing_rungs": spacing_rungs(ctx), "marker-elsewhere": 0, "marker-line-above": 0, "functions_removed": 0,
            "separator_between_name_and_marker": sum(1 for (_, _, v, _, k) in vs if k == "mark-separators" and any(c in v for c in scan_streams.SEPARATORS))}
    for (lang, orig, v, removed, kind), r, m in zip(vs, vr, vm):
        inp = {"stream": "program", "language": lang, "original": orig, "variant": v, "removed": sorted(removed) if isinstance(removed, set) else list(removed)}
        if r != m:
            dis.append({"stream": "scan/%s" % lang, "input": inp, "model": m[:300], "impl": r[:300]})
        o = sr.decode_scan(originals[(lang, orig)]); d = sr.decode_scan(r)
        if o is None or d is None:
            fails.append({"input": inp, "observed": r[:200], "required": "no exception"}); continue
        if isinstance(removed, tuple) and removed and removed[0] == "shift":
            ins = removed[1]
            sh = lambda l: l + sum(1 for k in ins if k <= l)
            want = [(n, sh(sl), sc, sh(el), ec, ln) for (n, sl, sc, el, ec, ln) in o[0]]
            removed = set()
        else:
            want = [x for x in o[0] if (x[0], x[1], x[2]) not in removed]
        if len(want) != len(o[0]) - len(removed):
            fails.append({"input": inp, "observed": "generator/analysis mismatch on the original", "required": sorted(removed)}); continue
        if d[0] != want:
            fails.append({"input": inp, "observed": [x for x in d[0] if x not in want][:3], "required": [x for x in want if x not in d[0]][:3]})
        dist[kind] += 1
        dist["functions_removed"] += len(removed)
        if removed:
            nontrivial.add((lang, v))
    # marker recognition on comment texts
    rnd = ctx.rng("texts")
    texts = list(TEXTS)
    for _ in range(ctx.pick(300, 5000)):
        lead = rnd.choice(["#", ";", "//", "/*", "", "# ", "//  ", "/*\t", "#\xa0", "##", "/"])
        body = rnd.choice(["nocl", "NOCL", "NoCl", "nocl!", "no cl", "n0cl", "xnocl", "nocl x", "", " nocl", " nocl"])
        texts.append(lead + body + rnd.choice(["", " */", " trailing", "\n"]))
    for fam in ("Python", "brace"):
        marks, decoys, _ = dictionary_pools(fam)
        texts += marks + decoys
    # spacing ladder on comment texts: every leader x every rung x marker / non-marker bodies
    n0 = len(texts)
    for n in spacing_rungs(ctx):
        for lead in ("#", ";", "//", "/*"):
            for body in ("nocl", "NOCL: why", "NoCl", "x nocl", "no cl"):
                texts.append(lead + blank_run(n, rnd) + body + (blank_run(rnd.choice(spacing_rungs(ctx)), rnd) + "*/" if lead == "/*" else ""))
    dist["spacing_ladder_texts"] = len(texts) - n0
    dist["dictionary_marker_texts"] = sum(len(dictionary_pools(f)[0]) for f in ("Python", "brace"))
    dist["dictionary_decoy_texts"] = sum(len(dictionary_pools(f)[1]) for f in ("Python", "brace"))
    model = common.run_driver(["nocl %s" % sr.sstr(t) for t in texts])
    for t, m in zip(texts, model):
        i = "ok T" if real_is_nocl(t) else "ok F"
        if m != i:
            dis.append({"stream": "nocl-text", "input": {"stream": "text", "text": t}, "model": m, "impl": i})
        want = spec_is_nocl(t)
        if (i == "ok T") != want:
            fails.append({"input": {"stream": "text", "text": t}, "observed": i, "required": "marker recognised: %s" % want})
    return {
        "evaluations": len(vs) + len(texts), "distinct_nontrivial": len(nontrivial),
        "rule": "SPACING LADDER: every run of blanks of a marker / decoy comment (behind the comment leader, between code and comment, in front of `*/`; spaces, tabs, mixtures) at the rungs 0,1,2,3,4,8,10,16,32,100,1000 (thorough: up to 10^5) plus n-1,n,n+1,2n for every integer literal new in the source under check, on name lines of programs (mark-spacing / decoy-spacing) and through the marker recogniser; MULTI-LINE MARKERS: block comments that start on the name line and are closed on a later line (reason spread over lines, `*/` on its own line, a second comment behind a closed marker, marker behind a line break), compared with the same layout saying another word; marker and decoy texts also built from the string literals of the code under check (w, nocl w, nocl-w, nocl:w, NOCL=w, w nocl for literals new in the source and a sample of the others; sorted into markers / decoys by the property's reading), used on name lines, on other lines of the function, on comment-only lines above, and through the marker recogniser; canonical programs x random subsets of their independent functions marked on the name line, in every comment style / letter case / spacing of the marker (incl. tab, NBSP, EM SPACE after the leader); each marking also with other white space between code and comment (tab, NBSP, U+000B U+000C U+001C-E U+0085 U+2028 U+2029) and a separator character between the tokens or inside a string literal of the name line; plus decoy comments (marker word later in the text, doc-comment leaders); comment texts through the marker recogniser; non-trivial = distinct marked variants that remove at least one function",
        "samples": [{"language": l, "removed": sorted(rm), "variant_tail": v[-160:]} for (l, _, v, rm, k) in vs[:2]],
        "exhaustive": False, "distribution": dist,
        "disagreements": dis[:50], "oracle_failures": fails[:50],
    }


def real_is_nocl(text):
    from pygments.token import Comment
    from codelimit.common.Location import Location
    from codelimit.common.Token import Token
    from codelimit.common.source_utils import filter_nocl_comment_tokens
    return bool(filter_nocl_comment_tokens([Token(Location(1, 1), Comment.Single, text)]))


BLANKS = set(map(chr, [9, 10, 11, 12, 13, 28, 29, 30, 31, 32, 133, 160, 5760] + list(range(8192, 8203)) + [8232, 8233, 8239, 8287, 12288]))


def spec_is_nocl(text):
    """the property's reading: after the comment leader (#, ;, //, /*), blanks and letter case are
    removed, the text starts with nocl; without a leader nothing is stripped"""
    t = text
    if t[:1] in ("#", ";"):
        t = t[1:].lstrip("".join(BLANKS))
    elif t[:2] in ("//", "/*"):
        t = t[2:].lstrip("".join(BLANKS))
    return t[:4].lower() == "nocl" and len(t[:4].lower()) == 4 and all(ord(c) < 128 for c in t[:4])


def search(ctx, hints):
    r = correspond(ctx)
    fs = r["oracle_failures"]
    fs.sort(key=lambda f: len(str(f["input"])))
    return fs[:8]


def replay(payload):
    inp = payload["input"]
    if inp.get("stream") == "text":
        got = real_is_nocl(inp["text"])
        print("%r -> %s (spec %s)" % (inp["text"], got, spec_is_nocl(inp["text"])))
        return got == spec_is_nocl(inp["text"])
    o = sr.decode_scan(sr.real_scan(inp["language"], inp["original"]))
    d = sr.decode_scan(sr.real_scan(inp["language"], inp["variant"]))
    if inp["removed"] and inp["removed"][0] == "shift":
        ins = inp["removed"][1]
        sh = lambda l: l + sum(1 for k in ins if k <= l)
        removed = set()
        want = [(n, sh(sl), sc, sh(el), ec, ln) for (n, sl, sc, el, ec, ln) in o[0]] if o else None
    else:
        removed = {tuple(x) for x in inp["removed"]}
        want = [x for x in o[0] if (x[0], x[1], x[2]) not in removed] if o else None
    print("removed %s\noriginal %s\nvariant  %s" % (sorted(removed), o and o[0], d and d[0]))
    return o is not None and d is not None and d[0] == want


def correspond(ctx):
    """the program stream above PLUS forests of the Lean type `Prog PTok` decorated with comments and suppression
    markers (harness/mark_stream.py): the expectation is the MARKED tree report computed by the model driver
    (`Props/C01marks.lean`: comments anywhere are invisible, a function named on a marked line is dissolved into its
    tokens - the tree-level form of this property)"""
    import mark_stream
    res = _correspond_programs(ctx)
    mk = mark_stream.correspond(ctx.rng("marktrees-%s" % ID), ctx.pick(250, 3000))
    for key in ("lexer_mismatch", "generator_bug", "model_errors"):
        for x in mk.get(key, [])[:10]:
            res["disagreements"].append({"stream": "marktree/%s" % key, "input": x.get("input"),
                                         "model": str(x.get("forest") or x.get("why") or x.get("model"))[:300], "impl": str(x.get("real", ""))[:300]})
    res["oracle_failures"] = list(res["oracle_failures"]) + mk["oracle_failures"][:20]
    res["evaluations"] += mk["evaluations"]
    res["distinct_nontrivial"] += mk["distinct_nontrivial"]
    res["rule"] += " PLUS " + mk["rule"]
    res["distribution"] = dict(res.get("distribution", {}), marktrees=dict(mk["distribution"], **mk.get("counts", {})))
    return res
