"""C05 - every reported measurement is well-formed, for every input.

Tie: model `analyze` vs real lex + scan_file on the malformed stream, canonical programs and the
corpus. Oracle: the property stated directly on the real output and the text."""
import os
import sys
import tempfile

sys.path.insert(0, os.path.dirname(os.path.dirname(os.path.abspath(__file__))))
import common
import scan_real as sr
import scan_streams
from props import C15

ID = "C05"
SHRINKABLE = True     # replay() re-evaluates the oracle from the input alone
TRUSTED = [
    "correspondence harness (harness/props/C05.py, scan_real.py, scan_streams.py, file_front.py)",
    "translator/patterns.py (shipped header patterns -> Gen/Languages.lean)",
    "modelled, not verified: Pygments lexers (contract checked per input, see C16)",
]
ASSUMPTIONS = ["token positions strictly increasing and tokens non-empty (provided by C16 under the lexer contract)"]
import regen_all
regen = regen_all.patterns_and_logic
REGRESS = [("Python", 'def f():\n    """doc\n    more\n    """\n'),            # F13: multi-line last token
           ("Python", "def f():\n    x = '''a\nb'''\n"),
           ("JavaScript", "function f() {\n  return `a\nb`}\n"),
           ("Python", "def o():\n  def f():\n      def\n  g():\n    pass\n")]   # name outside the span


MODEL_CHARS = 10 ** 4      # longer single lines / bigger ladder programs: direct oracle only


def cases(ctx):
    out = list(REGRESS)
    canon = scan_streams.canonical(ctx, ctx.pick(40, 600), "c05")
    out += [(l, t) for (l, t, _) in canon]
    out += scan_streams.soups(ctx, ctx.pick(2000, 50000), "c05soup")
    out += scan_streams.corpus_cases()
    # configuration variants: canonical programs on ONE line without any newline, behind a byte order mark, both;
    # and the same for a share of every other text (there: newlines replaced by blanks)
    rnd = ctx.rng("c05variants")
    for (lang, text, o) in canon:
        one = scan_streams.one_line(o)
        for v in ([one, scan_streams.BOM + one] if one else []) + [scan_streams.BOM + text, scan_streams.BOM + text.rstrip("\n")]:
            if rnd.random() < ctx.pick(0.3, 0.5):
                out.append((lang, v))
    # member positions (harness/gen/programs.py): header-shaped members directly after `{`, `,`, `;`, `}` in every kind of
    # body of the brace languages, whole and cut at a random character
    from gen import programs
    for lang in sorted(programs.MEMBER_CONTAINERS):
        for _ in range(ctx.pick(4, 40)):
            text = programs.member_program(lang, rnd)
            out.append((lang, text))
            out.append((lang, text[:rnd.randrange(len(text))]))
    out += scan_streams.decorate(ctx, out, ctx.pick(0.06, 0.1), "c05decor")
    out += [(lang, text) for (lang, text, d) in long_cases(ctx) if d["chars"] <= MODEL_CHARS]
    return [(l, t) for (l, t) in out if "\r" not in t]


def long_cases(ctx):
    """single-line ladder 10^2 .. 10^6 characters (the shapes whose token count grows with the size: up to 10^5)"""
    if getattr(ctx, "_c05long", None) is None:
        light = scan_streams.rungs(100, 10 ** 4, True) + ctx.pick([10 ** 5, 10 ** 6], scan_streams.rungs(31623, 3162278))
        heavy = scan_streams.rungs(100, 10 ** 4, True) + ctx.pick([10 ** 5], scan_streams.rungs(31623, 316228))
        ctx._c05long = scan_streams.long_lines(ctx, light, heavy, per_rung=ctx.pick(2, 7), salt="c05long", full_upto=100)
    return ctx._c05long


def ladder_cases(ctx):
    """programs of 10^2 .. 10^4 lines (one function / many functions), whole and cut at a random character"""
    import random
    if getattr(ctx, "_c05ladder", None) is None:
        out = []
        for (lang, text, o, d) in scan_streams.ladder_programs(ctx, ctx.pick([1000], [316, 3162, 10 ** 4]), ctx.pick([1000], [316, 1000, 3162, 10 ** 4]),
                                                              "c05ladder", many_python=ctx.pick([1000], [316, 1000, 3162])):
            cut = random.Random(d["gen_seed"]).randrange(len(text) // 2, len(text))
            out.append(dict(d, cut=cut))
            out.append(d)
        ctx._c05ladder = out
    return ctx._c05ladder


def big_text(desc):
    if desc.get("stream") == "long-line":
        return scan_streams.long_text(desc)
    text = scan_streams.ladder_program(desc)[1]
    return text[:desc["cut"]] if "cut" in desc else text


def _big_work(desc):
    code = big_text(desc)
    r = sr.real_scan(desc["language"], code)
    return r[:300], oracle(desc["language"], code, r)


def big_jobs(ctx):
    jobs = [d for (_, _, d) in long_cases(ctx) if d["chars"] > MODEL_CHARS] + ladder_cases(ctx)
    jobs.sort(key=lambda d: -d.get("chars", 30 * d.get("lines", 0)))
    return jobs


def _chunk_work(chunk):
    out = []
    for (lang, code) in chunk:
        r = sr.real_scan(lang, code)
        out.append((r, oracle(lang, code, r)))
    return out


def big_failures(ctx, dist=None, started=None):
    """the upper rungs: real analysis + direct oracle, one input per worker process"""
    jobs = big_jobs(ctx)
    fails = []
    for d, (r, bad) in zip(jobs, (started or scan_streams.Heavy(_big_work, jobs)).results()):
        if dist is not None:
            key = "long_lines" if d["stream"] == "long-line" else "ladder_programs"
            size = str(d.get("chars", d.get("lines")))
            dist.setdefault(key, {})[size] = dist.setdefault(key, {}).get(size, 0) + 1
            if not r.startswith("ok 0 "):
                dist["with_functions"] += 1
        for b in bad[:1]:
            fails.append({"input": dict(d), "observed": r, "required": b})
    fails.sort(key=lambda f: f["input"].get("chars", f["input"].get("lines", 0)))
    for f in [f for f in fails if f["input"]["stream"] == "long-line"][:2]:
        d = f["input"]
        small = scan_streams.bisect_size(lambda k, d=d: bool(_big_work(dict(d, chars=k))[1]), 0, d["chars"])
        r, bad = _big_work(dict(d, chars=small))
        if bad:
            f.update({"input": dict(d, chars=small, found_at_chars=d["chars"]), "observed": r, "required": bad[0]})
    fails.sort(key=lambda f: f["input"].get("chars", f["input"].get("lines", 0)))
    return len(jobs), fails


# ---- file-size ladder through files ----------------------------------------------------------------------------------

def filesize_jobs(ctx):
    """files of 10^3 .. 10^5 (thorough: .. 3*10^6) characters plus n-1, n, n+1, 2n for every integer literal that is new
    in the source under check; contents: functions made of tokens that span several lines; every rung twice in Python (block ends derived from indentation) and in
    two other languages taken in turn; LF / CR LF line ends"""
    rnd = ctx.rng("c05filesize")
    out = []
    others = [l for l in sr.LANGS if l != "Python"]
    for k, n in enumerate(scan_streams.file_size_rungs(ctx)):
        for lang in ["Python", "Python", others[(2 * k) % len(others)], others[(2 * k + 1) % len(others)]]:
            out.append({"stream": "file-size", "language": lang, "chars": n, "gen_seed": rnd.randrange(10 ** 9), "newline": rnd.choice(["lf", "lf", "crlf"])})
    out.sort(key=lambda d: -d["chars"])
    return out


def _filesize_work(desc):
    """the file on disk -> Scanner.scan_path(root).files -> direct oracle on the text of the file"""
    import file_front as ff
    import random
    text = scan_streams.multiline_text(desc)
    lang = desc["language"]
    name = ff.pick_name(lang, random.Random(desc["gen_seed"]), "client", sr.EXT[lang], 0.3)
    with ff.Tree("c05size_") as tree:
        tree.write(os.path.join("gen", name), ff.to_bytes(text, desc.get("newline", "lf")))
        cb, err = tree.scan()
        if err:
            return "scan_path: " + err, ["scan_path completes"]
        e = ff.entries(cb).get(os.path.join("gen", name))
        if e is None:
            return "no entry for gen/%s" % name, ["the file's measurements are listed under the path of the file"]
        reply = ff.encode_reply(e[1])
        bad = oracle(lang, text, reply)
        if e[2] != sum(m[5] for m in e[1]):
            bad.append("file total %d != sum of lengths" % e[2])
        return "%d measurements, the failing one first: %s" % (len(e[1]), [m for m in e[1] if bad and ("%s@%d:%d" % (m[0], m[1], m[2])) in bad[0]][:1]), bad


def filesize_failures(ctx, dist, started=None):
    jobs = filesize_jobs(ctx)
    fails = []
    for d, (r, bad) in zip(jobs, (started or scan_streams.Heavy(_filesize_work, jobs, 6)).results()):
        dist.setdefault("file_size_ladder", {})[str(d["chars"])] = dist.setdefault("file_size_ladder", {}).get(str(d["chars"]), 0) + 1
        for b in bad[:1]:
            fails.append({"input": dict(d), "observed": r, "required": b})
    fails.sort(key=lambda f: f["input"]["chars"])
    for f in fails[:2]:
        # the smallest size at which the same generator still fails
        d = f["input"]
        small = scan_streams.bisect_size(lambda k, d=d: bool(_filesize_work(dict(d, chars=k))[1]), 1000, d["chars"], 12.0)
        r, bad = _filesize_work(dict(d, chars=small))
        if bad:
            f.update({"input": dict(d, chars=small, found_at_chars=d["chars"]), "observed": r, "required": bad[0]})
    return len(jobs), fails


def second_scan_probe(lang, code):
    """state probe: scan_file twice on the SAME token list and Language object; the first result is mutated in between
    (list emptied, measurements and their locations overwritten); then the whole pipeline once more from the text"""
    from codelimit.common.lexer_utils import lex
    from codelimit.common.Scanner import scan_file
    from codelimit.languages import Languages

    def snap(ms):
        return [(m.unit_name, m.start.line, m.start.column, m.end.line, m.end.column, m.value) for m in ms]
    try:
        toks = lex(sr.lexer_for(lang), code, False)
        before = [(t.location.line, t.location.column, t.value) for t in toks]
        first = scan_file(toks, Languages.by_name[lang])
        s1 = snap(first)
        for m in first:
            # NOTE: m.start IS the header token's Location object (scan_file passes it on), so writing to its fields
            # would edit the caller's token list; nothing in Code Limit assigns to a Location, and no property speaks
            # about callers doing so - the probe therefore rebinds `start` and edits only what the result owns
            try:
                m.end.line += 7; m.end.column = 0
            except AttributeError:
                pass
            m.start = m.end
            m.unit_name = "?"; m.value = -1
        del first[:]
        bad = []
        if [(t.location.line, t.location.column, t.value) for t in toks] != before:
            bad.append("scan_file changed the token list it was given")
        s2 = snap(scan_file(toks, Languages.by_name[lang]))
        s3 = snap(scan_file(lex(sr.lexer_for(lang), code, False), Languages.by_name[lang]))
    except RecursionError:
        return []
    except Exception as e:  # noqa
        return ["second scan raised %r" % (e,)]
    if s1 != s3:
        bad.append("a fresh analysis of the same text differs from the first one")
    if s1 != s2:
        bad.append("second scan_file on the same token list differs from the first (first result mutated in between)")
    return bad


def code_tokens(lang, code, skip=0):
    """the lexer's code tokens (not white space, not comments) with positions computed HERE from the offsets Pygments
    reports - independent of Code Limit's own lexing wrapper: [(line, column, end line, end column, is_name, text)].
    `skip`: lex the text behind a leading byte order mark (both readings of such a file are accepted)"""
    from bisect import bisect_right
    from pygments.token import Comment, Name
    st = [0]
    i = code.find("\n")
    while i >= 0:
        st.append(i + 1)
        i = code.find("\n", i + 1)
    out = []
    for (off, tt, val) in sr.lexer_for(lang).get_tokens_unprocessed(code[skip:]):
        if tt in Comment or (sr.kind_of(tt) == 6 and (val == "" or val.isspace())):
            continue
        off += skip
        l = bisect_right(st, off)
        e = off + len(val)
        el = bisect_right(st, e - 1) if val else l
        # a token that ends with a newline ends at column 1 of the following line in the convention of the measurements
        if val.endswith("\n"):
            el, ec = el + 1, 1
        else:
            ec = e - st[el - 1] + 1
        out.append((l, off - st[l - 1] + 1, el, ec, tt in Name, val))
    return out


def oracle(lang, code, reply):
    """-> list of violated clauses"""
    d = sr.decode_scan(reply)
    if d is None:
        return ["exception: " + reply]
    ms, total = d
    lines = code.split("\n")
    nlines = len(lines)
    readings = [code_tokens(lang, code)]
    if code.startswith(scan_streams.BOM):
        readings.append(code_tokens(lang, code, 1))
    bad = []
    for k, toks in enumerate(readings):
        bad = oracle_on(toks, lines, nlines, ms, total)
        if not bad:
            break
    return bad


def oracle_on(toks, lines, nlines, ms, total):
    starts = {}
    ends = {}
    for i, t in enumerate(toks):
        starts.setdefault((t[0], t[1]), i)
        ends[(t[2], t[3])] = i
    bad = []
    prev = None
    for (name, sl, sc, el, ec, ln) in ms:
        tag = "%s@%d:%d" % (name, sl, sc)
        if not (1 <= sl <= el <= nlines):
            bad.append("%s: lines %d..%d not within 1..%d" % (tag, sl, el, nlines)); continue
        if not (1 <= sc <= len(lines[sl - 1]) and 1 <= ec <= len(lines[el - 1]) + 1):
            bad.append("%s: columns out of range (start col %d in a line of %d, end col %d in a line of %d)" % (tag, sc, len(lines[sl - 1]), ec, len(lines[el - 1]))); continue
        i = starts.get((sl, sc)); j = ends.get((el, ec))
        if i is None:
            bad.append("%s: does not start at a code token (the text there is %r)" % (tag, lines[sl - 1][sc - 1:sc + 11])); continue
        if j is None:
            bad.append("%s: does not end just past a code token (the text before it is %r)" % (tag, lines[el - 1][max(0, ec - 9):ec - 1])); continue
        if i > j:
            bad.append("%s: ends before it starts" % tag); continue
        if not any(t[4] and t[5] == name for t in toks[i:j + 1]):
            bad.append("%s: name is not the text of an identifier token inside the span" % tag)
        code_lines = len({t[0] for t in toks[i:j + 1]})
        if not (1 <= ln <= code_lines):
            bad.append("%s: length %d not within 1..%d code-bearing lines" % (tag, ln, code_lines))
        if prev is not None and not (prev < (sl, sc)):
            bad.append("%s: not in source order / duplicate start" % tag)
        prev = (sl, sc)
    if total != sum(m[5] for m in ms):
        bad.append("file total %d != sum of lengths" % total)
    return bad


def real_total(lang, code):
    """the line total computed by the real _analyze_file (via a temp file)"""
    from codelimit.common import Scanner
    d = tempfile.mkdtemp(prefix="c05_")
    p = os.path.join(d, "f." + sr.EXT[lang])
    try:
        with open(p, "w", encoding="utf-8", newline="") as f:
            f.write(code)
        e = Scanner._analyze_file(p, "f." + sr.EXT[lang], "x", sr.lexer_for(lang))
        return e.loc, sum(m.value for m in e.measurements())
    finally:
        os.unlink(p); os.rmdir(d)


# ---- observation through files: Scanner.scan_path(root).files, fresh and with a cached report after a history ---------

def _lang_of(rel):
    """the supported language Pygments resolves the file NAME to (None: not a file Code Limit analyses)"""
    from gen import names as gnames
    l = gnames.resolves_to(os.path.basename(rel))
    return l if l in sr.LANGS else None


def tree_plan(ctx):
    """-> (files {rel: bytes} in creation order, ops): a tree of generated programs in all languages (function names drawn
    with replacement from words that are keywords in another supported language), malformed texts, LF / CR LF / CR / mixed
    line ends, UTF-8 signatures, file names from harness/gen/names.py (every name Pygments maps to the language, NFC / NFD
    twins in one directory with different contents, awkward characters), and a history to replay against a cached report:
    renames and moves keeping the bytes (also to another language's extension, preferably one for which a function name
    of the file is not an identifier), contents replaced or swapped with back-dated modification times, removals"""
    import file_front as ff
    from gen import names as gnames
    rnd = ctx.rng("c05tree")
    files = {}
    dirs = ["", "src", os.path.join("src", "pkg"), "lib"]

    soup_pool = [t for (l, t) in scan_streams.soups(ctx, 60, "c05treesoup") if "\r" not in t] or ["x"]

    def _grouped(lines, rnd):
        out, i = [], 0
        while i < len(lines):
            k = rnd.randint(1, 4)
            out.append(lines[i:i + k]); i += k
        return out

    def content(lang):
        if rnd.random() < 0.15:
            text = rnd.choice(soup_pool)
        else:
            text = scan_streams.named_program(lang, rnd, extras=True).text(rnd.random() < 0.85)
        if rnd.random() < 0.3:
            # contents that are NOT in Unicode Normalization Form C: identifiers (function names, parameters, variables,
            # words in literals) respelled with decomposed letters / singletons where the lexer reads them as one
            # identifier, combining marks inside string literals and comments; a share of the brace programs on few lines
            # (statements in front of a header on its line)
            if lang != "Python" and rnd.random() < 0.3:
                text = "\n".join(" ".join(ln for ln in part) for part in _grouped([l for l in text.split("\n") if not l.lstrip().startswith(("#", "//"))], rnd))
            text = scan_streams.denormalise(lang, text, rnd, rnd.choice([0.2, 0.5, 1.0]))[0]
            text = scan_streams.denormalise_literals(lang, text, rnd, rnd.choice([0.05, 0.3]))
        if lang != "Python" and rnd.random() < 0.35:
            # top-level blocks headed by a word that is a keyword HERE and an identifier in another supported language
            kws = scan_streams.reverse_cross_names(lang)
            for _ in range(rnd.randint(1, 3) if kws else 0):
                text += rnd.choice(["%s (a, b) {\n  x = 1;\n}\n", "int %s(int a) {\n  return a;\n}\n", "void *operator %s(int n) {\n  return n;\n}\n"]) % rnd.choice(kws)
        return ff.to_bytes(text, rnd.choice(ff.NEWLINES), rnd.random() < 0.1, rnd)
    # case variants of file extensions: every extension Pygments maps to a supported language next to the same stem with
    # the extension in the other letter case (x.c / x.C, x.h / x.H, x.cpp / x.CPP, x.py / x.PY ...), in one directory,
    # created in both orders; each file's content is written in the language Pygments gives ITS name (if any)
    seen = set()
    for (fn, lang0, _) in sorted(gnames.language_file_names("STEM")):
        stem, ext = os.path.splitext(fn)
        other = ext.lower() if ext != ext.lower() else ext.upper()
        if not ext or other == ext or frozenset((ext, other)) in seen:
            continue
        seen.add(frozenset((ext, other)))
        k = len(seen)
        d = rnd.choice(dirs)
        pair = [os.path.join(d, "cv%d%s" % (k, ext)), os.path.join(d, "cv%d%s" % (k, other))]
        if k % 2:
            pair.reverse()
        for r in pair:
            files[r] = content(_lang_of(r) or lang0)
    for lang in sr.LANGS:
        for i in range(ctx.pick(5, 25)):
            d = rnd.choice(dirs)
            name = ff.pick_name(lang, rnd, "f%d" % len(files), sr.EXT[lang])
            if name in [os.path.basename(r) for r in files if os.path.dirname(r) == d]:
                name = "f%d.%s" % (len(files), sr.EXT[lang])
            files[os.path.join(d, name)] = content(lang)
    twins = []
    for lang in sr.LANGS:
        twins += [(lang, a, b) for (a, b) in gnames.unicode_twins("." + sr.EXT[lang])]
    rnd.shuffle(twins)
    for k, (lang, nfc, nfd) in enumerate(twins[:ctx.pick(10, 40)]):
        d = rnd.choice(dirs)
        pair = [os.path.join(d, "t%d%s" % (k, nfc)), os.path.join(d, "t%d%s" % (k, nfd))]
        if k % 2:
            pair.reverse()          # creation order decides the directory order on most file systems
        for r in pair:
            files[r] = content(lang)
    for lang in rnd.sample(sr.LANGS, 3):
        for name in rnd.sample(gnames.awkward_names("." + sr.EXT[lang]), 3):
            files[os.path.join(rnd.choice(dirs), name)] = content(lang)
    # history
    ops = []
    rels = list(files)
    exts = {l: sr.EXT[l] for l in sr.LANGS}
    for rel in rnd.sample(rels, len(rels) // 2):
        lang = _lang_of(rel)
        d, base = os.path.split(rel)
        stem = os.path.splitext(base)[0] or base
        k = rnd.random()
        if k < 0.45 and lang:
            # the same bytes under another language's extension
            text = ff.read_back(files[rel])
            import re
            words = set(re.findall(r"[A-Za-z_]\w*", text))
            hostile = [l2 for l2 in sr.LANGS if l2 != lang and any(scan_streams.is_identifier_in(lang, w) and not scan_streams.is_identifier_in(l2, w)
                                                                  for w in words & set(scan_streams.cross_names(lang)))]
            l2 = rnd.choice(hostile) if hostile and rnd.random() < 0.7 else rnd.choice([l for l in sr.LANGS if l != lang])
            ops.append({"op": "rename", "from": rel, "to": os.path.join(rnd.choice([d, d, rnd.choice(dirs)]), "%s_r.%s" % (stem, exts[l2]))})
        elif k < 0.6:
            ops.append({"op": "rename", "from": rel, "to": os.path.join(rnd.choice(dirs), "mv_" + base)})
        elif k < 0.8 and lang:
            ops.append({"op": "write", "rel": rel, "data_latin1": content(rnd.choice(sr.LANGS)).decode("latin-1"), "mtime": 1000000000 + rnd.randrange(10 ** 8)})
        elif k < 0.9:
            ops.append({"op": "remove", "rel": rel})
    return files, ops


def tree_eval(files, ops, only=None, spellings=False):
    """build the tree, scan it, replay the history, scan it again with the first scan's report as cache;
    -> (files judged, failures); `only`: judge just this final path"""
    import file_front as ff
    fails, judged = [], 0
    with ff.Tree("c05tree_") as tree:
        for rel, data in files.items():
            tree.write(rel, data)
        origin = {rel: rel for rel in files}

        def judge(cb, err, phase):
            nonlocal judged
            if err:
                fails.append({"file": None, "phase": phase, "observed": "scan_path: " + err, "required": "scan_path completes"}); return
            got = ff.entries(cb)
            for rel, data in sorted(tree.files.items()):
                lang = _lang_of(rel)
                if lang is None or (only is not None and rel != only):
                    continue
                judged += 1
                e = got.get(rel)
                if e is None:
                    fails.append({"file": rel, "phase": phase, "prio": 2, "observed": "scan_path(root).files has no entry %r; entries with the same normalised spelling: %r" % (rel, [k for k in got if _nf(k) == _nf(rel)]),
                                  "required": "the file's measurements are listed under the path of the file"}); continue
                text = ff.read_back(data)
                bad = oracle(lang, text, ff.encode_reply(e[1]))[:1]
                for b in bad:
                    fails.append({"file": rel, "phase": phase, "prio": 0, "observed": "%s%s (listed as %s; the file has %d lines, its name says %s)" % (e[1][:4], " ..." if len(e[1]) > 4 else "", e[0], len(text.split("\n")), lang), "required": b})
                if e[2] != sum(m[5] for m in e[1]):
                    fails.append({"file": rel, "phase": phase, "prio": 0, "observed": "loc=%d" % e[2], "required": "file total = sum of lengths = %d" % sum(m[5] for m in e[1])})
                if not bad and e[0] != lang:
                    fails.append({"file": rel, "phase": phase, "prio": 1, "observed": "listed as %s" % e[0], "required": "analysed as %s, the language of its name" % lang})
            for rel in got:
                if rel not in tree.files and (only is None or _nf(rel) == _nf(only)):
                    fails.append({"file": rel, "phase": phase, "prio": 2, "observed": "scan_path(root).files lists %r" % rel, "required": "every listed path names a file of the tree"})
        cb1, err = tree.scan()
        judge(cb1, err, 1)
        if cb1 is not None and ops:
            report = ff.report_of(cb1)
            for op in ops:
                try:
                    if op["op"] == "rename" and op["from"] in tree.files and op["to"] not in tree.files:
                        tree.rename(op["from"], op["to"]); origin[op["to"]] = origin.pop(op["from"], op["from"])
                    elif op["op"] == "write" and op["rel"] in tree.files:
                        tree.write(op["rel"], op["data_latin1"].encode("latin-1"), op.get("mtime"))
                    elif op["op"] == "remove" and op["rel"] in tree.files:
                        tree.remove(op["rel"])
                except OSError:
                    pass
            cb2, err = tree.scan(report)
            judge(cb2, err, 2)
            if only is None and spellings:
                # the same tree named through a symbolic link and through `<root>/<dir>/..`, fresh and with the cache
                link = tree.root + "_link"
                try:
                    os.symlink(tree.root, link)
                    cb3, err = tree.scan(None, link)
                    judge(cb3, err, 3)
                finally:
                    if os.path.islink(link):
                        os.unlink(link)
                sub = sorted({r.split(os.sep)[0] for r in tree.files if os.sep in r})
                if sub:
                    cb4, err = tree.scan(report, os.path.join(tree.root, sub[0], ".."))
                    judge(cb4, err, 4)
        for f in fails:
            f["origin"] = origin.get(f["file"])
    fails.sort(key=lambda f: f.get("prio", 0))
    return judged, fails


def fresh_tree_eval(files, ops, only=None):
    """tree_eval in a NEW interpreter (not a fork): a scenario handed out as failing input must fail without whatever
    module-level state the scans of the full tree left behind in this process"""
    import json
    import subprocess
    prog = "import sys, json; sys.path.insert(0, %r); from props import C05; d = json.load(sys.stdin); " \
           "n, fs = C05.tree_eval({r: x.encode('latin-1') for r, x in d['files'].items()}, d['ops'], d['only']); print('RESULT' + json.dumps([n, fs]))" % os.path.dirname(os.path.dirname(os.path.abspath(__file__)))
    try:
        p = subprocess.run([sys.executable, "-c", prog], input=json.dumps({"files": {r: x.decode("latin-1") for r, x in files.items()}, "ops": ops, "only": only}),
                           capture_output=True, text=True, timeout=300)
        line = [l for l in p.stdout.splitlines() if l.startswith("RESULT")][-1]
        n, fs = json.loads(line[6:])
        return n, fs
    except Exception:  # noqa
        return tree_eval(files, ops, only)


def _not_nfc(data):
    import file_front as ff
    t = ff.read_back(data)
    return _nf(t) != t


def _nf(s):
    import unicodedata
    return unicodedata.normalize("NFC", s)


def tree_failures(ctx, dist=None):
    files, ops = tree_plan(ctx)
    judged, raw = tree_eval(files, ops, None, True)
    if dist is not None:
        dist["tree"] = {"files": len(files), "history_operations": len(ops), "files_judged_over_all_scans": judged,
                        "renamed_to_another_language": sum(1 for o in ops if o["op"] == "rename" and _lang_of(o["from"]) != _lang_of(o["to"])),
                        "twin_names": sum(1 for r in files if _nf(r) != r), "extension_case_variants": sum(1 for r in files if os.path.basename(r).startswith("cv")), "non_lf_line_ends": sum(1 for d in files.values() if b"\r" in d),
                        "contents_not_in_nfc": sum(1 for d in files.values() if _not_nfc(d))}
    out = []
    for f in raw[:6]:
        # a small scenario that still fails: the file (under the name it was created with), the files whose names are
        # equal to its name up to Unicode normalisation, the operations that touch it
        keep = {r for r in files if f["file"] is not None and (r in (f["file"], f.get("origin")) or _nf(r) in (_nf(f["file"]), _nf(f.get("origin") or "")))}
        sub = {r: files[r] for r in files if r in keep}
        sops = [o for o in ops if o.get("from") in keep or o.get("rel") in keep or o.get("to") in keep]
        small = fresh_tree_eval(sub, sops, None)[1] if sub else []
        if not small and f["file"] is not None:
            # the failure needs other files (state carried from one file to the next): halve the set of the others
            # as long as the same file still fails
            rest = [r for r in files if r not in keep]
            failing = lambda extra: [g for g in fresh_tree_eval({r: files[r] for r in files if r in keep or r in extra}, sops, None)[1] if g["file"] == f["file"]]
            for _ in range(8):
                if len(rest) <= 1:
                    break
                half = [rest[:len(rest) // 2], rest[len(rest) // 2:]]
                hit = next((h for h in half if failing(set(h))), None)
                if hit is None:
                    break
                rest = hit
            got = failing(set(rest)) if len(rest) < len(files) - len(keep) else []
            if got:
                small = got
                sub = {r: files[r] for r in files if r in keep or r in set(rest)}
        if small:
            g = small[0]
            inp = {"stream": "tree", "files_latin1": {r: d.decode("latin-1") for r, d in sub.items()}, "ops": sops}
        else:
            g = f
            inp = {"stream": "tree", "files_latin1": {r: d.decode("latin-1") for r, d in files.items()}, "ops": ops}
        out.append({"input": dict(inp, file=g["file"], phase=g["phase"]), "observed": g["observed"], "required": g["required"]})
    return judged, out


def _tree_job(tier):
    import main
    dist = {}
    n, fails = tree_failures(main.Ctx(ID, tier), dist)
    return n, fails, dist


def correspond(ctx):
    tree_run = scan_streams.Heavy(_tree_job, [ctx.tier], 1)        # runs next to everything else
    cs = cases(ctx)
    sizes = scan_streams.Heavy(_filesize_work, filesize_jobs(ctx), 6)
    heavy = scan_streams.Heavy(_big_work, big_jobs(ctx))          # runs while the small inputs are compared with the model
    both = scan_streams.chunked_map(_chunk_work, cs)                # real analysis and direct oracle side by side
    real = [r for (r, _) in both]
    model = sr.model_scan_many([sr.scan_request(l, c) for (l, c) in cs])
    dis, fails = [], []
    nontrivial = set()
    dist = {"with_functions": 0, "measurements": 0, "errors": 0}
    for (lang, code), (r, obad), m in zip(cs, both, model):
        inp = {"language": lang, "code": code}
        if r != m:
            dis.append({"stream": "scan/%s" % lang, "input": inp, "model": m[:300], "impl": r[:300]})
        for b in obad:
            fails.append({"input": inp, "observed": r[:300], "required": b})
        d = sr.decode_scan(r)
        if d and d[0]:
            nontrivial.add((lang, code)); dist["with_functions"] += 1; dist["measurements"] += len(d[0])
        if d is None:
            dist["errors"] += 1
    nbig, bfails = big_failures(ctx, dist, heavy)
    fails += bfails
    nsize, sfails = filesize_failures(ctx, dist, sizes)
    fails += sfails
    nbig += nsize
    ntree, tfails, tdist = tree_run.results()[0]
    dist.update(tdist)
    fails += tfails
    nbig += ntree
    dist["byte_order_mark"] = sum(1 for (_, c) in cs if c.startswith(scan_streams.BOM))
    dist["bom_without_newline_with_functions"] = sum(1 for (l, c), r in zip(cs, real) if c.startswith(scan_streams.BOM) and "\n" not in c and r.startswith("ok") and not r.startswith("ok 0 "))
    dist["without_newline_with_functions"] = sum(1 for (l, c), r in zip(cs, real) if "\n" not in c and r.startswith("ok") and not r.startswith("ok 0 "))
    probes = 0
    for (lang, code) in [c for c in cs if len(c[1]) <= 4000][:: max(1, len(cs) // ctx.pick(150, 3000))]:
        probes += 1
        for b in second_scan_probe(lang, code):
            fails.append({"input": {"language": lang, "code": code, "probe": "second-scan"}, "observed": "", "required": b})
    dist["second_scan_probes"] = probes
    # the file total through the real _analyze_file (a temp file): the first inputs and a sample of all the others
    for (lang, code) in cs[:ctx.pick(60, 600)] + cs[ctx.pick(60, 600):: max(1, len(cs) // ctx.pick(60, 600))]:
        try:
            loc, s = real_total(lang, code)
            if loc != s:
                fails.append({"input": {"language": lang, "code": code}, "observed": "loc=%d" % loc, "required": "file total = sum of lengths = %d" % s})
        except Exception as e:  # noqa
            fails.append({"input": {"language": lang, "code": code}, "observed": repr(e), "required": "_analyze_file completes"})
    return {
        "evaluations": len(cs) + nbig + probes, "distinct_nontrivial": len(nontrivial) + nbig,
        "rule": "MEMBER POSITIONS: programs with header-shaped members directly after `{`, `,`, `;`, `}` in every kind of body of the brace languages (modifier-less constructors first, enum constants with class bodies, object-literal methods), whole and cut at a random character; NON-NFC CONTENTS: a share of the files of the tree holds text that is not in Unicode Normalization Form C (identifiers respelled with decomposed letters / ANGSTROM, OHM, KELVIN signs wherever the language's lexer reads the spelling as one identifier - function names, parameters, variables; combining marks inside string literals and comments; a share of these programs with several lines joined so that statements stand in front of a header on its line), judged against the file's OWN text; FILE-SIZE LADDER: one file of exactly n characters (n = 10^3, 10^4, 10^5; thorough up to 3*10^6; plus n-1, n, n+1, 2n for every integer literal that is new in the source under check), made of functions whose bodies are tokens spanning several lines (doc strings, multi-line / raw / verbatim / template strings, block comments inside statements), in Python and two other languages per rung, LF / CR LF, scanned through Scanner.scan_path and judged by the direct oracle on the file's text; CASE VARIANTS of file extensions (x.c next to x.C, x.h / x.H, ... created in both orders; each analysed as the language Pygments gives the NAME) and top-level `keyword (..) {` blocks whose keyword is an identifier in another supported language; FILES: a tree of generated programs in all languages (function names drawn with replacement from words that are keywords in another supported language) and malformed texts, with LF / CR LF / CR / mixed line ends and UTF-8 signatures, under file names from Pygments and Unicode (every name mapped to the language, NFC / NFD twins in one directory, awkward characters), observed through Scanner.scan_path(root).files: every file of a supported language is listed under its own path and language with well-formed measurements for ITS text; then a history (renames and moves keeping the bytes, also to another language's extension; contents replaced with back-dated modification times; removals) and a second scan_path with the first scan's report as cache, judged the same way; the final tree once more with the root spelled through a symbolic link and through `<root>/<dir>/..`; malformed stream (prefixes, suffixes, line/token deletions, duplications, swaps of canonical programs and corpus files; token soups over each language's lexical alphabet; deep nesting; tiny inputs) + canonical programs + vendored corpus; configuration variants: canonical programs rendered on ONE line without any newline / behind a byte order mark / both, and a share of all other texts likewise (+ a blank replaced by a Unicode separator); single-line ladder 10^2 .. 10^6 characters (string literal, block comment followed by a function, short statements, one-line function; a quarter behind a byte order mark); programs of 10^2 .. 10^4 lines (one function / many functions), whole and cut at a random character - up to 10^4 characters against the model, above by the direct oracle only; second-scan probe on a sample (same token list and Language object, first result mutated; then a fresh analysis); non-trivial = distinct inputs with at least one reported measurement",
        "samples": [{"language": l, "code": c[:120], "impl": r[:120]} for (l, c), r in list(zip(cs, real))[100:103]],
        "exhaustive": False, "distribution": dist,
        "disagreements": dis[:50], "oracle_failures": fails[:50],
    }


def search(ctx, hints):
    cs = [(h["language"], h["code"]) for h in hints or [] if h and "code" in h] + cases(ctx) + scan_streams.soups(ctx, 4000, "c05search")
    real = sr.real_scan_many(cs)
    fails = []
    for (lang, code), r in zip(cs, real):
        for b in oracle(lang, code, r):
            fails.append({"input": {"language": lang, "code": code}, "observed": r[:300], "required": b})
    fails.sort(key=lambda f: len(f["input"]["code"]))
    return fails[:10] + big_failures(ctx)[1][:3] + filesize_failures(ctx, {})[1][:2] + tree_failures(ctx)[1][:3]


def replay(payload):
    inp = payload["input"]
    if inp.get("stream") == "tree":
        n, fs = tree_eval({r: d.encode("latin-1") for r, d in inp["files_latin1"].items()}, inp["ops"])
        print("tree of %d files %s, %d history operations %s -> %s" % (len(inp["files_latin1"]), sorted(inp["files_latin1"])[:6], len(inp["ops"]),
                                                                    [(o["op"], o.get("from") or o.get("rel"), o.get("to")) for o in inp["ops"]][:4],
                                                                    [(f["file"], f["phase"], f["required"]) for f in fs[:3]] or "ok"))
        return not fs
    if inp.get("stream") == "file-size":
        r, bad = _filesize_work(inp)
        print("%s file of %d characters (%s ...) through scan_path -> %s; %s" % (inp["language"], inp["chars"], scan_streams.multiline_text(inp)[:60].replace("\n", "\\n"), r[:200], bad[:1] or "ok"))
        return not bad
    code = inp["code"] if "code" in inp else big_text(inp)
    if inp.get("probe") == "second-scan":
        r, bad = "", second_scan_probe(inp["language"], code)
    else:
        r = sr.real_scan(inp["language"], code)
        bad = oracle(inp["language"], code, r)
    print("%s %r%s -> %s; %s" % (inp["language"], code[:80], " ... (%d characters)" % len(code) if len(code) > 80 else "", r[:120], bad or "ok"))
    return not bad
