"""C05 - every reported measurement is well-formed, for every input.

Tie: model `analyze` vs real lex + scan_file on the malformed stream, canonical programs and the
corpus. Oracle: the property stated directly on the real output and the text."""
import os
import sys
import tempfile

sys.path.insert(0, os.path.dirname(os.path.dirname(os.path.abspath(__file__))))
import common
import scan_real as sr
import scan_streams
from props import C15

ID = "C05"
SHRINKABLE = True     # replay() re-evaluates the oracle from the input alone
TRUSTED = [
    "correspondence harness (harness/props/C05.py, scan_real.py, scan_streams.py)",
    "translator/patterns.py (shipped header patterns -> Gen/Languages.lean)",
    "modelled, not verified: Pygments lexers (contract checked per input, see C16)",
]
ASSUMPTIONS = ["token positions strictly increasing and tokens non-empty (provided by C16 under the lexer contract)"]
import regen_all
regen = regen_all.patterns_and_logic
REGRESS = [("Python", 'def f():\n    """doc\n    more\n    """\n'),            # F13: multi-line last token
           ("Python", "def f():\n    x = '''a\nb'''\n"),
           ("JavaScript", "function f() {\n  return `a\nb`}\n"),
           ("Python", "def o():\n  def f():\n      def\n  g():\n    pass\n")]   # name outside the span


MODEL_CHARS = 10 ** 4      # longer single lines / bigger ladder programs: direct oracle only


def cases(ctx):
    out = list(REGRESS)
    canon = scan_streams.canonical(ctx, ctx.pick(40, 600), "c05")
    out += [(l, t) for (l, t, _) in canon]
    out += scan_streams.soups(ctx, ctx.pick(2000, 50000), "c05soup")
    out += scan_streams.corpus_cases()
    # configuration variants: canonical programs on ONE line without any newline, behind a byte order mark, both;
    # and the same for a share of every other text (there: newlines replaced by blanks)
    rnd = ctx.rng("c05variants")
    for (lang, text, o) in canon:
        one = scan_streams.one_line(o)
        for v in ([one, scan_streams.BOM + one] if one else []) + [scan_streams.BOM + text, scan_streams.BOM + text.rstrip("\n")]:
            if rnd.random() < ctx.pick(0.3, 0.5):
                out.append((lang, v))
    out += scan_streams.decorate(ctx, out, ctx.pick(0.06, 0.1), "c05decor")
    out += [(lang, text) for (lang, text, d) in long_cases(ctx) if d["chars"] <= MODEL_CHARS]
    return [(l, t) for (l, t) in out if "\r" not in t]


def long_cases(ctx):
    """single-line ladder 10^2 .. 10^6 characters (the shapes whose token count grows with the size: up to 10^5)"""
    if getattr(ctx, "_c05long", None) is None:
        light = scan_streams.rungs(100, 10 ** 4, True) + ctx.pick([10 ** 5, 10 ** 6], scan_streams.rungs(31623, 3162278))
        heavy = scan_streams.rungs(100, 10 ** 4, True) + ctx.pick([10 ** 5], scan_streams.rungs(31623, 316228))
        ctx._c05long = scan_streams.long_lines(ctx, light, heavy, per_rung=ctx.pick(2, 7), salt="c05long", full_upto=100)
    return ctx._c05long


def ladder_cases(ctx):
    """programs of 10^2 .. 10^4 lines (one function / many functions), whole and cut at a random character"""
    import random
    if getattr(ctx, "_c05ladder", None) is None:
        out = []
        for (lang, text, o, d) in scan_streams.ladder_programs(ctx, ctx.pick([1000], [316, 3162, 10 ** 4]), ctx.pick([1000], [316, 1000, 3162, 10 ** 4]),
                                                              "c05ladder", many_python=ctx.pick([1000], [316, 1000, 3162])):
            cut = random.Random(d["gen_seed"]).randrange(len(text) // 2, len(text))
            out.append(dict(d, cut=cut))
            out.append(d)
        ctx._c05ladder = out
    return ctx._c05ladder


def big_text(desc):
    if desc.get("stream") == "long-line":
        return scan_streams.long_text(desc)
    text = scan_streams.ladder_program(desc)[1]
    return text[:desc["cut"]] if "cut" in desc else text


def _big_work(desc):
    code = big_text(desc)
    r = sr.real_scan(desc["language"], code)
    return r[:300], oracle(desc["language"], code, r)


def big_jobs(ctx):
    jobs = [d for (_, _, d) in long_cases(ctx) if d["chars"] > MODEL_CHARS] + ladder_cases(ctx)
    jobs.sort(key=lambda d: -d.get("chars", 30 * d.get("lines", 0)))
    return jobs


def _chunk_work(chunk):
    out = []
    for (lang, code) in chunk:
        r = sr.real_scan(lang, code)
        out.append((r, oracle(lang, code, r)))
    return out


def big_failures(ctx, dist=None, started=None):
    """the upper rungs: real analysis + direct oracle, one input per worker process"""
    jobs = big_jobs(ctx)
    fails = []
    for d, (r, bad) in zip(jobs, (started or scan_streams.Heavy(_big_work, jobs)).results()):
        if dist is not None:
            key = "long_lines" if d["stream"] == "long-line" else "ladder_programs"
            size = str(d.get("chars", d.get("lines")))
            dist.setdefault(key, {})[size] = dist.setdefault(key, {}).get(size, 0) + 1
            if not r.startswith("ok 0 "):
                dist["with_functions"] += 1
        for b in bad[:1]:
            fails.append({"input": dict(d), "observed": r, "required": b})
    fails.sort(key=lambda f: f["input"].get("chars", f["input"].get("lines", 0)))
    for f in [f for f in fails if f["input"]["stream"] == "long-line"][:2]:
        d = f["input"]
        small = scan_streams.bisect_size(lambda k, d=d: bool(_big_work(dict(d, chars=k))[1]), 0, d["chars"])
        r, bad = _big_work(dict(d, chars=small))
        if bad:
            f.update({"input": dict(d, chars=small, found_at_chars=d["chars"]), "observed": r, "required": bad[0]})
    fails.sort(key=lambda f: f["input"].get("chars", f["input"].get("lines", 0)))
    return len(jobs), fails


def second_scan_probe(lang, code):
    """state probe: scan_file twice on the SAME token list and Language object; the first result is mutated in between
    (list emptied, measurements and their locations overwritten); then the whole pipeline once more from the text"""
    from codelimit.common.lexer_utils import lex
    from codelimit.common.Scanner import scan_file
    from codelimit.languages import Languages

    def snap(ms):
        return [(m.unit_name, m.start.line, m.start.column, m.end.line, m.end.column, m.value) for m in ms]
    try:
        toks = lex(sr.lexer_for(lang), code, False)
        before = [(t.location.line, t.location.column, t.value) for t in toks]
        first = scan_file(toks, Languages.by_name[lang])
        s1 = snap(first)
        for m in first:
            # NOTE: m.start IS the header token's Location object (scan_file passes it on), so writing to its fields
            # would edit the caller's token list; nothing in Code Limit assigns to a Location, and no property speaks
            # about callers doing so - the probe therefore rebinds `start` and edits only what the result owns
            try:
                m.end.line += 7; m.end.column = 0
            except AttributeError:
                pass
            m.start = m.end
            m.unit_name = "?"; m.value = -1
        del first[:]
        bad = []
        if [(t.location.line, t.location.column, t.value) for t in toks] != before:
            bad.append("scan_file changed the token list it was given")
        s2 = snap(scan_file(toks, Languages.by_name[lang]))
        s3 = snap(scan_file(lex(sr.lexer_for(lang), code, False), Languages.by_name[lang]))
    except RecursionError:
        return []
    except Exception as e:  # noqa
        return ["second scan raised %r" % (e,)]
    if s1 != s3:
        bad.append("a fresh analysis of the same text differs from the first one")
    if s1 != s2:
        bad.append("second scan_file on the same token list differs from the first (first result mutated in between)")
    return bad


def code_tokens(lang, code, skip=0):
    """the lexer's code tokens (not white space, not comments) with positions computed HERE from the offsets Pygments
    reports - independent of Code Limit's own lexing wrapper: [(line, column, end line, end column, is_name, text)].
    `skip`: lex the text behind a leading byte order mark (both readings of such a file are accepted)"""
    from bisect import bisect_right
    from pygments.token import Comment, Name
    st = [0]
    i = code.find("\n")
    while i >= 0:
        st.append(i + 1)
        i = code.find("\n", i + 1)
    out = []
    for (off, tt, val) in sr.lexer_for(lang).get_tokens_unprocessed(code[skip:]):
        if tt in Comment or (sr.kind_of(tt) == 6 and (val == "" or val.isspace())):
            continue
        off += skip
        l = bisect_right(st, off)
        e = off + len(val)
        el = bisect_right(st, e - 1) if val else l
        # a token that ends with a newline ends at column 1 of the following line in the convention of the measurements
        if val.endswith("\n"):
            el, ec = el + 1, 1
        else:
            ec = e - st[el - 1] + 1
        out.append((l, off - st[l - 1] + 1, el, ec, tt in Name, val))
    return out


def oracle(lang, code, reply):
    """-> list of violated clauses"""
    d = sr.decode_scan(reply)
    if d is None:
        return ["exception: " + reply]
    ms, total = d
    lines = code.split("\n")
    nlines = len(lines)
    readings = [code_tokens(lang, code)]
    if code.startswith(scan_streams.BOM):
        readings.append(code_tokens(lang, code, 1))
    bad = []
    for k, toks in enumerate(readings):
        bad = oracle_on(toks, lines, nlines, ms, total)
        if not bad:
            break
    return bad


def oracle_on(toks, lines, nlines, ms, total):
    starts = {}
    ends = {}
    for i, t in enumerate(toks):
        starts.setdefault((t[0], t[1]), i)
        ends[(t[2], t[3])] = i
    bad = []
    prev = None
    for (name, sl, sc, el, ec, ln) in ms:
        tag = "%s@%d:%d" % (name, sl, sc)
        if not (1 <= sl <= el <= nlines):
            bad.append("%s: lines %d..%d not within 1..%d" % (tag, sl, el, nlines)); continue
        if not (1 <= sc <= len(lines[sl - 1]) and 1 <= ec <= len(lines[el - 1]) + 1):
            bad.append("%s: columns out of range (start col %d in a line of %d, end col %d in a line of %d)" % (tag, sc, len(lines[sl - 1]), ec, len(lines[el - 1]))); continue
        i = starts.get((sl, sc)); j = ends.get((el, ec))
        if i is None:
            bad.append("%s: does not start at a code token (the text there is %r)" % (tag, lines[sl - 1][sc - 1:sc + 11])); continue
        if j is None:
            bad.append("%s: does not end just past a code token (the text before it is %r)" % (tag, lines[el - 1][max(0, ec - 9):ec - 1])); continue
        if i > j:
            bad.append("%s: ends before it starts" % tag); continue
        if not any(t[4] and t[5] == name for t in toks[i:j + 1]):
            bad.append("%s: name is not the text of an identifier token inside the span" % tag)
        code_lines = len({t[0] for t in toks[i:j + 1]})
        if not (1 <= ln <= code_lines):
            bad.append("%s: length %d not within 1..%d code-bearing lines" % (tag, ln, code_lines))
        if prev is not None and not (prev < (sl, sc)):
            bad.append("%s: not in source order / duplicate start" % tag)
        prev = (sl, sc)
    if total != sum(m[5] for m in ms):
        bad.append("file total %d != sum of lengths" % total)
    return bad


def real_total(lang, code):
    """the line total computed by the real _analyze_file (via a temp file)"""
    from codelimit.common import Scanner
    d = tempfile.mkdtemp(prefix="c05_")
    p = os.path.join(d, "f." + sr.EXT[lang])
    try:
        with open(p, "w", encoding="utf-8", newline="") as f:
            f.write(code)
        e = Scanner._analyze_file(p, "f." + sr.EXT[lang], "x", sr.lexer_for(lang))
        return e.loc, sum(m.value for m in e.measurements())
    finally:
        os.unlink(p); os.rmdir(d)


def correspond(ctx):
    cs = cases(ctx)
    heavy = scan_streams.Heavy(_big_work, big_jobs(ctx))          # runs while the small inputs are compared with the model
    both = scan_streams.chunked_map(_chunk_work, cs)                # real analysis and direct oracle side by side
    real = [r for (r, _) in both]
    model = sr.model_scan_many([sr.scan_request(l, c) for (l, c) in cs])
    dis, fails = [], []
    nontrivial = set()
    dist = {"with_functions": 0, "measurements": 0, "errors": 0}
    for (lang, code), (r, obad), m in zip(cs, both, model):
        inp = {"language": lang, "code": code}
        if r != m:
            dis.append({"stream": "scan/%s" % lang, "input": inp, "model": m[:300], "impl": r[:300]})
        for b in obad:
            fails.append({"input": inp, "observed": r[:300], "required": b})
        d = sr.decode_scan(r)
        if d and d[0]:
            nontrivial.add((lang, code)); dist["with_functions"] += 1; dist["measurements"] += len(d[0])
        if d is None:
            dist["errors"] += 1
    nbig, bfails = big_failures(ctx, dist, heavy)
    fails += bfails
    dist["byte_order_mark"] = sum(1 for (_, c) in cs if c.startswith(scan_streams.BOM))
    dist["bom_without_newline_with_functions"] = sum(1 for (l, c), r in zip(cs, real) if c.startswith(scan_streams.BOM) and "\n" not in c and r.startswith("ok") and not r.startswith("ok 0 "))
    dist["without_newline_with_functions"] = sum(1 for (l, c), r in zip(cs, real) if "\n" not in c and r.startswith("ok") and not r.startswith("ok 0 "))
    probes = 0
    for (lang, code) in [c for c in cs if len(c[1]) <= 4000][:: max(1, len(cs) // ctx.pick(150, 3000))]:
        probes += 1
        for b in second_scan_probe(lang, code):
            fails.append({"input": {"language": lang, "code": code, "probe": "second-scan"}, "observed": "", "required": b})
    dist["second_scan_probes"] = probes
    # the file total through the real _analyze_file (a temp file): the first inputs and a sample of all the others
    for (lang, code) in cs[:ctx.pick(60, 600)] + cs[ctx.pick(60, 600):: max(1, len(cs) // ctx.pick(60, 600))]:
        try:
            loc, s = real_total(lang, code)
            if loc != s:
                fails.append({"input": {"language": lang, "code": code}, "observed": "loc=%d" % loc, "required": "file total = sum of lengths = %d" % s})
        except Exception as e:  # noqa
            fails.append({"input": {"language": lang, "code": code}, "observed": repr(e), "required": "_analyze_file completes"})
    return {
        "evaluations": len(cs) + nbig + probes, "distinct_nontrivial": len(nontrivial) + nbig,
        "rule": "malformed stream (prefixes, suffixes, line/token deletions, duplications, swaps of canonical programs and corpus files; token soups over each language's lexical alphabet; deep nesting; tiny inputs) + canonical programs + vendored corpus; configuration variants: canonical programs rendered on ONE line without any newline / behind a byte order mark / both, and a share of all other texts likewise (+ a blank replaced by a Unicode separator); single-line ladder 10^2 .. 10^6 characters (string literal, block comment followed by a function, short statements, one-line function; a quarter behind a byte order mark); programs of 10^2 .. 10^4 lines (one function / many functions), whole and cut at a random character - up to 10^4 characters against the model, above by the direct oracle only; second-scan probe on a sample (same token list and Language object, first result mutated; then a fresh analysis); non-trivial = distinct inputs with at least one reported measurement",
        "samples": [{"language": l, "code": c[:120], "impl": r[:120]} for (l, c), r in list(zip(cs, real))[100:103]],
        "exhaustive": False, "distribution": dist,
        "disagreements": dis[:50], "oracle_failures": fails[:50],
    }


def search(ctx, hints):
    cs = [(h["language"], h["code"]) for h in hints or [] if h and "code" in h] + cases(ctx) + scan_streams.soups(ctx, 4000, "c05search")
    real = sr.real_scan_many(cs)
    fails = []
    for (lang, code), r in zip(cs, real):
        for b in oracle(lang, code, r):
            fails.append({"input": {"language": lang, "code": code}, "observed": r[:300], "required": b})
    fails.sort(key=lambda f: len(f["input"]["code"]))
    return fails[:10] + big_failures(ctx)[1][:3]


def replay(payload):
    inp = payload["input"]
    code = inp["code"] if "code" in inp else big_text(inp)
    if inp.get("probe") == "second-scan":
        r, bad = "", second_scan_probe(inp["language"], code)
    else:
        r = sr.real_scan(inp["language"], code)
        bad = oracle(inp["language"], code, r)
    print("%s %r%s -> %s; %s" % (inp["language"], code[:80], " ... (%d characters)" % len(code) if len(code) > 80 else "", r[:120], bad or "ok"))
    return not bad
