"""C05 - every reported measurement is well-formed, for every input.

Tie: model `analyze` vs real lex + scan_file on the malformed stream, canonical programs and the
corpus. Oracle: the property stated directly on the real output and the text."""
import os
import sys
import tempfile

sys.path.insert(0, os.path.dirname(os.path.dirname(os.path.abspath(__file__))))
import common
import scan_real as sr
import scan_streams
from props import C15

ID = "C05"
SHRINKABLE = True     # replay() re-evaluates the oracle from the input alone
TRUSTED = [
    "correspondence harness (harness/props/C05.py, scan_real.py, scan_streams.py)",
    "translator/patterns.py (shipped header patterns -> Gen/Languages.lean)",
    "modelled, not verified: Pygments lexers (contract checked per input, see C16)",
]
ASSUMPTIONS = ["token positions strictly increasing and tokens non-empty (provided by C16 under the lexer contract)"]
import regen_all
regen = regen_all.patterns_and_logic
REGRESS = [("Python", 'def f():\n    """doc\n    more\n    """\n'),            # F13: multi-line last token
           ("Python", "def f():\n    x = '''a\nb'''\n"),
           ("JavaScript", "function f() {\n  return `a\nb`}\n"),
           ("Python", "def o():\n  def f():\n      def\n  g():\n    pass\n")]   # name outside the span


def cases(ctx):
    out = list(REGRESS)
    out += [(l, t) for (l, t, _) in scan_streams.canonical(ctx, ctx.pick(40, 600), "c05")]
    out += scan_streams.soups(ctx, ctx.pick(2000, 50000), "c05soup")
    out += scan_streams.corpus_cases()
    return [(l, t) for (l, t) in out if "\r" not in t]


def oracle(lang, code, reply):
    """-> list of violated clauses"""
    d = sr.decode_scan(reply)
    if d is None:
        return ["exception: " + reply]
    ms, total = d
    from codelimit.common.lexer_utils import lex
    toks = lex(sr.lexer_for(lang), code, True)
    lines = code.split("\n")
    nlines = len(lines)
    starts = {}
    ends = {}
    for i, t in enumerate(toks):
        starts.setdefault((t.location.line, t.location.column), i)
        parts = t.value.split("\n")
        if len(parts) == 1:
            e = (t.location.line, t.location.column + len(t.value))
        else:
            e = (t.location.line + len(parts) - 1, len(parts[-1]) + 1)
        ends[e] = i
    bad = []
    prev = None
    for (name, sl, sc, el, ec, ln) in ms:
        tag = "%s@%d:%d" % (name, sl, sc)
        if not (1 <= sl <= el <= nlines):
            bad.append("%s: lines %d..%d not within 1..%d" % (tag, sl, el, nlines)); continue
        if not (1 <= sc <= len(lines[sl - 1]) and 1 <= ec <= len(lines[el - 1]) + 1):
            bad.append("%s: columns out of range (start col %d in a line of %d, end col %d in a line of %d)" % (tag, sc, len(lines[sl - 1]), ec, len(lines[el - 1]))); continue
        i = starts.get((sl, sc)); j = ends.get((el, ec))
        if i is None:
            bad.append("%s: does not start at a code token" % tag); continue
        if j is None:
            bad.append("%s: does not end just past a code token" % tag); continue
        if i > j:
            bad.append("%s: ends before it starts" % tag); continue
        if not any(t.is_name() and t.value == name for t in toks[i:j + 1]):
            bad.append("%s: name is not the text of an identifier token inside the span" % tag)
        code_lines = len({t.location.line for t in toks[i:j + 1]})
        if not (1 <= ln <= code_lines):
            bad.append("%s: length %d not within 1..%d code-bearing lines" % (tag, ln, code_lines))
        if prev is not None and not (prev < (sl, sc)):
            bad.append("%s: not in source order / duplicate start" % tag)
        prev = (sl, sc)
    if total != sum(m[5] for m in ms):
        bad.append("file total %d != sum of lengths" % total)
    return bad


def real_total(lang, code):
    """the line total computed by the real _analyze_file (via a temp file)"""
    from codelimit.common import Scanner
    d = tempfile.mkdtemp(prefix="c05_")
    p = os.path.join(d, "f." + sr.EXT[lang])
    try:
        with open(p, "w", encoding="utf-8", newline="") as f:
            f.write(code)
        e = Scanner._analyze_file(p, "f." + sr.EXT[lang], "x", sr.lexer_for(lang))
        return e.loc, sum(m.value for m in e.measurements())
    finally:
        os.unlink(p); os.rmdir(d)


def correspond(ctx):
    cs = cases(ctx)
    real = sr.real_scan_many(cs)
    model = sr.model_scan_many([sr.scan_request(l, c) for (l, c) in cs])
    dis, fails = [], []
    nontrivial = set()
    dist = {"with_functions": 0, "measurements": 0, "errors": 0}
    for (lang, code), r, m in zip(cs, real, model):
        inp = {"language": lang, "code": code}
        if r != m:
            dis.append({"stream": "scan/%s" % lang, "input": inp, "model": m[:300], "impl": r[:300]})
        for b in oracle(lang, code, r):
            fails.append({"input": inp, "observed": r[:300], "required": b})
        d = sr.decode_scan(r)
        if d and d[0]:
            nontrivial.add((lang, code)); dist["with_functions"] += 1; dist["measurements"] += len(d[0])
        if d is None:
            dist["errors"] += 1
    for (lang, code) in cs[:ctx.pick(60, 600)]:
        try:
            loc, s = real_total(lang, code)
            if loc != s:
                fails.append({"input": {"language": lang, "code": code}, "observed": "loc=%d" % loc, "required": "file total = sum of lengths = %d" % s})
        except Exception as e:  # noqa
            fails.append({"input": {"language": lang, "code": code}, "observed": repr(e), "required": "_analyze_file completes"})
    return {
        "evaluations": len(cs), "distinct_nontrivial": len(nontrivial),
        "rule": "malformed stream (prefixes, suffixes, line/token deletions, duplications, swaps of canonical programs and corpus files; token soups over each language's lexical alphabet; deep nesting; tiny inputs) + canonical programs + vendored corpus; non-trivial = distinct inputs with at least one reported measurement",
        "samples": [{"language": l, "code": c[:120], "impl": r[:120]} for (l, c), r in list(zip(cs, real))[100:103]],
        "exhaustive": False, "distribution": dist,
        "disagreements": dis[:50], "oracle_failures": fails[:50],
    }


def search(ctx, hints):
    cs = [(h["language"], h["code"]) for h in hints or [] if h] + list(REGRESS) + scan_streams.soups(ctx, 6000, "c05search") + scan_streams.corpus_cases()
    real = sr.real_scan_many(cs)
    fails = []
    for (lang, code), r in zip(cs, real):
        for b in oracle(lang, code, r):
            fails.append({"input": {"language": lang, "code": code}, "observed": r[:300], "required": b})
    fails.sort(key=lambda f: len(f["input"]["code"]))
    return fails[:10]


def replay(payload):
    inp = payload["input"]
    r = sr.real_scan(inp["language"], inp["code"])
    bad = oracle(inp["language"], inp["code"], r)
    print("%s %r -> %s; %s" % (inp["language"], inp["code"][:80], r[:120], bad or "ok"))
    return not bad
