"""C03 - analysis is total: no file content makes scan or check fail or hang.

Tie: Props/C03.lean proves that the model of the whole pipeline never reaches an error for any
token list (using C15 for the matcher and index-bound invariants for the rest); the model is
tied to the code on the malformed stream. Runtime parts the model cannot exhibit (Pygments
itself, decoding, path handling, the CLI) are exercised directly: in-process analysis of every
malformed input, and subprocess runs of `python -m codelimit scan|check` on trees of such files
named in every way (relative, absolute, via directory, from another working directory)."""
import os
import shutil
import subprocess
import sys
import tempfile
import time

sys.path.insert(0, os.path.dirname(os.path.dirname(os.path.abspath(__file__))))
import common
import scan_real as sr
import scan_streams
from props import C15

ID = "C03"
SHRINKABLE = True     # replay() re-evaluates the oracle from the input alone
TRUSTED = [
    "correspondence harness (harness/props/C03.py, scan_real.py, scan_streams.py)",
    "translator/patterns.py (shipped header patterns -> Gen/Languages.lean)",
    "modelled, not verified (partial): Pygments' own running time and exceptions, OS errors, CPython's recursion limit - exercised by the malformed stream and the CLI runs, not proved",
]
ASSUMPTIONS = ["the Pygments lexers terminate and do not raise (observed on every explored input)"]
regen = C15.regen
REGRESS = [("Python", "def f("), ("Python", "def f()"), ("JavaScript", "const f = (cb = () => 0) => {\n}\n"),
           ("TypeScript", "x = (a.map(y => y))\n"), ("Python", "def o():\n  def f():\n      def\n  g():\n    pass\n")]
TIME_LIMIT = 20.0


def all_cuts(ctx):
    """EVERY prefix and EVERY suffix of a few canonical programs per language (the property
    quantifies over all of them; random cuts alone miss e.g. a cut inside a return annotation)"""
    out = []
    for (lang, text, _) in scan_streams.canonical(ctx, ctx.pick(2, 12), "c03cuts"):
        if len(text) > 1500:
            text = text[:1500]
        for i in range(len(text) + 1):
            out.append((lang, text[:i]))
        for i in range(1, len(text)):
            out.append((lang, text[i:]))
    # member positions: programs made of every kind of body a brace language has, with header-shaped members directly
    # after `{`, after `,`, after `;` and after `}`, with and without modifiers (modifier-less constructors as first
    # member, enum constants with arguments and class bodies, object-literal methods): every prefix and suffix that is cut
    # at a token boundary
    from gen import programs
    rnd = ctx.rng("c03members")
    for lang in sorted(programs.MEMBER_CONTAINERS):
        for _ in range(ctx.pick(1, 8)):
            text = programs.member_program(lang, rnd, ctx.pick(3, None))
            cuts = [i for i in range(1, len(text)) if not (text[i - 1].isalnum() and text[i].isalnum()) and not (text[i - 1] == " " and text[i] == " ")]
            out.append((lang, text))
            for i in cuts:
                out.append((lang, text[:i]))
                out.append((lang, text[i:]))
                ctx._c03members = getattr(ctx, "_c03members", 0) + 2
    return out


def long_cases(ctx):
    """single-line ladder: files of 10^2 .. 3.2 * 10^6 characters on one line (without any newline, with a final one, as
    second line), every second rung in the quick tier; the shapes whose token count grows with the size up to 10^5 / 10^6"""
    if getattr(ctx, "_c03long", None) is None:
        light = scan_streams.rungs(100, 10 ** 4, True) + ctx.pick([10 ** 5, 10 ** 6, 3162278], scan_streams.rungs(31623, 3162278))
        heavy = scan_streams.rungs(100, 10 ** 4, True) + ctx.pick([10 ** 5], scan_streams.rungs(31623, 10 ** 6))
        ctx._c03long = scan_streams.long_lines(ctx, light, heavy, per_rung=ctx.pick(2, 7), salt="c03long", full_upto=100)
    return ctx._c03long


def long_limit(chars):
    """time limit for ONE single-line input of that many characters: far above 60 x the time the pinned tree needs
    (about 3 microseconds per character for the shapes of the ladder)"""
    return 60.0 + chars / 2000.0


def _long_work(desc):
    return scan_streams._guarded_work(([(desc["language"], scan_streams.long_text(desc))], long_limit(desc["chars"])))[0][:200]


def comment_cases(ctx):
    """small programs around ONE comment whose text is put together from the syntax of many languages, rulers on a ladder
    of lengths, the string literals of the code under check and - when the source applies a regular expression that the
    pinned source does not have - the literal runs of that expression mixed with long runs of each of its characters
    (what a backtracking matcher chokes on); as line comment above / behind the header / in the body, and (brace
    languages) as block comment on one line or over several lines"""
    rnd = ctx.rng("c03comments")
    pumps = scan_streams.regex_pump_texts(rnd, ctx.pick(30, 120))
    texts = pumps + [scan_streams.comment_text(rnd) for _ in range(ctx.pick(150, 1500))]
    out = []
    for i, body in enumerate(texts):
        lang = sr.LANGS[i % len(sr.LANGS)] if i >= len(pumps) else rnd.choice(sr.LANGS)
        py = lang == "Python"
        wrap = ("class K {\n", "}\n") if lang in ("Java", "C#") else ("", "")
        k = rnd.random()
        if py or k < 0.5:
            c = ("# " if py else "// ") + body
        elif k < 0.8:
            c = "/* " + body.replace("*/", "* /") + " */"
        else:
            words = body.replace("*/", "* /").split(" ")
            cut = sorted(rnd.sample(range(len(words) + 1), min(2, len(words) + 1)))
            c = "/* " + " ".join(words[:cut[0]]) + "\n * " + " ".join(words[cut[0]:cut[-1]]) + "\n * " + " ".join(words[cut[-1]:]) + " */"
        head, stmt, tail = ("def f(a):", "    x = 1", "") if py else ("function f(a) {" if lang in ("JavaScript", "TypeScript") else "void f(int a) {", "  x = 1;", "}\n")
        where = rnd.random()
        if where < 0.4:
            text = wrap[0] + c + "\n" + head + "\n" + stmt + "\n" + tail + wrap[1]
        elif where < 0.7 and "\n" not in c:
            text = wrap[0] + head + "  " + c + "\n" + stmt + "\n" + tail + wrap[1]
        else:
            text = wrap[0] + head + "\n" + stmt + "\n" + ("    " if py else "  ") + c + "\n" + stmt + "\n" + tail + wrap[1]
        out.append((lang, text))
    return out, len(pumps)


def explain(lang, code):
    """the exception behind an `err n` reply, in words (for the replay file)"""
    from codelimit.common.lexer_utils import lex
    from codelimit.common.Scanner import scan_file
    from codelimit.languages import Languages
    try:
        scan_file(lex(sr.lexer_for(lang), code, False), Languages.by_name[lang])
        return "no exception"
    except BaseException as e:  # noqa
        import traceback
        tb = traceback.extract_tb(e.__traceback__)[-1]
        return "%s: %s (%s:%d %s)" % (type(e).__name__, str(e)[:120], os.path.basename(tb.filename), tb.lineno, tb.name)


def cases(ctx):
    out = list(REGRESS) + scan_streams.soups(ctx, ctx.pick(2000, 50000), "c03soup") + all_cuts(ctx)
    # configuration variants of a share of the malformed stream: byte order mark, no newline at all, Unicode separators
    out += scan_streams.decorate(ctx, out, ctx.pick(0.03, 0.06), "c03decor")
    rnd = ctx.rng("deep")
    for lang in sr.LANGS:
        d = ctx.pick(400, 1200)     # functions nested deeper than any interpreter recursion budget a per-level recursion could afford
        if lang == "Python":
            out.append((lang, "".join("%sdef f%d():\n" % (" " * i, i) for i in range(d)) + " " * d + "pass\n"))
        else:
            out.append((lang, "".join("void f%d() {\n" % i for i in range(d)) + "x;\n" + "}\n" * d))
        out.append((lang, "f(" * d))
        out.append((lang, "{" * d + "}" * (d // 2)))
    return [(l, t) for (l, t) in out if "\r" not in t]


def write_bytes(path, data):
    with open(path, "wb") as f:
        f.write(data)


def cli_runs(ctx):
    """subprocess runs of the real CLI; returns (runs, failures)"""
    rnd = ctx.rng("cli")
    root = tempfile.mkdtemp(prefix="c03_")
    other = tempfile.mkdtemp(prefix="c03cwd_")
    fails, runs = [], []
    try:
        os.makedirs(os.path.join(root, "src", "pkg"))
        files = []
        soups = scan_streams.soups(ctx, ctx.pick(30, 200), "c03cli")
        for i, (lang, text) in enumerate(soups):
            rel = os.path.join("src", "pkg" if i % 2 else "", "m%03d.%s" % (i, sr.EXT[lang]))
            write_bytes(os.path.join(root, rel), text.encode("utf-8", "surrogatepass") if rnd.random() < 0.9 else text.encode("latin-1", "replace"))
            files.append(rel)
        for j, lang in enumerate(sr.LANGS):   # not valid UTF-8
            rel = os.path.join("src", "bin%d.%s" % (j, sr.EXT[lang]))
            write_bytes(os.path.join(root, rel), b"int f() {\n  return 1; // caf\xe9 \xff\xfe\n}\n" if lang != "Python" else b"def f():\n    return 1  # caf\xe9 \xff\n")
            files.append(rel)
        # encoding declarations (PEP 263 / editor modelines): known, unknown, half-typed, contradicting the bytes
        for j, decl in enumerate([b"# -*- coding: latin-1 -*-", b"# -*- coding: utf-8-unix -*-", b"# coding: rot13", b"# -*- coding: utf-16 -*-",
                                  b"# vim: set fileencoding=cp1252 :", b"# -*- coding: ut", b"#!/usr/bin/python\n# -*- coding: future_fstrings -*-",
                                  b"# -*- coding: ascii -*-"]):
            rel = os.path.join("src", "enc%d.py" % j)
            write_bytes(os.path.join(root, rel), decl + (b"\ndef f(a):\n    return 'caf\xc3\xa9'\n" if j != 5 else b""))
            files.append(rel)
        write_bytes(os.path.join(root, "src", "empty.py"), b"")
        files.append(os.path.join("src", "empty.py"))
        # well-formed files with a hard-to-maintain and an unmaintainable function: `check` only
        # formats paths (and exits 1) for functions that are actually listed
        from gen import programs
        longs = []
        for j, lang in enumerate(sr.LANGS):
            for n in (35, 70):
                o = programs.generate(lang, rnd, sweep=n)
                rel = os.path.join("src", "pkg" if j % 2 else "", "long%d_%d.%s" % (j, n, sr.EXT[lang]))
                write_bytes(os.path.join(root, rel), o.text(True).encode("utf-8"))
                files.append(rel); longs.append(rel)
        # files of 2-4 long functions whose names are drawn with replacement from a small pool (overloads, the same method
        # in two classes): equal names and equal lengths among the functions that `check` lists
        twins = []
        for j, lang in enumerate(sr.LANGS):
            for n in (31, 61):
                o = scan_streams.named_program(lang, rnd, pool_size=1, sweep=n, count=rnd.randint(2, 4), name_share=0.85)
                rel = os.path.join("src", "pkg" if j % 2 else "", "twin%d_%d.%s" % (j, n, sr.EXT[lang]))
                write_bytes(os.path.join(root, rel), o.text(True).encode("utf-8"))
                files.append(rel); twins.append(rel)
        env = dict(os.environ, PYTHONPATH=common.REPO, COLUMNS="200")
        py = sys.executable
        plan = [(root, ["scan", "."]), (other, ["scan", root]), (root, ["check", "."]), (root, ["check", "src"]),
                (root, ["check", os.path.join(root, "src")]), (other, ["check", root]), (other, ["check", os.path.join(root, "src", "pkg")]),
                (os.path.join(root, "src"), ["check", "../src/pkg"]), (root, ["check", "--quiet", "src"]),
                (root, ["check", "--verbose", "src"])]      # configuration variant: Configuration.verbose (every file name goes through logging)
        sample = rnd.sample(files, min(len(files), ctx.pick(12, 120))) + rnd.sample(longs, ctx.pick(4, 14)) + twins
        for rel in rnd.sample(longs, 3):     # every way of naming a file with listed functions
            plan += [(root, ["check", rel]), (other, ["check", os.path.join(root, rel)]),
                     (os.path.join(root, "src"), ["check", os.path.relpath(os.path.join(root, rel), os.path.join(root, "src"))])]
        for rel in sample:
            k = rnd.random()
            if k < 0.4:
                plan.append((root, ["check", rel]))
            elif k < 0.7:
                plan.append((other, ["check", os.path.join(root, rel)]))
            elif k < 0.85:
                plan.append((os.path.join(root, "src"), ["check", os.path.relpath(os.path.join(root, rel), os.path.join(root, "src"))]))
            else:
                plan.append((root, ["check", rel, os.path.join(root, rel)]))
        from concurrent.futures import ThreadPoolExecutor

        def one(item):
            cwd, args = item
            t0 = time.time()
            try:
                p = subprocess.run([py, "-m", "codelimit"] + args, cwd=cwd, env=env, capture_output=True, text=True, timeout=120)
                full = p.stdout + p.stderr
                tb = "Traceback" in full or "Error" in full.split("\n")[-2:][0] if full.strip() else False
                return (cwd, args, p.returncode, ("[traceback] " if tb else "") + full[-1500:], time.time() - t0)
            except subprocess.TimeoutExpired:
                return (cwd, args, "timeout", "", 120.0)
        # the two scans write the same cache file: run them one after the other, then the
        # read-only check runs in parallel
        results = [one(item) for item in plan if item[1][0] == "scan"]
        with ThreadPoolExecutor(max_workers=16) as ex:
            results += list(ex.map(one, [item for item in plan if item[1][0] != "scan"]))
        for (cwd, args, rc, out, dt) in results:
            runs.append({"cwd": os.path.relpath(cwd, os.path.dirname(root)), "args": [a.replace(root, "<root>") for a in args], "rc": rc, "s": round(dt, 1)})
            ok = rc in (0, 1) and "Traceback" not in out and not out.startswith("[traceback]")
            # files generated with one function of 35 (70) lines must give exit status 0 (1)
            named = [a for a in args[1:] if "long" in os.path.basename(a) or "twin" in os.path.basename(a)]
            if ok and args[0] == "check" and named and len(named) == len([a for a in args[1:] if not a.startswith("--")]):
                want = 1 if any("_70." in a or "_61." in a for a in named) else 0
                if rc != want:
                    ok = False; out = "exit status %s, expected %d. " % (rc, want) + out
            if args[0] == "scan" and ok and rc != 0:
                ok = False
            if args[0] == "scan" and ok:
                rp = os.path.join(root, ".codelimit_cache", "codelimit.json")
                if not os.path.exists(rp):
                    ok = False; out += " [no report written]"
            if not ok:
                # keep a self-contained replay: the files named by the run
                blob = {}
                for rel in files:
                    if any(rel in a or a in (".", "src", root, os.path.join(root, "src")) or "pkg" in a for a in args):
                        try:
                            blob[rel] = open(os.path.join(root, rel), "rb").read().decode("latin-1")
                        except OSError:
                            pass
                fails.append({"input": {"stream": "cli", "cwd_kind": "root" if cwd == root else ("other" if cwd == other else "src"),
                                        "args": [a.replace(root, "<root>") for a in args], "files_latin1": blob if len(blob) <= 40 else dict(list(blob.items())[:40])},
                              "observed": "exit %s: %s" % (rc, out[-600:]), "required": "completes with exit status 0 or 1 (scan: 0 and a report), no traceback"})
    finally:
        shutil.rmtree(root, ignore_errors=True)
        shutil.rmtree(other, ignore_errors=True)
    fails.sort(key=lambda f: len(f["input"]["files_latin1"]))        # runs that name ONE file first
    return runs, fails


def cli_long_runs(ctx):
    """`codelimit scan .`, `check .` and `check <file>` on a tree holding one single-line file per upper rung of the ladder"""
    descs = [d for (_, _, d) in long_cases(ctx) if d["chars"] >= 10 ** 4 and d["shape"] in ("literal", "comment", "fn")]
    rnd = ctx.rng("clilong")
    by_size = {}
    for d in descs:
        by_size.setdefault(d["chars"], []).append(d)
    chosen = [rnd.choice(v) for (_, v) in sorted(by_size.items())]
    chosen += [dict(rnd.choice(v), bom=True) for (k, v) in sorted(by_size.items()) if k == 10 ** 5]
    root = tempfile.mkdtemp(prefix="c03long_")
    runs, fails = [], []
    try:
        files = {}
        for i, d in enumerate(chosen):
            rel = "long%d_%d.%s" % (i, d["chars"], sr.EXT[d["language"]])
            write_bytes(os.path.join(root, rel), scan_streams.long_text(d).encode("utf-8"))
            files[rel] = d
        env = dict(os.environ, PYTHONPATH=common.REPO, COLUMNS="200")
        plan = [["check", rel] for rel in files] + [["check", "."], ["scan", "."]]

        def one(args):
            t0 = time.time()
            try:
                p = subprocess.run([sys.executable, "-m", "codelimit"] + args, cwd=root, env=env, capture_output=True, text=True, timeout=300)
                return args, p.returncode, (p.stdout + p.stderr)[-1200:], time.time() - t0
            except subprocess.TimeoutExpired:
                return args, "timeout", "", 300.0
        from concurrent.futures import ThreadPoolExecutor
        with ThreadPoolExecutor(max_workers=8) as ex:
            results = list(ex.map(one, plan))
        results.append(one(["scan", "--verbose", "."]))     # second scan of the same tree (reads the report just written), verbose
        for (args, rc, out, dt) in results:
            runs.append({"cwd": "long", "args": args, "rc": rc, "s": round(dt, 1)})
            ok = rc in (0, 1) and "Traceback" not in out
            if args[0] == "scan" and ok and (rc != 0 or not os.path.exists(os.path.join(root, ".codelimit_cache", "codelimit.json"))):
                ok = False; out += " [exit status %s / no report written]" % rc
            if not ok:
                named = {rel: d for rel, d in files.items() if rel in args} or files
                fails.append({"input": {"stream": "cli-long", "args": args, "files": named},
                              "observed": "exit %s: %s" % (rc, out[-600:]), "required": "completes with exit status 0 or 1 (scan: 0 and a report), no traceback"})
    finally:
        shutil.rmtree(root, ignore_errors=True)
    fails.sort(key=lambda f: (len(f["input"]["files"]), max(d["chars"] for d in f["input"]["files"].values())))
    return runs, fails[:3]


def novel_word_cases(ctx):
    """every sequence of up to three (thorough: four) items over {words that are NEW in the source of the code under
    check (harness/gen/srcdict.py), `(`, `)`, `{`} placed in the slots of a function definition of each language: between
    the parameter list and the body, and inside the parameter list.  A keyword that a change teaches a header pattern
    (`noexcept`, `throws`, `where`, ...) is exercised in every order and nesting with its neighbours, truncations
    included.  Empty on the pinned tree."""
    import itertools
    from gen import srcdict
    novel = [w for w in srcdict.words(novel_only=True) if w.isidentifier() and w.isascii()][:8]
    if not novel:
        return []
    alphabet = novel + ["(", ")", "{"]
    out = []
    heads = {"C": ("int f(int a", ") ", "{\n  x = 1;\n}\n"), "C++": ("int f(int a", ") ", "{\n  x = 1;\n}\n"),
             "C#": ("class K {\n  int f(int a", ") ", "{\n    x = 1;\n  }\n}\n"), "Java": ("class K {\n  int f(int a", ") ", "{\n    x = 1;\n  }\n}\n"),
             "JavaScript": ("function f(a", ") ", "{\n  x = 1;\n}\n"), "TypeScript": ("function f(a: number", ") ", "{\n  x = 1;\n}\n"),
             "Python": ("def f(a", ") ", ":\n    x = 1\n")}
    for lang in sr.LANGS:
        a, b, c = heads[lang]
        for k in range(1, ctx.pick(3, 4) + 1):
            for seq in itertools.product(alphabet, repeat=k):
                if not any(w in novel for w in seq):
                    continue
                mid = " ".join(seq)
                out.append((lang, a + b + mid + " " + c))
                if k <= 2:
                    out.append((lang, a + ", " + mid + b + c))
    return out


def timed_real(cs):
    """in-process analysis with a wall-clock limit per input: a reply `hang <N>` = no result within N seconds (the pinned
    tree needs well under N/60 s for every input of these streams: texts of at most a few thousand characters)"""
    return scan_streams.guarded_scan_many(cs, TIME_LIMIT)


def hang_failure(inp, r):
    return {"input": dict(inp, time_limit_s=float(r.split()[1])), "observed": "no result after %s s" % r.split()[1],
            "required": "analysing the text terminates (does not terminate within %s s; the pinned tree needs milliseconds)" % r.split()[1]}


def long_failures(ctx, dist=None, started=None):
    jobs = sorted((d for (_, _, d) in long_cases(ctx)), key=lambda d: -d["chars"])
    fails = []
    for d, r in zip(jobs, (started or scan_streams.Heavy(_long_work, jobs)).results()):
        if dist is not None:
            dist["long_lines"][str(d["chars"])] = dist["long_lines"].get(str(d["chars"]), 0) + 1
        if r.startswith("hang"):
            fails.append(hang_failure(d, r))
        if r.startswith("err"):
            fails.append({"input": dict(d), "observed": r + " = " + explain(d["language"], scan_streams.long_text(d)), "required": "a (possibly empty) list of measurements"})
    fails.sort(key=lambda f: f["input"]["chars"])
    for f in [f for f in fails if "time_limit_s" not in f["input"]][:2]:
        # smallest size of this shape that still fails (bisection below the failing rung)
        d = f["input"]
        small = scan_streams.bisect_size(lambda k, d=d: _long_work(dict(d, chars=k)).startswith("err"), 0, d["chars"])
        r = _long_work(dict(d, chars=small))
        if r.startswith("err"):
            f.update({"input": dict(d, chars=small, found_at_chars=d["chars"]), "observed": r + " = " + explain(d["language"], scan_streams.long_text(dict(d, chars=small)))})
    fails.sort(key=lambda f: f["input"]["chars"])
    return len(jobs), fails[:6]


# ---- file names without a language extension x every prefix of a first line --------------------------------------------

FIRST_LINES = ["#!/usr/bin/env python3", "#!/usr/bin/python", "#! /usr/bin/env node", "#!/usr/bin/env -S ts-node --files", "#!/bin/sh", "# -*- coding: utf-8 -*-",
               "<?php", "<?xml version='1.0'?>", "%!PS-Adobe", "@echo off", "// @ts-check", "/* eslint-disable */", "\ufeff#!/usr/bin/env python"]


def first_line_files(ctx):
    """-> [(file name, bytes)]: names Pygments maps to NO lexer (no extension, hidden, trailing dot; plain words and the
    string literals new in the source) and, as controls, names of the seven languages; contents: every prefix of a first
    line (interpreter lines, encoding / mode lines, lines built from the words new in the source: `#!w`, `#!/usr/bin/w`,
    `#!/usr/bin/env w`), alone, with a line end (LF, CR LF, blank + LF) and followed by a small program"""
    from gen import names as gnames
    from gen import srcdict
    rnd = ctx.rng("c03firstline")
    novel = [w for w in srcdict.words(novel_only=True) if w.strip() and w.isprintable() and "/" not in w][:12]
    lines = list(FIRST_LINES)
    for w in novel:
        lines += ["#!" + w, "#!/usr/bin/" + w, "#!/usr/bin/env " + w, w, w + " " + rnd.choice(novel)]
    names = ["release", "deploy", "run-tests", "noext_", ".hidden", "tool.", "README", "LICENSE"] + [w for w in novel if w.replace("-", "").replace("_", "").isalnum()][:6]
    names = [n for n in names if gnames.resolves_to(n) is None]
    controls = ["unit." + sr.EXT[l] for l in sr.LANGS]
    bodies = {"py": "def f(a):\n    return a\n", "js": "function f(a) {\n  return a;\n}\n"}
    contents = []
    for line in lines:
        for k in range(len(line) + 1):
            p = line[:k]
            contents += [p, p + "\n", p + rnd.choice(["\r\n", " \n", "\t\n", "\n\n"]) + rnd.choice(list(bodies.values()))]
    contents = sorted(set(contents))
    if len(contents) > ctx.pick(1500, 20000):
        contents = rnd.sample(contents, ctx.pick(1500, 20000))
    out = []
    for i, c in enumerate(contents):
        out.append((names[i % len(names)], c.encode("utf-8")))
        if i % 7 == 0:
            out.append((rnd.choice(names), c.encode("utf-8")))
        if i % 10 == 0:
            out.append((rnd.choice(controls), c.encode("utf-8")))
    return out


def first_line_failures(ctx, dist=None):
    """all files in one tree (one directory each): Scanner.scan_path completes, commands.check.check_file completes on each;
    a failing scan is narrowed to one file"""
    import file_front as ff
    files = first_line_files(ctx)
    fails = []
    with ff.Tree("c03first_") as tree:
        for i, (name, data) in enumerate(files):
            tree.write(os.path.join("d%05d" % i, name), data)
        cb, err = tree.scan()
        if err:
            hit = None
            for i, (name, data) in enumerate(files):
                cb1, err1 = tree.scan(None, os.path.join(tree.root, "d%05d" % i))
                if err1:
                    hit = (name, data, err1)
                    if len(fails) >= 5:
                        break
                    fails.append({"input": {"stream": "first-line", "name": name, "content_latin1": data.decode("latin-1"), "through": "scan_path"}, "observed": "scan_path: " + err1,
                                  "required": "a scan of a tree containing the file completes"})
            if hit is None:
                fails.append({"input": {"stream": "first-line", "files": len(files)}, "observed": "scan_path: " + err, "required": "a scan of the tree completes"})
        for i, (name, data) in enumerate(files):
            res, err2 = ff.check_file_risks(os.path.join(tree.root, "d%05d" % i, name))
            if err2 and sum(1 for f in fails if f["input"].get("through") == "check_file") < 5:
                fails.append({"input": {"stream": "first-line", "name": name, "content_latin1": data.decode("latin-1"), "through": "check_file"}, "observed": "check_file: " + err2,
                              "required": "check on the file completes"})
    fails.sort(key=lambda f: len(f["input"].get("content_latin1", "x" * 999)))
    if dist is not None:
        dist["first_line_files"] = {"files": len(files), "names_without_a_lexer": len({n for (n, _) in files if "unit." not in n})}
    return len(files), fails


def _correspond_main(ctx):
    cs = cases(ctx)
    ccs, npumps = comment_cases(ctx)
    cs += ccs
    nws = novel_word_cases(ctx)
    cs += nws
    heavy = scan_streams.Heavy(_long_work, sorted((d for (_, _, d) in long_cases(ctx)), key=lambda d: -d["chars"]))
    t0 = time.time()
    real = timed_real(cs)
    dt = time.time() - t0
    small = [(l, c) for (l, c) in cs if len(c) < 20000]
    model = dict(zip(small, sr.model_scan_many([sr.scan_request(l, c) for (l, c) in small])))
    dis, fails = [], []
    nontrivial = set()
    dist = {"errors": {}, "with_functions": 0, "in_process_seconds": round(dt, 1)}
    for (lang, code), r in zip(cs, real):
        inp = {"stream": "text", "language": lang, "code": code}
        m = model.get((lang, code))
        if m is not None and r != m and not (r == "err 8" and len(code) > 5000):
            dis.append({"stream": "scan/%s" % lang, "input": inp, "model": m[:300], "impl": r[:300]})
        if r.startswith("hang"):
            dist["errors"]["hang"] = dist["errors"].get("hang", 0) + 1
            fails.append(hang_failure(inp, r))
        elif r.startswith("err"):
            dist["errors"][r] = dist["errors"].get(r, 0) + 1
            fails.append({"input": inp, "observed": r, "required": "a (possibly empty) list of measurements"})
        else:
            nontrivial.add((lang, code))
            if not r.startswith("ok 0 "):
                dist["with_functions"] += 1
    dist["long_lines"] = {}
    nlong, lfails = long_failures(ctx, dist, heavy)
    fails = lfails + fails
    nfirst, ffails = first_line_failures(ctx, dist)
    fails = ffails[:6] + fails
    nlong += nfirst
    runs, cfails = cli_runs(ctx)
    fails += cfails
    lruns, lcfails = cli_long_runs(ctx)
    runs += lruns
    fails += lcfails
    dist["sequences_of_words_new_in_the_source_in_header_slots"] = len(nws)
    dist["comment_texts"] = {"programs": len(ccs), "aimed_at_regular_expressions_new_in_the_source": npumps, "time_limit_s": TIME_LIMIT}
    dist["member_position_cuts"] = getattr(ctx, "_c03members", 0)
    dist["byte_order_mark"] = sum(1 for (_, c) in cs if c.startswith(scan_streams.BOM))
    dist["without_any_newline"] = sum(1 for (_, c) in cs if "\n" not in c)
    return {
        "evaluations": len(cs) + len(runs) + nlong, "distinct_nontrivial": len(nontrivial) + len(runs) + nlong,
        "rule": "MEMBER POSITIONS: per brace language programs made of every kind of body it has (type / enum / interface / record / namespace bodies, object literals, initialiser lists, anonymous classes), with header-shaped members directly after `{`, after `,`, after `;` and after `}`, with and without modifiers or return types (modifier-less constructors as first member, enum constants with arguments and nested class bodies, object-literal methods), and every prefix and suffix of them cut at a token boundary; FIRST LINES: files whose NAME Pygments maps to no lexer (no extension, hidden, trailing dot, the string literals new in the source as names; controls named for the seven languages) x every prefix of a first line (interpreter lines `#!...python/node/ts-node/sh`, `env` forms, encoding / mode lines, a byte order mark, lines built from the words new in the source), alone / with LF / CR LF / blank + LF / followed by a small program, in one tree through Scanner.scan_path and one by one through commands.check.check_file; every in-process analysis runs under a time limit (20 s per text of the small streams, 60 s + 0.5 ms per character on the single-line ladder; no result in time = the property's `hang`); comment stream: small programs around one comment put together from the syntax of many languages, rulers of 3 .. 100 characters, string literals of the code under check and, for regular expressions new in the source, their literal runs mixed with long runs of each of their characters; words that are new in the source: every sequence of up to 3 (thorough: 4) of them and ( ) { between parameter list and body / inside the parameter list of a function of each language; CLI tree: also files of 2-4 long functions whose names are drawn with replacement (same name, same length); single-line ladder: files of 10^2 .. 3.2*10^6 characters on ONE line (string literal, block comment followed by a function, short statements, one-line function; without any newline / with a final newline / as second line; a quarter behind a byte order mark) analysed in-process and, for a sample, through `codelimit scan|check` subprocesses; a share of the malformed stream behind a byte order mark / on one line / with a Unicode separator; malformed stream (every kind of prefix/suffix/edit of canonical programs and corpus files, token soups per language, tiny inputs, deep nesting up to the stated depth) analysed in-process, compared with the model; plus %d subprocess runs of `python -m codelimit scan|check` over a tree of such files incl. non-UTF-8 and empty files, named relatively, absolutely, via directories and from other working directories; non-trivial = inputs analysed to completion" % len(runs),
        "samples": [{"language": l, "code": c[:100], "impl": r[:80]} for (l, c), r in list(zip(cs, real))[7:10]] + runs[:4],
        "exhaustive": False, "distribution": dist,
        "disagreements": dis[:50], "oracle_failures": fails[:50],
    }


def search(ctx, hints):
    cs = [(h["language"], h["code"]) for h in hints or [] if h and h.get("stream") == "text" and "code" in h] + list(REGRESS) + scan_streams.soups(ctx, 8000, "c03search")
    cs += comment_cases(ctx)[0] + novel_word_cases(ctx)
    real = timed_real(cs)
    fails = [{"input": {"stream": "text", "language": l, "code": c}, "observed": r, "required": "a (possibly empty) list of measurements"}
             for (l, c), r in zip(cs, real) if r.startswith("err")]
    fails += [hang_failure({"stream": "text", "language": l, "code": c}, r) for (l, c), r in zip(cs, real) if r.startswith("hang")]
    fails.sort(key=lambda f: len(f["input"]["code"]))
    _, cf = cli_runs(ctx)
    return first_line_failures(ctx)[1][:3] + long_failures(ctx)[1][:3] + fails[:8] + cf[:4] + cli_long_runs(ctx)[1][:2]


def replay(payload):
    inp = payload["input"]
    if inp.get("stream") == "first-line" and "name" in inp:
        import file_front as ff
        with ff.Tree("c03first_") as tree:
            path = tree.write(os.path.join("d", inp["name"]), inp["content_latin1"].encode("latin-1"))
            cb, err = tree.scan()
            res, err2 = ff.check_file_risks(path)
        print("file %r with content %r -> scan_path: %s; check_file: %s" % (inp["name"], inp["content_latin1"][:80], err or "completes", err2 or "completes"))
        return not err and not err2
    if inp.get("stream") == "cli":
        root = tempfile.mkdtemp(prefix="c03r_")
        other = tempfile.mkdtemp(prefix="c03rc_")
        try:
            for rel, data in inp["files_latin1"].items():
                os.makedirs(os.path.dirname(os.path.join(root, rel)), exist_ok=True)
                write_bytes(os.path.join(root, rel), data.encode("latin-1"))
            cwd = {"root": root, "other": other, "src": os.path.join(root, "src")}[inp["cwd_kind"]]
            args = [a.replace("<root>", root) for a in inp["args"]]
            p = subprocess.run([sys.executable, "-m", "codelimit"] + args, cwd=cwd, env=dict(os.environ, PYTHONPATH=common.REPO), capture_output=True, text=True, timeout=120)
            print("exit", p.returncode, (p.stdout + p.stderr)[-400:])
            return p.returncode in (0, 1) and "Traceback" not in p.stdout + p.stderr
        finally:
            shutil.rmtree(root, ignore_errors=True); shutil.rmtree(other, ignore_errors=True)
    if inp.get("stream") == "cli-long":
        root = tempfile.mkdtemp(prefix="c03r_")
        try:
            for rel, d in inp["files"].items():
                write_bytes(os.path.join(root, rel), scan_streams.long_text(d).encode("utf-8"))
            p = subprocess.run([sys.executable, "-m", "codelimit"] + inp["args"], cwd=root, env=dict(os.environ, PYTHONPATH=common.REPO), capture_output=True, text=True, timeout=300)
            print("exit", p.returncode, (p.stdout + p.stderr)[-400:])
            return p.returncode in (0, 1) and "Traceback" not in p.stdout + p.stderr
        finally:
            shutil.rmtree(root, ignore_errors=True)
    code = scan_streams.long_text(inp) if inp.get("stream") == "long-line" else inp["code"]
    limit = long_limit(len(code)) if inp.get("stream") == "long-line" else float(inp.get("time_limit_s", TIME_LIMIT))
    r = scan_streams.guarded_scan_many([(inp["language"], code)], limit)[0]
    print("%s %r%s -> %s" % (inp["language"], code[:80], " ... (%d characters)" % len(code) if len(code) > 80 else "", r[:100]))
    return not r.startswith(("err", "hang"))


def correspond(ctx):
    """byte strings (all 1-4 byte UTF-8 boundary cases, invalid sequences, CR/CRLF, BOM) through the real Scanner._read_file vs Model/Decode.lean (Props/Gaps.lean part 4)"""
    import gaps_stream
    res = _correspond_main(ctx)
    dis, counts = gaps_stream.for_check(ctx, (4,), ctx.pick(3000, 22000), 'decode')
    res["disagreements"] = list(res["disagreements"]) + dis
    res["evaluations"] += sum(v.get(k, 0) for v in counts.values() if isinstance(v, dict)
                              for k in ("texts", "byte_files", "check_command_runs", "report_runs", "cases"))
    res["distribution"] = dict(res.get("distribution", {}), gaps=counts)
    res["rule"] += " PLUS byte strings (all 1-4 byte UTF-8 boundary cases, invalid sequences, CR/CRLF, BOM) through the real Scanner._read_file vs Model/Decode.lean (Props/Gaps.lean part 4)"
    return res
