"""C07 - totals, profiles and the folder tree always agree with the measurements.

Tie: Model/Codebase.lean (driver op `codebase`, `pathfn`) is compared with the real
`codelimit.common.Codebase` (add_file* then aggregate) on the same file lists, on the in-memory
object AND on `json.loads(ReportWriter(Report(cb)).to_json())["codebase"]`. The thresholds inside
the model are the generated `Gen/Logic.lean` (regenerated here).
Oracle: every number the property talks about is recomputed from the input list alone (no code
shared with codelimit or with the model) and compared with the real object.

Beyond the random path sets: SIZE LADDERS (folders 10^2 .. 10^5 flat and nested, in folder-by-folder,
file-name-by-file-name, reversed and shuffled insertion orders; nesting depth; files in one folder;
measurements in one file), UNUSUAL UNICODE components (not fixed under NFC / NFD / NFKC / NFKD, case pairs,
line separators, BOM ...) together with their twin spellings in the same folder, STATE PROBES (the same list
built a second time in the same process after the first codebase was modified; the same entry objects added to
two codebases) and CONFIGURATION variants (Configuration.repository / exclude / verbose set).

Round 5: the report DOCUMENTS are an observation point of the oracle (an unparsable or differing document is a failing
input); AWKWARD NAMES (harness/gen/names.py: backslash, quote, tab, glob characters; NFC / NFD twins; novel source
literals); HISTORIES add / query / add on one Codebase (read-only queries while the code base is being filled);
ladder rungs from the integer literals that are new in the source under check (harness/gen/srcdict.py); ladders over
the number of languages and of sub-folders of one folder.

Round 6: (a) the query schedule also asks questions AFTER aggregate() - every presentation function (print_report /
print_totals / print_summary / print_findings of both formats, SummaryTable, ScanResultTable) - before the object and the
documents are judged (a presentation call changes nothing); (b) SCAN HISTORIES (`harness/h4_round6.py`): working trees of
real source files whose function lengths are known by construction are scanned, edited (add / remove / copy / move /
modify / touch / exclude / remove a folder) and scanned again, through scan_command (judged: the report it writes into
the cache directory) and through Scanner.scan_path given the report read back from the cache (judged: the object, the
object after presentation queries, a second scan with the same cached report object, both documents)."""
import itertools
import os
import sys

sys.path.insert(0, os.path.dirname(os.path.dirname(os.path.abspath(__file__))))
sys.path.insert(0, os.path.join(os.path.dirname(os.path.dirname(os.path.dirname(os.path.abspath(__file__)))), "translator"))
import common
import logic
import h4_support as h4
import h4_round5 as r5
import h4_round6 as r6
import h4_round7 as r7
from gen import names as gnames
from gen import srcdict

ID = "C07"
TRUSTED = [
    "translator/logic.py (make_profile / make_count_profile thresholds -> Gen/Logic.lean, used inside the model)",
    "correspondence harness harness/props/C07.py (generator quality bounds what it sees)",
    "modelled, not verified: Python dict semantics (insertion order, overwrite in place), shared SourceFolder objects",
]
ASSUMPTIONS = [
    "paths do not start with './' (every other string is covered, including absolute paths, empty components, '.', '..' inside); os.path.sep is '/'",
    "the path list is duplicate-free (re-adding a path counts it twice; modelled and compared, outside the property)",
    "folder nesting stays below Python's recursion limit (add_folder / aggregate_folder recurse once per path component)",
    "aggregate is called exactly once (a second call adds every profile again; modelled, compared and recorded as an observation)",
    "a Measurement is represented by its value; loc and values are Python ints",
]
BOUNDARY = [14, 15, 16, 17, 29, 30, 31, 32, 59, 60, 61, 62]
LANGS = ["Python", "Java", "C", "TypeScript", "C++", "C#"]
NAMES = ["a", "b", "src", "lib", "x.py", "main.c", "a.b", "..", "é", "漢字", "t est", "A", "q\"uo", "b\\s", "...", ".h"]


def regen(ctx):
    try:
        text = logic.translate(common.REPO)
    except logic.Refuse as e:
        return [str(e)]
    common.write_if_changed(os.path.join(common.LEAN, "CodeLimit", "Gen", "Logic.lean"), text)
    return []


# ------------------------------------------------------------------ encoding

def enc_str(s):
    return "%d%s" % (len(s), "".join(" %d" % ord(c) for c in s))


def request(files, naggr=1):
    return "codebase %d %d%s" % (naggr, len(files), "".join(
        " %s %s %d %d%s" % (enc_str(p), enc_str(lang), loc, len(ms), "".join(" %d" % v for v in ms))
        for (p, lang, loc, ms) in files))


def _nums(vs):
    """` a b c d` for a profile; tolerant of a list of the wrong length or with non-integers (an observation, not a crash)"""
    return "".join(" %d" % v if isinstance(v, int) else " " + repr(v) for v in vs)


def fmt_main(s):
    return "ok L %d%s T %d%s F %d%s" % (
        len(s["totals"]), "".join(" %s %d %d %d %d %d" % ((enc_str(t[0]),) + tuple(t[1:])) for t in s["totals"]),
        len(s["tree"]), "".join(" %s %d%s%s" % (enc_str(k), len(es), "".join(" %d %s" % (d, enc_str(n)) for d, n in es), _nums(pr))
                                for k, es, pr in s["tree"]),
        len(s["files"]), "".join(" %s %s %d%s %d%s" % (enc_str(p), enc_str(lang), loc, _nums(pr), len(ms), "".join(" %d" % v for v in ms))
                                 for p, lang, loc, pr, ms in s["files"]))


def fmt_extra(s):
    return " G " + " ".join("%d" % v for v in s["grand"])


# ------------------------------------------------------------------ the real code

def build_real(files, naggr=1):
    from codelimit.common.Codebase import Codebase
    from codelimit.common.Location import Location
    from codelimit.common.Measurement import Measurement
    from codelimit.common.SourceFileEntry import SourceFileEntry
    cb = Codebase("/root")
    for (p, lang, loc, ms) in files:
        cb.add_file(SourceFileEntry(p, "c0ffee", lang, loc,
                                    [Measurement("f%d" % i, Location(i + 1, 1), Location(i + 2, 1), v) for i, v in enumerate(ms)]))
    for _ in range(naggr):
        cb.aggregate()
    return cb


def snap_object(cb):
    from codelimit.common.ScanTotals import ScanTotals
    from codelimit.common.report.Report import Report
    st = ScanTotals(cb.totals)
    # the way scan_codebase collects totals: a default-constructed ScanTotals fed entry by entry
    live = ScanTotals()
    for e in cb.files.values():
        live.add(e)
    return {
        "live": sorted((k, t.files, t.loc, t.functions, t.hard_to_maintain, t.unmaintainable) for k, t in live._languages_totals.items()),
        "live_grand": [live.total_files(), live.total_functions(), live.total_loc(), live.total_hard_to_maintain(), live.total_unmaintainable()],
        "totals": [(k, t.files, t.loc, t.functions, t.hard_to_maintain, t.unmaintainable) for k, t in cb.totals.items()],
        "tree": [(k, [(1 if e.is_folder() else 0, e.name) for e in f.entries], list(f.profile)) for k, f in cb.tree.items()],
        "files": [(k, e.language, e.loc, list(e.profile()), [m.value for m in e.measurements()]) for k, e in cb.files.items()],
        "grand": [st.total_files(), st.total_functions(), st.total_loc(), st.total_hard_to_maintain(), st.total_unmaintainable(),
                  cb.total_loc()] + list(Report(cb).quality_profile()),
    }


def snap_json(cb):
    import json
    from codelimit.common.report.Report import Report
    from codelimit.common.report.ReportWriter import ReportWriter
    out = []
    for pretty in (True, False):
        text = ReportWriter(Report(cb), pretty).to_json()
        try:
            doc = json.loads(text)["codebase"]
        except ValueError as e:
            # an observation, not a crash of the harness: the failing input is reported with it
            out.append({"invalid": "the %s report document is not valid JSON (%s)" % ("pretty" if pretty else "compact", e)})
            continue
        out.append({
            "totals": [(k, t["files"], t["lines_of_code"], t["functions"], t["hard_to_maintain"], t["unmaintainable"]) for k, t in doc["totals"].items()],
            "tree": [(k, [(1 if n.endswith("/") else 0, n) for n in f["entries"]], f["profile"]) for k, f in doc["tree"].items()],
            "files": [(k, e["language"], e["loc"], e["profile"], [m["value"] for m in e["measurements"]]) for k, e in doc["files"].items()],
        })
    return out


def run_real(files, naggr=1):
    """-> (reply line as the driver formats it, reply from JSON pretty, reply from JSON compact, snapshot or None)"""
    lim = sys.getrecursionlimit()
    try:
        sys.setrecursionlimit(400)
        try:
            cb = build_real(files, naggr)
        finally:
            sys.setrecursionlimit(lim)
    except KeyError:
        return "err 7", None, None, None
    except RecursionError:
        return "err 6", None, None, None
    s = snap_object(cb)
    js = snap_json(cb)
    LAST_JSON[:] = js
    return fmt_main(s) + fmt_extra(s), fmt_json(js[0]), fmt_json(js[1]), s


LAST_JSON = []       # the two JSON views of the last run_real (for the oracle on the document)


def fmt_json(j):
    return "invalid-json: " + j["invalid"] if "invalid" in j else fmt_main(j)


# ------------------------------------------------------------------ oracle (independent of codelimit and of the model)

def cat(v):
    return 0 if v <= 15 else 1 if v <= 30 else 2 if v <= 60 else 3


def prof(ms):
    r = [0, 0, 0, 0]
    for v in ms:
        r[cat(v)] += v
    return r


def in_domain(files):
    ps = [f[0] for f in files]
    return len(set(ps)) == len(ps) and not any(p.startswith("./") for p in ps)


def parent_key(s):
    """key of the folder that holds the file or folder called s"""
    i = s.rfind("/")
    return "./" if i < 0 else s[:i + 1]


def last_name(s):
    return s[s.rfind("/") + 1:]


def oracle(files, s):
    """list of reasons why snapshot s of the real object violates the property for this input"""
    bad = []
    # 1. per-language totals
    langs = []
    for f in files:
        if f[1] not in langs:
            langs.append(f[1])
    got = {t[0]: tuple(t[1:]) for t in s["totals"]}
    if sorted(got) != sorted(langs) or len(s["totals"]) != len(langs):
        bad.append("languages %r != %r" % (sorted(got), sorted(langs)))
    for L in langs:
        mine = [f for f in files if f[1] == L]
        exp = (len(mine), sum(f[2] for f in mine), sum(len(f[3]) for f in mine),
               sum(1 for f in mine for v in f[3] if cat(v) == 2), sum(1 for f in mine for v in f[3] if cat(v) == 3))
        if got.get(L) != exp:
            bad.append("totals[%r] = %r, required %r" % (L, got.get(L), exp))
    if "live" in s and len({f[0] for f in files}) == len(files):
        if sorted(s["live"]) != sorted((t[0],) + tuple(t[1:]) for t in s["totals"]):
            bad.append("totals collected by a fresh ScanTotals().add(...) %r differ from the codebase totals %r" % (s["live"], s["totals"]))
    # 2. file profiles
    gotf = {f[0]: f for f in s["files"]}
    if sorted(gotf) != sorted(f[0] for f in files) or len(s["files"]) != len(files):
        bad.append("files keys differ")
    for (p, L, loc, ms) in files:
        g = gotf.get(p)
        if g is None:
            continue
        exp = [sum(v for v in ms if cat(v) == i) for i in range(4)]
        if list(g[3]) != exp or sum(g[3]) != sum(ms) or g[1] != L or g[2] != loc or list(g[4]) != list(ms):
            bad.append("file %r: %r, required profile %r" % (p, g, exp))
    # 5. the tree
    keys = {"./"}
    for (p, _, _, _) in files:
        for i, c in enumerate(p):
            if c == "/":
                keys.add(p[:i + 1])
    gotk = [t[0] for t in s["tree"]]
    if sorted(gotk) != sorted(keys):
        bad.append("tree keys %r, required %r" % (sorted(gotk), sorted(keys)))
    for (k, entries, pr) in s["tree"]:
        exp_entries = sorted([(0, last_name(f[0])) for f in files if parent_key(f[0]) == k] +
                             [(1, last_name(k2[:-1]) + "/") for k2 in keys if k2 != "./" and parent_key(k2[:-1]) == k])
        if sorted(entries) != exp_entries:
            bad.append("entries of %s: %s, required %s" % (ascii(k), ascii(sorted(entries)), ascii(exp_entries)))
        # 3. folder profile
        under = [f for f in files if k == "./" or f[0].startswith(k)]
        exp = [sum(prof(f[3])[i] for f in under) for i in range(4)]
        if list(pr) != exp:
            bad.append("profile of %r: %r, required %r" % (k, pr, exp))
    # 4. grand totals, whole codebase
    allms = [v for f in files for v in f[3]]
    exp = [len(files), len(allms), sum(f[2] for f in files), sum(1 for v in allms if cat(v) == 2), sum(1 for v in allms if cat(v) == 3),
           sum(allms)] + prof(allms)
    if "grand" in s and list(s["grand"]) != exp:
        bad.append("grand totals %r, required %r" % (s["grand"], exp))
    root = [t for t in s["tree"] if t[0] == "./"]
    if len(root) != 1 or list(root[0][2]) != prof(allms):
        bad.append("root profile %r != whole codebase %r" % (root and root[0][2], prof(allms)))
    return bad


def oracle_fast(files, s):
    """the same clauses as `oracle`, recomputed in time linear in the input (dictionaries instead of scans) so that
    the size ladders are affordable; independent of codelimit and of the model"""
    bad = []
    # 1. per-language totals
    exp_tot = {}
    for (p, L, loc, ms) in files:
        t = exp_tot.setdefault(L, [0, 0, 0, 0, 0])
        t[0] += 1; t[1] += loc; t[2] += len(ms)
        t[3] += sum(1 for v in ms if cat(v) == 2); t[4] += sum(1 for v in ms if cat(v) == 3)
    got = {}
    for t in s["totals"]:
        if t[0] in got:
            bad.append("language %r listed twice" % (t[0],))
        got[t[0]] = list(t[1:])
    if got != exp_tot:
        diff = [L for L in set(got) | set(exp_tot) if got.get(L) != exp_tot.get(L)]
        bad.append("totals differ for %r: %r, required %r" % (diff[:3], [got.get(L) for L in diff[:3]], [exp_tot.get(L) for L in diff[:3]]))
    if "live" in s and sorted(s["live"]) != sorted((t[0],) + tuple(t[1:]) for t in s["totals"]):
        bad.append("totals collected by a fresh ScanTotals().add(...) differ from the codebase totals")
    # 2. file data
    gotf = {}
    for f in s["files"]:
        gotf[f[0]] = f
    if len(s["files"]) != len(files) or set(gotf) != {f[0] for f in files}:
        bad.append("files keys differ (%d listed, %d added)" % (len(s["files"]), len(files)))
    for (p, L, loc, ms) in files:
        g = gotf.get(p)
        if g is not None and (list(g[3]) != prof(ms) or sum(g[3]) != sum(ms) or g[1] != L or g[2] != loc or list(g[4]) != list(ms)):
            bad.append("file %r: %r, required profile %r" % (p, g[:4], prof(ms)))
            break
    # 5 + 3. the tree: keys, entries, profiles
    exp_entries = {"./": []}
    exp_prof = {"./": [0, 0, 0, 0]}
    for (p, _, _, ms) in files:
        pr = prof(ms)
        ks = ["./"] + [p[:i + 1] for i, c in enumerate(p) if c == "/"]
        for k in set(ks):
            if k not in exp_prof:
                exp_prof[k] = [0, 0, 0, 0]
                exp_entries[k] = []
            q = exp_prof[k]
            for i in range(4):
                q[i] += pr[i]
    for k in list(exp_entries):
        if k != "./":
            exp_entries[parent_key(k[:-1])].append((1, last_name(k[:-1]) + "/"))
    for (p, _, _, _) in files:
        exp_entries[parent_key(p)].append((0, last_name(p)))
    gotk = [t[0] for t in s["tree"]]
    if len(gotk) != len(set(gotk)) or set(gotk) != set(exp_entries):
        extra = sorted(set(gotk) - set(exp_entries))[:3]
        missing = sorted(set(exp_entries) - set(gotk))[:3]
        bad.append("tree keys differ: %d listed, %d required; extra %r missing %r" % (len(gotk), len(exp_entries), extra, missing))
    nbad = 0
    for (k, entries, pr) in s["tree"]:
        if k not in exp_entries:
            continue
        if sorted(entries) != sorted(exp_entries[k]):
            nbad += 1
            if nbad <= 2:
                from collections import Counter
                g, e = Counter(entries), Counter(exp_entries[k])
                bad.append("entries of %s: listed but not required %s, required but not listed %s (1 = folder, 0 = file)"
                           % (ascii(k), ascii(sorted((g - e).elements())[:6]), ascii(sorted((e - g).elements())[:6])))
        if list(pr) != exp_prof[k]:
            nbad += 1
            if nbad <= 2:
                bad.append("profile of %r: %r, required %r" % (k, pr, exp_prof[k]))
    if nbad > 2:
        bad.append("... %d folder entries/profiles wrong in all" % nbad)
    # 4. grand totals
    allms = [v for f in files for v in f[3]]
    exp = [len(files), len(allms), sum(f[2] for f in files), sum(1 for v in allms if cat(v) == 2), sum(1 for v in allms if cat(v) == 3),
           sum(allms)] + prof(allms)
    if "grand" in s and list(s["grand"]) != exp:
        bad.append("grand totals %r, required %r" % (s["grand"], exp))
    root = [t for t in s["tree"] if t[0] == "./"]
    if len(root) != 1 or list(root[0][2]) != prof(allms):
        bad.append("root profile %r != whole codebase %r" % (root and root[0][2], prof(allms)))
    return bad


def run_real_big(files):
    """object snapshot + the compact JSON rendering only (large inputs): -> (reply line, snapshot | None, json agrees?)"""
    import json
    lim = sys.getrecursionlimit()
    try:
        sys.setrecursionlimit(max(lim, 1200))
        try:
            cb = build_real(files, 1)
        finally:
            sys.setrecursionlimit(lim)
    except KeyError:
        return "err 7", None, True
    except RecursionError:
        return "err 6", None, True
    s = snap_object(cb)
    from codelimit.common.report.Report import Report
    from codelimit.common.report.ReportWriter import ReportWriter
    try:
        doc = json.loads(ReportWriter(Report(cb), False).to_json())["codebase"]
    except ValueError as e:
        BIG_JSON_NOTE[:] = ["the compact report document is not valid JSON (%s)" % e]
        return fmt_main(s) + fmt_extra(s), s, False
    BIG_JSON_NOTE[:] = []
    j = {
        "totals": [(k, t["files"], t["lines_of_code"], t["functions"], t["hard_to_maintain"], t["unmaintainable"]) for k, t in doc["totals"].items()],
        "tree": [(k, [(1 if n.endswith("/") else 0, n) for n in f["entries"]], f["profile"]) for k, f in doc["tree"].items()],
        "files": [(k, e["language"], e["loc"], e["profile"], [m["value"] for m in e["measurements"]]) for k, e in doc["files"].items()],
    }
    same = (j["totals"] == [tuple(t) for t in s["totals"]] and j["tree"] == [(k, es, pr) for k, es, pr in s["tree"]]
            and j["files"] == [(k, l, c, p, m) for k, l, c, p, m in s["files"]])
    return fmt_main(s) + fmt_extra(s), s, same


BIG_JSON_NOTE = []


def fails_oracle(files):
    """does the real code violate the property on this list? (used for shrinking)"""
    _, snap, same = run_real_big(files)
    return snap is None or not same or bool(oracle_fast(files, snap))


# ------------------------------------------------------------------ generators

def gen_len(rnd):
    r = rnd.random()
    if r < 0.5:
        return rnd.choice(BOUNDARY)
    if r < 0.97:
        return rnd.randint(1, 200)
    return rnd.choice([0, 201, 1000, 10 ** 6])


def gen_meta(rnd, nlang):
    lang = rnd.choice(LANGS[:nlang])
    n = rnd.choice([0, 0, 1, 1, 2, 3, 5, 8])
    ms = [gen_len(rnd) for _ in range(n)]
    loc = rnd.choice([0, sum(ms), sum(ms) + rnd.randint(0, 50), rnd.randint(0, 500)])
    return lang, loc, ms


def gen_path(rnd, names, maxdepth=6):
    d = rnd.choice([1, 1, 2, 2, 3, 3, 4, 5, 6, maxdepth])
    return "/".join(rnd.choice(names) for _ in range(d))


def gen_files(rnd):
    n = rnd.randint(0, 12)
    names = rnd.sample(NAMES, rnd.randint(2, 5))      # few names -> shared prefixes, file/folder name clashes
    nlang = rnd.randint(1, len(LANGS))
    paths = []
    tries = 0
    while len(paths) < n and tries < 200:
        tries += 1
        if paths and rnd.random() < 0.5:               # extend / share a prefix of an existing path
            base = rnd.choice(paths).split("/")
            cut = rnd.randint(0, len(base))
            p = "/".join(base[:cut] + [rnd.choice(names) for _ in range(rnd.randint(1, 2))])
            if p.count("/") > 5:
                continue
        else:
            p = gen_path(rnd, names)
        if paths and rnd.random() < 0.12:              # CASE TWIN of an existing path (folder name or file name): two files
            p = r7.case_twin(rnd.choice(paths), rnd, keep_ext=rnd.random() < 0.7) or p
        if p not in paths and not p.startswith("./"):
            paths.append(p)
    return [(p,) + gen_meta(rnd, nlang) for p in paths]


MALFORMED = ["", ".", "./x", "./a/x", "././x", "/", "/a", "/a/b", "a/", "a//b", "//", "a/./b", "./", "a/../b", "a", "a/x", "x", "./a/./y", "a/b/", "../x", "./."]


def gen_malformed(rnd):
    n = rnd.randint(1, 7)
    paths = [rnd.choice(MALFORMED) if rnd.random() < 0.8 else gen_path(rnd, ["a", "b", ".", ""], 4) for _ in range(n)]
    if rnd.random() < 0.5 and paths:
        paths.append(rnd.choice(paths))                # duplicate
    return [(p,) + gen_meta(rnd, 3) for p in paths]


def small_sets(rnd, count, size):
    pool = ["a", "b", "a/b", "a/c", "a/b/c", "a/b/d", "b/a", "c/d/e/f", "a/b/c/d/e/f", "/a", "a//b", "a/", "b/c/x.py", "b/c/y.py"]
    out = []
    for _ in range(count):
        ps = rnd.sample(pool, size)
        fs = [(p,) + gen_meta(rnd, 3) for p in ps]
        for perm in itertools.permutations(fs):
            out.append(list(perm))
    return out


# ------------------------------------------------------------------ size ladders, unusual names, probes

def small_meta(rnd, i):
    lang = LANGS[i % 3] if rnd.random() < 0.8 else rnd.choice(LANGS)
    ms = [rnd.choice(BOUNDARY) if rnd.random() < 0.6 else rnd.randint(1, 90) for _ in range(rnd.choice([0, 1, 1, 2]))]
    return lang, sum(ms) + rnd.randint(0, 9), ms


def folder_name(i, n, nested):
    """the i-th of n folders: flat `p0042`, or nested by decimal digits `t4/t42/p0042` (shared prefixes at every level)"""
    w = len(str(n - 1))
    s = str(i).zfill(w)
    if not nested:
        return "p" + s
    return "/".join(["t" + s[:k] for k in range(1, w)] + ["p" + s])


ORDERS = ["by-folder", "by-name", "by-name-reversed", "shuffled"]


def gen_folder_ladder(rnd, n, nested, order, per_folder=2):
    """n folders x per_folder files, in one of the insertion orders: folder by folder (os.walk), file name by file
    name (every folder is revisited after all the others), the same backwards, shuffled"""
    names = ["__init__.py", "impl.py", "util.c", "x.java"][:per_folder]
    cells = [(i, j) for i in range(n) for j in range(per_folder)]
    if order == "by-name":
        cells.sort(key=lambda c: (c[1], c[0]))
    elif order == "by-name-reversed":
        cells.sort(key=lambda c: (c[1], -c[0]))
    elif order == "shuffled":
        rnd.shuffle(cells)
    return [(folder_name(i, n, nested) + "/" + names[j],) + small_meta(rnd, j) for i, j in cells]


def gen_depth_ladder(rnd, depth, order):
    """one chain of `depth` folders with a file at every level (and two at some), inserted shallow-first, deep-first or shuffled"""
    comps = [rnd.choice(["a", "b", "src", "x.py"]) for _ in range(depth)]
    files = []
    for d in range(depth + 1):
        pre = "/".join(comps[:d])
        files.append(((pre + "/" if pre else "") + "f%d.py" % d,) + small_meta(rnd, d))
    if order == "deep-first":
        files.reverse()
    elif order == "shuffled":
        rnd.shuffle(files)
    return files


def gen_wide_folder(rnd, n):
    files = [("wide/f%07d.py" % i,) + small_meta(rnd, i) for i in range(n)]
    rnd.shuffle(files)
    return files + [("wide.py",) + small_meta(rnd, 0)]


def gen_many_measurements(rnd, n):
    ms = [rnd.choice(BOUNDARY) if rnd.random() < 0.5 else rnd.randint(1, 100) for _ in range(n)]
    return [("big/one.py", "Python", sum(ms), ms), ("two.py", "C", 3, [3])]


def gen_unusual(rnd):
    """path sets whose components come from h4.unusual_names (+ a few plain ones), with the twin spellings (other normal
    forms, other case) of some names next to them in the same folder"""
    names = h4.unusual_names(rnd, 14) + ["src", "a"]
    n = rnd.randint(1, 9)
    paths = []
    tries = 0
    while len(paths) < n and tries < 100:
        tries += 1
        d = rnd.choice([0, 0, 1, 1, 2, 3])
        comps = [rnd.choice(names) for _ in range(d + 1)]
        p = "/".join(comps)
        if p.startswith("./") or p in paths:
            continue
        paths.append(p)
        if rnd.random() < 0.5:
            alts = h4.twins(comps[-1])
            if alts:
                q = "/".join(comps[:-1] + [rnd.choice(alts)])
                if q not in paths:
                    paths.append(q)
        if d and rnd.random() < 0.25:
            alts = h4.twins(comps[0])
            if alts:
                q = "/".join([rnd.choice(alts)] + comps[1:])
                if q not in paths:
                    paths.append(q)
    rnd.shuffle(paths)
    return [(p,) + gen_meta(rnd, 3) for p in paths]


def second_build_probe(files):
    """STATE PROBE: build the list, modify the first codebase (more files, another aggregate, emptied tree), build the
    SAME list again in the same process, and add the same entry objects to a third codebase: every build must give the
    same snapshot. -> (list of reasons, snapshot of the second build | None)"""
    from codelimit.common.Codebase import Codebase
    bad = []
    try:
        cb1 = build_real(files, 1)
        s1 = snap_object(cb1)
        first = fmt_main(s1) + fmt_extra(s1)
        from codelimit.common.SourceFileEntry import SourceFileEntry
        cb1.add_file(SourceFileEntry("zz-probe/extra/q.py", "x", "Probe", 7, []))
        for (p, lang, loc, ms) in files[:2]:
            cb1.add_file(SourceFileEntry(p + ".again", "x", lang, loc, []))
        cb1.aggregate()
        cb1.tree.clear(); cb1.totals.clear()
        cb2 = build_real(files, 1)
        s2 = snap_object(cb2)
        second = fmt_main(s2) + fmt_extra(s2)
        if second != first:
            bad.append("the same list built a second time in the same process (after the first codebase was modified) gives a different codebase")
        cb3 = Codebase("/other")
        for e in cb2.files.values():
            cb3.add_file(e)
        cb3.aggregate()
        s3 = snap_object(cb3)
        if fmt_main(s3) + fmt_extra(s3) != first:
            bad.append("the same entry objects added to another codebase give a different codebase")
        if fmt_main(snap_object(cb2)) != fmt_main(s2):
            bad.append("the second codebase changed while a third was built from its entries")
        return bad, s2
    except (KeyError, RecursionError) as e:
        return ["%s raised" % type(e).__name__], None


# ------------------------------------------------------------------ round 5: names, histories add / query / add

_EXTENDED = []


def extend_names():
    """awkward file-name characters (backslash followed by every JSON escape letter, quotes, tab, glob / shell characters),
    NFC / NFD twins and the string literals that are new in the source under check join the component pool"""
    if not _EXTENDED:
        _EXTENDED.append(True)
        for n in r5.path_components(".py"):
            if n not in NAMES:
                NAMES.append(n)


def gen_awkward(rnd):
    """path sets in which most components are awkward (the general pool dilutes them)"""
    pool = r5.path_components(rnd.choice([".py", ".c", ""]))
    names = rnd.sample(pool, min(len(pool), rnd.randint(2, 6))) + rnd.sample(["src", "a", "x.py"], rnd.randint(0, 2))
    paths = []
    for _ in range(rnd.randint(1, 8)):
        p = "/".join(rnd.choice(names) for _ in range(rnd.choice([1, 1, 2, 2, 3, 4])))
        if p not in paths and not p.startswith("./"):
            paths.append(p)
    return [(p,) + gen_meta(rnd, 3) for p in paths]


POST = 10 ** 9     # schedule position "after aggregate()"


def gen_schedule(rnd, nfiles):
    """[[position, query name], ...]: read-only queries asked after `position` files were added (0 = on the empty code base)"""
    from codelimit.common.Codebase import Codebase
    qs = r5.query_names(Codebase("/root"))
    out = []
    for _ in range(rnd.choice([1, 1, 2, 3, 5])):
        out.append([rnd.randint(0, nfiles), rnd.choice(qs)])
    if rnd.random() < 0.5 and nfiles:
        out.append([nfiles - 1, rnd.choice(qs)])       # just before the last file
    if rnd.random() < 0.7:
        # STATE PROBE after every presentation function: questions asked AFTER aggregate(), before the code base is looked at
        for _ in range(rnd.choice([1, 1, 2, 4])):
            out.append([POST, rnd.choice(qs)])
    return sorted(out, key=lambda x: x[0])


def history_probe(files, schedule):
    """HISTORY: the code base is asked read-only questions WHILE it is being filled (a progress line, an interim result);
    whatever a question hands out is overwritten by the caller; afterwards aggregate and the usual snapshot.
    -> (reasons, snapshot | None)"""
    from codelimit.common.Codebase import Codebase
    from codelimit.common.Location import Location
    from codelimit.common.Measurement import Measurement
    from codelimit.common.SourceFileEntry import SourceFileEntry
    bad = []
    cb = Codebase("/root")
    at = {}
    for pos, q in schedule:
        at.setdefault(pos, []).append(q)
    lim = sys.getrecursionlimit()
    try:
        sys.setrecursionlimit(400)
        try:
            for i in range(len(files) + 1):
                for q in at.get(i, []):
                    try:
                        r5.run_query(cb, q)
                    except (KeyError, RecursionError):
                        raise
                    except Exception as e:   # noqa: BLE001
                        bad.append("the read-only query %s raised %s: %s" % (q, type(e).__name__, str(e)[:80]))
                if i < len(files):
                    p, lang, loc, ms = files[i]
                    cb.add_file(SourceFileEntry(p, "c0ffee", lang, loc,
                                                [Measurement("f%d" % k, Location(k + 1, 1), Location(k + 2, 1), v) for k, v in enumerate(ms)]))
            cb.aggregate()
            for q in at.get(POST, []):
                try:
                    r5.run_query(cb, q)
                except (KeyError, RecursionError):
                    raise
                except Exception as e:   # noqa: BLE001
                    bad.append("the read-only query %s (after aggregate) raised %s: %s" % (q, type(e).__name__, str(e)[:80]))
        finally:
            sys.setrecursionlimit(lim)
    except (KeyError, RecursionError) as e:
        return ["%s raised" % type(e).__name__], None
    s = snap_object(cb)
    js = snap_json(cb)
    main = fmt_main(s)
    for name, j in zip(("pretty", "compact"), js):
        if "invalid" in j:
            bad.append(j["invalid"])
        elif fmt_main(j) != main:
            bad.append("the %s report document's codebase section differs from the object" % name)
    return bad, s


# ------------------------------------------------------------------ round 6: code bases produced by scans with a cached report

def doc_snapshot(root):
    """the codebase section of the report `codelimit scan` left in the cache directory, in the snapshot format"""
    import json
    with open(r6.cache_file(root)) as f:
        doc = json.load(f)["codebase"]
    return {
        "totals": [(k, t["files"], t["lines_of_code"], t["functions"], t["hard_to_maintain"], t["unmaintainable"]) for k, t in doc["totals"].items()],
        "tree": [(k, [(1 if n.endswith("/") else 0, n) for n in f["entries"]], f["profile"]) for k, f in doc["tree"].items()],
        "files": [(k, e["language"], e["loc"], e["profile"], [m["value"] for m in e["measurements"]]) for k, e in doc["files"].items()],
    }


def observe_scan(tree, step, state):
    """one scan of a working tree -> reasons. step = ["scan", mode, queries]:
    mode "command": scan_command (reads the cached report the previous scan left, prints, writes the new report) - the
                    property is judged on the codebase section of the report it WRITES;
    mode "path":    Scanner.scan_path(root, the report read back from the cache file) + aggregate - judged on the object,
                    again after the presentation `queries`, again on a second scan with the SAME cached report object, and on
                    the documents; the report is then written to the cache file as scan_command would.
    The required numbers come from the tree's construction (files on disk that are not excluded, function lengths)."""
    import os
    from codelimit.common.report.Report import Report
    from codelimit.common.report.ReportReader import ReportReader
    from codelimit.common.report.ReportWriter import ReportWriter
    truth = tree.scanned()
    n = state["scans"] = state.get("scans", 0) + 1
    bad = []
    if step[1] == "command":
        r6.scan_command_output(tree.root)
        bad += ["report written by scan number %d (scan_command): %s" % (n, b) for b in oracle(truth, doc_snapshot(tree.root))[:4]]
        return bad
    cached = None
    if os.path.exists(r6.cache_file(tree.root)):
        with open(r6.cache_file(tree.root)) as f:
            cached = ReportReader.from_json(f.read())
    cb = r6.scan_with_cache(tree.root, cached)
    where = "scan number %d (scan_path %s a cached report)" % (n, "with" if cached else "without")
    bad += ["%s: %s" % (where, b) for b in oracle(truth, snap_object(cb))[:4]]
    for q in step[2] if len(step) > 2 else []:
        r5.run_query(cb, q)
    if len(step) > 2 and step[2]:
        bad += ["%s, after the read-only queries %s: %s" % (where, step[2], b) for b in oracle(truth, snap_object(cb))[:4]]
    for name, j in zip(("pretty", "compact"), snap_json(cb)):
        if "invalid" in j:
            bad.append(j["invalid"])
        else:
            bad += ["%s, report document (%s): %s" % (where, name, b) for b in oracle(truth, j)[:3]]
    if cached is not None:
        cb2 = r6.scan_with_cache(tree.root, cached)
        bad += ["%s, second scan with the same cached report object: %s" % (where, b) for b in oracle(truth, snap_object(cb2))[:3]]
    os.makedirs(os.path.dirname(r6.cache_file(tree.root)), exist_ok=True)
    with open(r6.cache_file(tree.root), "w") as f:
        f.write(ReportWriter(Report(cb)).to_json())
    return bad


def gen_scan_step(rnd, qs):
    if rnd.random() < 0.5:
        return ["scan", "command"]
    return ["scan", "path", [rnd.choice(qs) for _ in range(rnd.choice([0, 1, 2, 3]))]]


def run_scan_history(rnd, k, exts, qs):
    """-> (steps, list of reason lists, scans)"""
    import shutil
    import tempfile
    d = tempfile.mkdtemp(prefix="c07_tree_")
    state, fails, nobs = {}, [], 0
    try:
        tree = r6.start_tree(d, rnd, exts)
        for r in range(rnd.choice([2, 3, 3, 4])):
            if r:
                r6.do_round(tree, rnd, k + r)
            step = gen_scan_step(rnd, qs)
            tree.log.append(step)
            b = observe_scan(tree, step, state)
            nobs += 1
            if b:
                fails.append(b)
        return [list(s) for s in tree.log], fails, nobs
    finally:
        shutil.rmtree(d, ignore_errors=True)


def replay_scan_history(steps):
    import shutil
    import tempfile
    d = tempfile.mkdtemp(prefix="c07_tree_")
    state, fails = {}, []
    try:
        r6.replay_tree(d, steps, lambda tree, st: fails.extend(observe_scan(tree, st, state)))
    finally:
        shutil.rmtree(d, ignore_errors=True)
    return fails


def shrink_scan_history(steps):
    def failing(s):
        try:
            return bool(replay_scan_history(s))
        except Exception:   # noqa: BLE001 - a dropped step made a later one inapplicable
            return False
    cur = list(steps)
    i = 0
    while i < len(cur) and len(cur) > 1:
        cand = cur[:i] + cur[i + 1:]
        if failing(cand):
            cur = cand
        else:
            i += 1
    return cur


def run_scan_histories(ctx, fails, dist):
    from codelimit.common.Codebase import Codebase
    qs = r5.query_names(Codebase("/root"))
    rnd = ctx.rng("scan-histories")
    total = 0
    for k in range(ctx.pick(60, 1200)):
        exts = [("py",), ("py", "c"), ("py",), ("py", "c", "java", "ts", "js")][k % 4]
        steps, bad, nobs = run_scan_history(rnd, k, exts, qs)
        total += nobs
        dist["scan_histories"] = dist.get("scan_histories", 0) + 1
        for st in steps:
            key = st[0] if st[0] != "scan" else "scan/" + st[1]
            dist.setdefault("scan_history_steps", {})[key] = dist.setdefault("scan_history_steps", {}).get(key, 0) + 1
        if bad:
            if sum(1 for f in fails if f["input"].get("stream") == "scan-history") < 3:
                steps = shrink_scan_history(steps)
                bad = [replay_scan_history(steps)] or bad
            fails.append({"input": {"stream": "scan-history", "tree_steps": steps}, "observed": bad[0][:4],
                          "required": "C07 for the code base a scan produces and writes (with or without a cached report), recomputed from the files in the working tree"})
    return total


def shrink_failure(f, budget_s=2.5):
    """smaller file list (and schedule) on which the same kind of check still fails; the failure is rewritten in place"""
    inp = f["input"]
    if not isinstance(inp.get("files"), list) or inp.get("naggr", 1) != 1:
        return
    fs = [(x[0], x[1], x[2], list(x[3])) for x in inp["files"]]
    if inp.get("stream") == "query-before-complete":
        def clip(sched, n):
            return [[pos if pos == POST else min(pos, n), q] for pos, q in sched]

        def reasons(sub):
            b, s3 = history_probe(sub, clip(inp["schedule"], len(sub)))
            return b + (oracle(sub, s3) if s3 is not None else [])
    elif inp.get("stream") in ("random", "all-orders", "unusual-names", "awkward-names", "malformed", "search"):
        def reasons(sub):
            if not in_domain(sub):
                return []
            impl, _, _, snap = run_real(sub, 1)
            return [impl] if snap is None else oracle(sub, snap) + oracle_documents(sub)
    else:
        return
    try:
        small = h4.ddmin_list(fs, lambda sub: bool(reasons(sub)), budget_s=budget_s)
        if len(small) < len(fs):
            bad = reasons(small)
            if bad:
                inp["files"] = [list(x) for x in small]
                if "schedule" in inp:
                    inp["schedule"] = [[pos if pos == POST else min(pos, len(small)), q] for pos, q in inp["schedule"]]
                inp["shrunk_from_files"] = len(fs)
                f["observed"] = bad[:4]
    except Exception:   # noqa: BLE001 - shrinking is a convenience
        pass


def drive_each(lines, workers=12):
    """one driver process per request, in parallel (the model's folder map is a list: quadratic in the number of folders)"""
    from concurrent.futures import ThreadPoolExecutor
    if not lines:
        return []
    with ThreadPoolExecutor(max_workers=workers) as ex:
        return [r[0] for r in ex.map(lambda l: common.run_driver([l]), lines)]


def ladder_cases(ctx):
    """-> list of (stream, label, files, compare with the model?)"""
    rnd = ctx.rng("ladders")
    out = []
    model_max = ctx.pick(1000, 3162)
    for n in r5.rungs(ctx.pick([100, 316, 1000, 3162], [100, 316, 1000, 3162, 10 ** 4, 31623, 10 ** 5]), 2, ctx.pick(2 * 10 ** 4, 10 ** 5)):
        combos = [(nested, order) for nested in (False, True) for order in ORDERS]
        if n > 1000:
            combos = rnd.sample(combos, ctx.pick(3, 4)) if n < 10 ** 5 else [(False, "by-name"), (True, "shuffled")]
        if n > 3162 and not ctx.thorough:
            combos = [(False, "by-folder")]          # a rung taken from a literal of the source under check
        # the model's folder map is a list (quadratic): above 316 folders only a sample of the combinations goes to the driver
        with_model = set(range(len(combos))) if n <= 316 else set(rnd.sample(range(len(combos)), min(len(combos), ctx.pick(3, 8))))
        for ci, (nested, order) in enumerate(combos):
            out.append(("ladder-folders", "%d folders %s %s" % (n, "nested" if nested else "flat", order),
                        gen_folder_ladder(rnd, n, nested, order, 2 if n > 316 else rnd.choice([2, 3])), n <= model_max and ci in with_model))
    for depth in r5.rungs(ctx.pick([10, 50, 150], [10, 50, 150, 300, 600]), 2, ctx.pick(300, 600)):
        for order in ("shallow-first", "deep-first", "shuffled"):
            out.append(("ladder-depth", "depth %d %s" % (depth, order), gen_depth_ladder(rnd, depth, order), depth <= 150))
    for n in r5.rungs(ctx.pick([100, 1000, 10 ** 4], [100, 1000, 10 ** 4, 10 ** 5]), 2, ctx.pick(2 * 10 ** 4, 10 ** 5)):
        out.append(("ladder-files-in-folder", "%d files in one folder" % n, gen_wide_folder(rnd, n), n <= 1000))
    for n in r5.rungs(ctx.pick([100, 1000, 10 ** 4, 10 ** 5], [100, 1000, 10 ** 4, 10 ** 5, 10 ** 6]), 2, ctx.pick(10 ** 5, 10 ** 6)):
        out.append(("ladder-measurements", "%d measurements in one file" % n, gen_many_measurements(rnd, n), n <= 10 ** 4))
    for n in r5.rungs(ctx.pick([100, 1000], [100, 1000, 10 ** 4, 10 ** 5]), 2, ctx.pick(2 * 10 ** 4, 10 ** 5)):
        out.append(("ladder-languages", "%d languages" % n, gen_many_languages(rnd, n), n <= 316))
    for n in r5.rungs(ctx.pick([100, 1000], [100, 1000, 10 ** 4]), 2, ctx.pick(10 ** 4, 10 ** 5)):
        out.append(("ladder-folders-in-folder", "%d folders in one folder" % n, gen_many_subfolders(rnd, n), n <= 316))
    return out


def gen_many_languages(rnd, n):
    """n languages, their files interleaved (a language's files are not adjacent)"""
    files = [("l%d/f%d.x" % (i % 7, i), "Lang%d" % (i % n), rnd.randint(0, 99), [rnd.choice(BOUNDARY)] * rnd.choice([0, 1, 2])) for i in range(n + n // 2)]
    rnd.shuffle(files)
    return files


def gen_many_subfolders(rnd, n):
    """one folder with n direct sub-folders (one file each) and a few files of its own"""
    files = [("top/s%06d/f.py" % i,) + small_meta(rnd, i) for i in range(n)] + [("top/own%d.py" % i,) + small_meta(rnd, i) for i in range(3)]
    rnd.shuffle(files)
    return files


def run_ladders(ctx, dis, fails, dist):
    cases = ladder_cases(ctx)
    reqs = [request(fs, 1) for (_, _, fs, with_model) in cases if with_model]
    replies = iter(drive_each(reqs))
    n = 0
    for stream, label, fs, with_model in cases:
        n += 1
        dist[stream] = dist.get(stream, 0) + 1
        impl, snap, same = run_real_big(fs)
        inp = {"stream": stream, "label": label, "files": [list(f) for f in fs], "naggr": 1}
        small = {"stream": stream, "label": label, "files": "%d files (%s ... %s)" % (len(fs), fs[0][0], fs[-1][0]), "naggr": 1}
        if with_model:
            m = next(replies)
            if m != impl:
                k = next((i for i, (a, b) in enumerate(zip(m, impl)) if a != b), 0)
                dis.append({"stream": stream, "input": small, "model": m[max(0, k - 80):k + 80], "impl": impl[max(0, k - 80):k + 80]})
        bad = ["raises (%s)" % impl] if snap is None else oracle_fast(fs, snap)
        if snap is not None and not same:
            bad.append(BIG_JSON_NOTE[0] if BIG_JSON_NOTE else "the report's JSON codebase section differs from the object")
        if bad:
            nshrunk = sum(1 for f in fails if "shrunk" in str(f["input"].get("label")))
            shrunk = h4.ddmin_list(fs, fails_oracle, budget_s=ctx.pick(6.0, 30.0)) if nshrunk < 2 else fs
            if len(shrunk) < len(fs):
                _, snap2, same2 = run_real_big(shrunk)
                bad2 = ["raises"] if snap2 is None else oracle_fast(shrunk, snap2) + ([] if same2 else ["JSON differs from the object"])
                if bad2:
                    inp = {"stream": stream, "label": label + " (shrunk from %d files)" % len(fs), "files": [list(f) for f in shrunk], "naggr": 1}
                    bad = bad2
            fails.append({"input": inp, "observed": bad[:4], "required": "C07 (recomputed from the input)"})
    return n


# ------------------------------------------------------------------ check

def compare(stream, files, naggr, model, check_oracle, dis, fails):
    impl, j1, j2, snap = run_real(files, naggr)
    inp = {"stream": stream, "files": [list(f) for f in files], "naggr": naggr}
    if model != impl:
        dis.append({"stream": stream, "input": inp, "model": model, "impl": impl})
    elif snap is not None:
        main = impl.split(" G ")[0]
        for name, j in (("json-pretty", j1), ("json-compact", j2)):
            if j != main:
                dis.append({"stream": stream + "/" + name, "input": inp, "model": main, "impl": j})
    if check_oracle:
        if snap is None:
            fails.append({"input": inp, "observed": impl, "required": "no exception"})
        else:
            bad = oracle(files, snap) + oracle_documents(files)
            if bad:
                fails.append({"input": inp, "observed": bad[:4], "required": "C07 (recomputed from the input)"})
    return impl


def oracle_documents(files):
    """the property observed at json.loads(ReportWriter(report).to_json())['codebase'] (both forms) for the last run_real"""
    bad = []
    for name, j in zip(("pretty", "compact"), LAST_JSON):
        if "invalid" in j:
            bad.append(j["invalid"])
        else:
            bad += ["report document (%s): %s" % (name, b) for b in oracle(files, j)[:3]]
    return bad


def correspond(ctx):
    dis, fails = [], []
    nontrivial = set()
    cases = []   # (stream, files, naggr, oracle?)
    extend_names()
    rnd = ctx.rng("random")
    for _ in range(ctx.pick(2500, 40000)):
        cases.append(("random", gen_files(rnd), 1, True))
    rnd = ctx.rng("orders")
    for fs in small_sets(rnd, ctx.pick(12, 60), 4) + small_sets(rnd, ctx.pick(2, 6), 5):
        cases.append(("all-orders", fs, 1, True))
    rnd = ctx.rng("naggr")
    for _ in range(ctx.pick(200, 2000)):
        cases.append(("aggregate-0-or-2-times", gen_files(rnd), rnd.choice([0, 2, 3]), False))
    rnd = ctx.rng("malformed")
    for _ in range(ctx.pick(800, 10000)):
        fs = gen_malformed(rnd)
        cases.append(("malformed", fs, 1, in_domain(fs)))
    cases.append(("malformed", [("././x", "C", 1, [1])], 1, False))
    cases.append(("malformed", [("./a/x", "C", 1, [20]), ("a/y", "C", 1, [40])], 1, False))
    rnd = ctx.rng("unusual-names")
    for _ in range(ctx.pick(600, 8000)):
        fs = gen_unusual(rnd)
        cases.append(("unusual-names", fs, 1, in_domain(fs)))
    rnd = ctx.rng("configured")
    cfg_for = {}
    for _ in range(ctx.pick(150, 2000)):
        fs = gen_unusual(rnd) if rnd.random() < 0.3 else gen_files(rnd)
        label, kw = rnd.choice(h4.config_variants([f[0] for f in fs], rnd))
        cfg_for[len(cases)] = kw
        cases.append(("configured", fs, 1, in_domain(fs)))
    probe_at = set()
    rnd = ctx.rng("second-build")
    for _ in range(ctx.pick(300, 4000)):
        probe_at.add(len(cases))
        cases.append(("second-build", gen_unusual(rnd) if rnd.random() < 0.2 else gen_files(rnd), 1, True))
    rnd = ctx.rng("awkward-names")
    for _ in range(ctx.pick(500, 6000)):
        fs = gen_awkward(rnd)
        cases.append(("awkward-names", fs, 1, in_domain(fs)))
    hist_at = {}
    rnd = ctx.rng("query-before-complete")
    for _ in range(ctx.pick(500, 6000)):
        r = rnd.random()
        fs = gen_unusual(rnd) if r < 0.15 else gen_awkward(rnd) if r < 0.25 else gen_files(rnd)
        if not in_domain(fs):
            continue
        hist_at[len(cases)] = gen_schedule(rnd, len(fs))
        cases.append(("query-before-complete", fs, 1, True))
    replies = common.run_driver_sharded([request(fs, k) for (_, fs, k, _) in cases])
    samples = []
    dist = {}
    for ci, ((stream, fs, k, orc), m) in enumerate(zip(cases, replies)):
        if ci in cfg_for:
            with h4.configured(**cfg_for[ci]):
                impl = compare(stream, fs, k, m, orc, dis, fails)
        else:
            impl = compare(stream, fs, k, m, orc, dis, fails)
        if ci in probe_at:
            bad, s2 = second_build_probe(fs)
            if s2 is not None:
                bad += oracle(fs, s2)
            if bad:
                fails.append({"input": {"stream": "second-build", "files": [list(f) for f in fs], "naggr": 1}, "observed": bad[:4],
                              "required": "C07 on every build of the same list in one process"})
        if ci in hist_at:
            bad, s2 = history_probe(fs, hist_at[ci])
            if s2 is not None:
                bad += oracle(fs, s2)
                h = fmt_main(s2) + fmt_extra(s2)
                if h != m:
                    dis.append({"stream": "query-before-complete", "input": {"stream": "query-before-complete", "files": [list(f) for f in fs], "naggr": 1,
                                                                              "schedule": hist_at[ci]}, "model": m, "impl": h})
            for _pos, q in hist_at[ci]:
                dist.setdefault("queries", {})[q] = dist.setdefault("queries", {}).get(q, 0) + 1
            if bad:
                def still(sub, fs=fs):
                    b, s3 = history_probe(fs, sub)
                    return bool(b) or (s3 is not None and bool(oracle(fs, s3)))
                sched = h4.ddmin_list(hist_at[ci], still, budget_s=2.0) if len(fails) < 5 else hist_at[ci]
                fails.append({"input": {"stream": "query-before-complete", "files": [list(f) for f in fs], "naggr": 1, "schedule": sched},
                              "observed": bad[:4], "required": "C07 after a history of add_file and read-only queries (a query changes nothing)"})
        dist[stream] = dist.get(stream, 0) + 1
        if len(fs) >= 2 and any("/" in f[0] for f in fs):
            nontrivial.add(request(fs, k))
        if len(samples) < 3 and len(fs) in (2, 3):
            samples.append({"files": fs, "model": m[:300], "impl": impl[:300]})
    # path functions on their own
    strs = sorted(set(MALFORMED + [f[0] for (_, fs, _, _) in cases[:300] for f in fs]))
    from codelimit.common.utils import get_parent_folder, get_basename
    for s, m in zip(strs, common.run_driver(["pathfn " + enc_str(s) for s in strs])):
        i = "ok %s %s" % (enc_str(get_parent_folder(s)), enc_str(get_basename(s)))
        if m != i:
            dis.append({"stream": "pathfn", "input": {"stream": "pathfn", "path": s}, "model": m, "impl": i})
    fails.sort(key=lambda f: len(str(f["input"])))
    for f in fails[:3]:
        shrink_failure(f)
    n_ladder = run_ladders(ctx, dis, fails, dist)
    n_ladder += run_scan_histories(ctx, fails, dist)
    if not h4.configuration_is_default():
        dis.append({"stream": "configured", "input": {"stream": "configured"}, "model": "default configuration restored", "impl": "configuration left modified"})
    return {
        "evaluations": len(cases) + len(strs) + n_ladder, "distinct_nontrivial": len(nontrivial),
        "rule": "random duplicate-free path sets (0..12 files, depth <= 6, 2..5 component names so prefixes are shared and files/folders clash in name, "
                "1..6 languages, 0..8 measurements per file with lengths concentrated on 14..17/29..32/59..62 plus 1..200) through add_file*+aggregate, "
                "compared on the object, on pretty and on compact JSON, and against the recomputed numbers; every insertion order of 4- and 5-element sets; "
                "0/2/3 aggregate calls and malformed paths (duplicates, absolute, './x', '././x', empty components) model-vs-code only; "
                "unusual-names: components not fixed under NFC/NFD/NFKC/NFKD (decomposed accents, U+212B, U+2126, compatibility forms, jamo), case pairs, "
                "U+000C/U+0085/U+2028, BOM, zero-width, with their twin spellings in the same folder; configured: the same under Configuration.repository / "
                "exclude (patterns matching the paths, negation) / verbose; second-build: the list built twice in one process with the first codebase "
                "modified in between, and the entry objects shared with a third codebase; size ladders (object + compact JSON + linear-time oracle, model up "
                "to 316 folders for every combination and for 3 combinations at 1000 quick / all up to 3162 thorough): 10^2..3162 (thorough ..10^5) folders flat / nested by digits x folder-by-folder / by-file-name / "
                "reversed / shuffled insertion, depth 10/50/150 (thorough 300, 600), 10^2..10^4 (10^5) files in one folder, 10^2..10^5 (10^6) measurements in one file; "
                "ladders also over 10^2, 10^3 (thorough ..10^5) languages with interleaved files and 10^2, 10^3 (..10^4) sub-folders of one folder; every ladder "
                "additionally gets the rungs n-1, n, n+1, 2n of every integer literal that is new in the source under check (%s); "
                "awkward-names: components with a backslash before every JSON escape letter, quotes, tab, glob / shell characters, NFC/NFD twins and the "
                "string literals new in the source under check, compared on object and documents; every in-domain case is also judged on the two report "
                "DOCUMENTS (an unparsable document is a failing input, not a crash of the check); query-before-complete: read-only questions (every public "
                "argument-free all_*/total_*/get_*/quality_*/ninetieth_* method of Codebase / Report / ScanTotals, len(tree), to_json, summary / overview / "
                "findings renderings) asked at random points WHILE the files are added (also on the empty code base and just before the last file), "
                "list answers emptied by the caller, then aggregate and the usual comparison with the model and the recomputed numbers; "
                "round 6: the schedule also asks questions AFTER aggregate() (every presentation function: print_report / print_totals / print_summary / "
                "print_findings of both formats, SummaryTable, ScanResultTable, with the report itself as comparison report) before object and documents are judged; "
                "scan histories: working trees of 1..7 source files in 1..5 languages (function lengths known by construction) scanned, edited (add, "
                "empty file, non-source file, remove, remove a folder, copy, move, modify, touch, .gitignore line; every third round ONE edit of one kind) and "
                "scanned again 2..4 times - through scan_command (judged on the report it writes into the cache directory) or Scanner.scan_path with the report "
                "read back from the cache (judged on the object, after presentation queries, on a second scan with the same cached report object, and on both documents); "
                "non-trivial = distinct inputs with >= 2 files and at least one folder" % (r5.novel_only(2, 10 ** 6)[:8] or "none on this tree"),
        "samples": samples, "exhaustive": False, "distribution": dist,
        "disagreements": dis[:50], "oracle_failures": fails[:50],
        "generated_hashes": {"Gen/Logic.lean": _sha(os.path.join(common.LEAN, "CodeLimit", "Gen", "Logic.lean"))},
    }


def _sha(path):
    import hashlib
    try:
        return hashlib.sha256(open(path, "rb").read()).hexdigest()[:16]
    except OSError:
        return None


def search(ctx, hints):
    fails = []
    rnd = ctx.rng("search")
    cands = [h["files"] for h in hints if h and "files" in h and h.get("naggr", 1) == 1]
    cands = [[tuple(f) for f in fs] for fs in cands if in_domain([tuple(f) for f in fs])]
    extend_names()
    cands += [gen_files(rnd) for _ in range(3000)]
    cands += [gen_unusual(rnd) for _ in range(1000)]
    for fs in cands:
        impl, _, _, snap = run_real(fs, 1)
        inp = {"stream": "search", "files": [list(f) for f in fs], "naggr": 1}
        if snap is None:
            fails.append({"input": inp, "observed": impl, "required": "no exception"})
        else:
            bad = oracle(fs, snap) + oracle_documents(fs)
            if bad:
                fails.append({"input": inp, "observed": bad[:4], "required": "C07 (recomputed from the input)"})
    for _ in range(300):
        fs = gen_files(rnd)
        sched = gen_schedule(rnd, len(fs))
        bad, s2 = history_probe(fs, sched)
        if s2 is not None:
            bad += oracle(fs, s2)
        if bad:
            fails.append({"input": {"stream": "query-before-complete", "files": [list(f) for f in fs], "naggr": 1, "schedule": sched},
                          "observed": bad[:4], "required": "C07 after a history of add_file and read-only queries"})
    fails.sort(key=lambda f: len(str(f["input"])))
    for f in fails[:3]:
        shrink_failure(f)
    return fails[:20]


def replay(payload):
    inp = payload["input"]
    if inp.get("stream") == "pathfn":
        return True
    if inp.get("stream") == "scan-history":
        bad = replay_scan_history(inp["tree_steps"])
        print("working tree history %s -> %s" % (inp["tree_steps"], "; ".join(bad[:6]) if bad else "all numbers agree"))
        return not bad
    if not isinstance(inp.get("files"), list):
        print("summary of a large input only; see the oracle failure of the same run")
        return True
    fs = [(f[0], f[1], f[2], list(f[3])) for f in inp["files"]]
    if not in_domain(fs) or inp.get("naggr", 1) != 1:
        print("input is outside the property's domain (duplicate or './' path, or not exactly one aggregate)")
        return True
    if inp.get("stream") == "query-before-complete":
        bad, s2 = history_probe(fs, [list(x) for x in inp["schedule"]])
        if s2 is not None:
            bad += oracle(fs, s2)
        print("files=%r with the queries %r in between -> %s" % (fs, inp["schedule"], "; ".join(bad) if bad else "all numbers agree"))
        return not bad
    if inp.get("stream") == "second-build":
        bad, s2 = second_build_probe(fs)
        if s2 is not None:
            bad += oracle(fs, s2)
        print("files=%r built twice -> %s" % (fs, "; ".join(bad) if bad else "all numbers agree"))
        return not bad
    if len(fs) > 400:
        impl, snap, same = run_real_big(fs)
        bad = ["raises " + impl] if snap is None else oracle_fast(fs, snap) + ([] if same else ["JSON differs from the object"])
        print("%d files (%s) -> %s" % (len(fs), inp.get("label"), "; ".join(bad[:6]) if bad else "all numbers agree"))
        return not bad
    impl, _, _, snap = run_real(fs, 1)
    if snap is None:
        print("files=%r -> %s" % (fs, impl))
        return False
    bad = oracle(fs, snap) + oracle_documents(fs)
    print("files=%r -> %s" % (fs, "; ".join(bad) if bad else "all numbers agree"))
    return not bad
