"""C14 - search returns sound, ordered, disjoint, longest and (partially) complete matches.

Streams: (1) find_all on Identity atoms: all non-nullable ASTs x all sequences (exhaustive to a
bound) + random; (2) header shapes with real token predicates over a 6-symbol token alphabet.
Oracle = direct statement of the property with reference semantics. Completeness failures that
carry the pre-emption signature are the known finding KF1.

(3) OBJECT streams (real code against the direct oracle, no model): find_all on Identity atoms with shared operator
objects, repeated calls, alphabets of words / tuples, in-place edits of the expression list between calls, size
ladders (obj_streams.py); header shapes [kw] Name G+ whose group predicate G nests Balanced inside Or / And / Not
(reference: `gscan` runs G privately per attempt), each sequence once on new objects and once in a session on the same
objects, the built-in shapes edited in place from one to the next between calls, ladders of nesting depth / groups /
headers / simultaneously open headers."""
import itertools
import os
import sys

sys.path.insert(0, os.path.dirname(os.path.dirname(os.path.abspath(__file__))))
sys.path.insert(0, os.path.join(os.path.dirname(os.path.dirname(os.path.dirname(os.path.abspath(__file__)))), "translator"))
import common
import engine_real
import patterns
import obj_streams
from gen import rx

ID = "C14"
TRUSTED = [
    "correspondence harness harness/props/C14.py (find_all on Identity atoms and on token predicates)",
    "modelled, not verified: Python object identity / deepcopy of predicates (modelled as per-attempt depth maps keyed by predicate)",
]
ASSUMPTIONS = [
    "patterns cannot match the empty sequence (as the property requires)",
    "completeness holds only up to pre-emption by a later-starting match that finishes earlier (known finding KF1; proved: C14.completeness_partial, refuted in full: C14.completeness_full_fails)",
]
REGRESS = [
    (("p", ("a", 1)), [2, 1, 1]),                    # F2: overlapping matches at the end of input
    (("u", ("c", ("c", ("c", ("a", 1), ("a", 2)), ("a", 3)), ("a", 4)), ("c", ("a", 2), ("a", 3))), [1, 2, 3, 4]),   # F2: out of order
    (("u", ("c", ("c", ("c", ("a", 1), ("a", 2)), ("a", 3)), ("a", 4)), ("c", ("a", 2), ("a", 3))), [1, 2, 3, 4, 5]),  # KF1 witness
]


# ------------------------------------------------------------------ stream 1: Identity atoms

def parse_matches(reply):
    ws = reply.split()
    if ws[0] != "ok":
        return None
    k = int(ws[1]); i = 2; out = []
    for _ in range(k):
        s, e, n = int(ws[i]), int(ws[i + 1]), int(ws[i + 2]); i += 3
        toks = [int(x) for x in ws[i:i + n]]; i += n
        out.append((s, e, toks))
    return out


def greedy_finish(r, w, p):
    """the attempt started at p: (finish index, succeeded?)"""
    cur = r
    k = p
    while k < len(w):
        nxt = rx.deriv(cur, w[k])
        if nxt == rx.EMPTY:
            break
        cur = nxt
        k += 1
    return k, (k > p and rx._nullable(cur))


def oracle_id(r, w, reply):
    """-> list of (kind, detail); kind in {'sound','order','longest','complete','error'}"""
    ms = parse_matches(reply)
    if ms is None:
        return [("error", reply)]
    bad = []
    for (s, e, toks) in ms:
        if not (0 <= s < e <= len(w)):
            bad.append(("sound", "bounds %s" % ((s, e),)))
            continue
        if toks != w[s:e]:
            bad.append(("sound", "recorded items %s != spanned %s" % (toks, w[s:e])))
        if not rx.in_lang(r, w[s:e]):
            bad.append(("sound", "match %s not in language" % ((s, e),)))
        if rx.longest_from(r, w, s) != e:
            bad.append(("longest", "match %s, longest from start is %s" % ((s, e), rx.longest_from(r, w, s))))
    for a, b in zip(ms, ms[1:]):
        if not a[1] <= b[0]:
            bad.append(("order", "%s then %s" % (a[:2], b[:2])))
    for p in range(len(w)):
        f, ok = greedy_finish(r, w, p)
        if ok and not any(s <= p < e for (s, e, _) in ms):
            pre = [(s, e) for (s, e, _) in ms if p < s and e < f]
            bad.append(("complete", {"p": p, "finish": f, "preempted_by": pre}))
    return bad


def cases_id(ctx):
    size = ctx.pick(3, 4)
    wl = ctx.pick(5, 6)
    out = list(REGRESS)
    ws = list(rx.words((1, 2, 3, 4), wl))
    for r in rx.up_to(size):
        if rx.nullable(r):
            continue
        for w in ws:
            if w:
                out.append((r, w))
    rnd = ctx.rng("id")
    for _ in range(ctx.pick(1500, 30000)):
        r = rx.random_rx(rnd, rnd.randint(3, 9))
        if rx.nullable(r):
            continue
        n = rnd.randint(1, 10)
        w = []
        while len(w) < n:   # concatenate language-biased chunks and noise
            cur = r
            for _ in range(rnd.randint(1, 4)):
                good = [x for x in (1, 2, 3) if rx.deriv(cur, x) != rx.EMPTY]
                x = rnd.choice(good) if good and rnd.random() < 0.85 else rnd.choice((1, 2, 3, 4))
                w.append(x)
                cur = rx.deriv(cur, x)
                if cur == rx.EMPTY:
                    break
        out.append((r, w[:n]))
    return out, "all non-nullable ASTs of size <= %d x all non-empty sequences of length <= %d over a,b,c,x (exhaustive) + random ASTs 3..9 with language-biased sequences" % (size, wl)


def oracle_id_long(r, w, reply, cap=300):
    """oracle_id for long sequences (position automaton; completeness only for positions whose greedy
    attempt ends within `cap` items)"""
    ms = parse_matches(reply)
    if ms is None:
        return [("error", reply)]
    P = rx.PosRef(r)
    bad = []
    for (s, e, toks) in ms:
        if not (0 <= s < e <= len(w)):
            bad.append(("sound", "bounds %s" % ((s, e),)))
            continue
        if toks != w[s:e]:
            bad.append(("sound", "recorded items differ from the spanned ones in %s" % ((s, e),)))
        lf = P.longest_from(w, s)
        if lf != e:
            bad.append(("longest" if lf is not None and P.in_lang(w[s:e]) else "sound", "match %s, longest word from its start ends at %s" % ((s, e), lf)))
    for a, b in zip(ms, ms[1:]):
        if not a[1] <= b[0]:
            bad.append(("order", "%s then %s" % (a[:2], b[:2])))
    starts = sorted(ms)
    import bisect
    ends = [m[1] for m in starts]
    for p in range(len(w)):
        k = bisect.bisect_right(ends, p)       # first match with end > p
        if k < len(starts) and starts[k][0] <= p:
            continue
        f, ok = P.greedy_finish(w[:p + cap], p)
        if ok and f < p + cap:
            pre = [(s, e) for (s, e, _) in starts[k:k + 50] if p < s and e < f]
            bad.append(("complete", {"p": p, "finish": f, "preempted_by": pre}))
    return bad[:20]


def bad_of(op, r, w, reply):
    return oracle_id_long(r, w, reply) if len(w) > 40 or rx.node_count(r) > 40 else oracle_id(r, w, reply)


def identity_histories(ctx):
    """find_all on pattern OBJECTS (see obj_streams): shared operator objects, repeated calls, alphabets of
    words / tuples with bare operands, in-place edits of the expression list between calls, size ladders"""
    rnd = ctx.rng("objects")
    ok = lambda r: not rx.nullable(r)   # noqa: E731
    ws = [w for w in rx.words((1, 2, 3), ctx.pick(3, 4)) if w]
    hs = obj_streams.sessions([r for r in rx.up_to(ctx.pick(4, 5)) if ok(r)], ws, ("findall",), rnd)
    hs += obj_streams.variants([r for r in rx.up_to(ctx.pick(3, 4)) if ok(r)], ws, ("findall",))
    hs += obj_streams.edits(rnd, ctx.pick(500, 8000), ("findall",), accept_tree=ok, max_word=10)
    hs += obj_streams.ladders(rnd, ("findall",), lengths=ctx.pick((100, 1000, 10000), (100, 1000, 10000, 100000)),
                              widths=ctx.pick((10, 100, 1000), (10, 100, 1000, 10000)), depths=(10, 30, 100),
                              accept_tree=ok, restart=True, segment=24, per_rung=ctx.pick(3, 6))
    rule = ("OBJECT streams for find_all on Identity atoms (oracle: the property on the tree the list denotes at the moment of the call): sessions = all "
            "non-nullable trees of size <= %d x all non-empty sequences of length <= %d over a,b,c with structurally equal operator sub-trees being one "
            "Python object within and across the patterns of a process, calls repeated; variants = trees of size <= %d over the alphabets %s, operands "
            "bare / as lists; edits = %d random histories on one list object edited in place between calls; ladders = sequence length %s, pattern "
            "width %s, nesting 10, 30, 100" % (ctx.pick(4, 5), ctx.pick(3, 4), ctx.pick(3, 4), ", ".join(rx.ALPHABETS), ctx.pick(500, 8000),
                                               ctx.pick("10^2..10^4", "10^2..10^5") + " (words of the language separated by a foreign item at most every 24 items: find_all keeps every attempt alive, so its time is quadratic in the length of a run)", ctx.pick("10..10^3", "10..10^4")))
    return hs, rule


def run_identity_histories(ctx):
    hs, rule = identity_histories(ctx)
    replies = engine_real.run_histories(hs)
    dist, evals, nontrivial = {}, 0, set()
    for h, rs in zip(hs, replies):
        key = h["kind"] + ("/%s" % h["rung"] if "rung" in h else "")
        n = sum(len(x) for x in rs)
        dist[key] = dist.get(key, 0) + n
        evals += n
        for st, rr in zip(h["steps"], rs):
            for (op, w), rep in zip(st["calls"], rr):
                if not rep.startswith("ok 0") and not rep.startswith("err"):
                    nontrivial.add((h["kind"], h["alphabet"], h["spelling"], str(st["ast"]) if len(str(st["ast"])) < 300 else id(st), tuple(w) if len(w) < 40 else len(w)))
    fails, known = [], []
    seen = set()
    for (hi, i, j, rep, kind, detail) in obj_streams.judge(hs, replies, bad_of):
        if is_kf1(kind, detail):
            if len(known) < 3:
                h = hs[hi]
                known.append({"input": {"stream": "objects", "history": dict(h, steps=[dict(h["steps"][i], how="new", calls=[h["steps"][i]["calls"][j]])])},
                              "observed": rep, "required": detail, "kind": kind})
            continue
        if (hi, i) in seen or len(fails) >= 12:
            continue
        seen.add((hi, i))
        nk = lambda op, r, w, reply: [b for b in bad_of(op, r, w, reply) if not is_kf1(*b)]   # noqa: E731
        small = obj_streams.shrink(hs[hi], i, j, nk) if len(fails) < 4 else None
        h = small or dict(hs[hi], steps=hs[hi]["steps"][:i + 1])
        fails.append({"input": {"stream": "objects", "history": h, "program": obj_streams.describe(h) if small else None},
                      "observed": rep, "required": detail, "kind": kind})
    fails.sort(key=lambda f: len(str(f["input"]["history"])))
    return evals, nontrivial, dist, fails + known, rule


# ------------------------------------------------------------------ stream 2: header shapes

ALPHA = ["id", "kw", "(", ")", "{", "x"]


def shapes():
    from codelimit.common.gsm.operator.OneOrMore import OneOrMore
    from codelimit.common.gsm.operator.Optional import Optional
    from codelimit.common.token_matching.predicate.Balanced import Balanced
    from codelimit.common.token_matching.predicate.Keyword import Keyword
    from codelimit.common.token_matching.predicate.Name import Name
    return [
        ("Name Balanced+", lambda: [Name(), OneOrMore(Balanced("(", ")"))], False, False),
        ("[kw] Name Balanced+", lambda: [Optional(Keyword("kw")), Name(), OneOrMore(Balanced("(", ")"))], True, False),
        ("kw Name Balanced+", lambda: [Keyword("kw"), Name(), OneOrMore(Balanced("(", ")"))], True, True),
    ]


def mk_tokens(seq):
    from pygments.token import Keyword, Name, Punctuation, Literal
    from codelimit.common.Location import Location
    from codelimit.common.Token import Token
    # "s(" / "s)": the content token of a literal '(' / ")" - text of a parenthesis, class String: an ordinary
    # token for the header shapes (defect F25: it used to open / close a group)
    tt = {"id": (Name, "f"), "kw": (Keyword, "kw"), "(": (Punctuation, "("), ")": (Punctuation, ")"),
          "{": (Punctuation, "{"), "x": (Literal, "x"), "s(": (Literal.String, "("), "s)": (Literal.String, ")"),
          "[": (Punctuation, "["), "]": (Punctuation, "]")}
    return [Token(Location(1, i + 1), tt[a][0], tt[a][1]) for i, a in enumerate(seq)]


KIND = {"id": 2, "kw": 1, "(": 3, ")": 3, "{": 3, "x": 0, "s(": 7, "s)": 7, "[": 3, "]": 3}
VAL = {"id": "f", "kw": "kw", "(": "(", ")": ")", "{": "{", "x": "x", "s(": "(", "s)": ")", "[": "[", "]": "]"}


def shape_scan(seq, p, opt_kw, req_kw):
    """reference scan of the shape from position p -> (finish, succeeded)"""
    i = p
    n = len(seq)
    if req_kw:
        if i < n and seq[i] == "kw":
            i += 1
        else:
            return p, False
    elif opt_kw and i < n and seq[i] == "kw":
        i += 1
    if not (i < n and seq[i] == "id"):
        return p, False
    i += 1
    depth = 0
    groups = 0
    while i < n:
        a = seq[i]
        if depth == 0:
            if a != "(":
                break
            depth = 1; groups += 1
        elif a == "(":
            depth += 1
        elif a == ")":
            depth -= 1
        i += 1
    return i, groups > 0


def oracle_shape(seq, ms, opt_kw, req_kw):
    bad = []
    n = len(seq)
    for (s, e, k) in ms:
        if not (0 <= s < e <= n) or k != e - s:
            bad.append(("sound", "bounds/recorded %s" % ((s, e, k),))); continue
        f, ok = shape_scan(seq, s, opt_kw, req_kw)
        if not ok or f != e:
            bad.append(("sound", "match %s; reference scan from %d finishes at %d (%s)" % ((s, e), s, f, ok)))
        # nesting back to zero unless at end of input
        depth = 0
        sub = seq[s:e]
        started = False
        for a in sub:
            if a == "(":
                depth += 1; started = True
            elif a == ")" and started:
                depth -= 1
            if depth < 0:
                bad.append(("balance", "negative nesting inside %s" % ((s, e),)))
        if e < n and depth != 0:
            bad.append(("balance", "match %s ends before the end of input at nesting %d" % ((s, e), depth)))
    for a, b in zip(ms, ms[1:]):
        if not a[1] <= b[0]:
            bad.append(("order", "%s then %s" % (a[:2], b[:2])))
    for p in range(n):
        f, ok = shape_scan(seq, p, opt_kw, req_kw)
        if ok and not any(s <= p < e for (s, e, _) in ms):
            pre = [(s, e) for (s, e, _) in ms if p < s and e < f]
            bad.append(("complete", {"p": p, "finish": f, "preempted_by": pre}))
    return bad


def real_shape(args):
    si, seqs = args
    from codelimit.common.gsm import matcher
    name, mk, opt_kw, req_kw = shapes()[si]
    out = []
    for seq in seqs:
        try:
            ps = matcher.find_all(mk(), mk_tokens(seq))
            out.append("ok %d" % len(ps) + "".join(" %d %d %d" % (p.start, p.end, len(p.tokens)) for p in ps))
        except Exception as e:  # noqa
            out.append("err %d" % engine_real.err_code(e))
    return out


def shape_cases(ctx):
    ln = ctx.pick(6, 7)
    seqs = [list(s) for n in range(1, ln + 1) for s in itertools.product(ALPHA, repeat=n)]
    rnd = ctx.rng("shape")
    for _ in range(ctx.pick(2000, 40000)):
        n = rnd.randint(ln + 1, 14)
        seqs.append([rnd.choice(["id", "kw", "(", "(", ")", ")", "{", "x", "s(", "s)"]) for _ in range(n)])
    return seqs, "header shapes x all token sequences of length <= %d over {identifier, keyword, '(', ')', '{', other} (exhaustive) + random up to length 14 (these also with String tokens whose text is a parenthesis)" % ln


def run_shapes(ctx):
    from concurrent.futures import ProcessPoolExecutor
    seqs, rule = shape_cases(ctx)
    dis, fails = [], []
    evals = 0
    nontrivial = set()
    samples = []
    for si, (name, mk, opt_kw, req_kw) in enumerate(shapes()):
        ser = patterns.expr(mk(), [])[0]
        reqs = ["ftok %s %d %s" % (ser, len(seq), " ".join("%d %d %s" % (KIND[a], len(VAL[a]), " ".join(str(ord(c)) for c in VAL[a])) for a in seq)) for seq in seqs]
        model = common.run_driver_sharded(reqs)
        k = max(200, len(seqs) // 64)
        chunks = [(si, seqs[i:i + k]) for i in range(0, len(seqs), k)]
        with ProcessPoolExecutor(max_workers=16) as ex:
            impl = [x for o in ex.map(real_shape, chunks) for x in o]
        for seq, m, i in zip(seqs, model, impl):
            evals += 1
            inp = {"stream": "shape", "shape": name, "shape_index": si, "tokens": seq}
            if m != i:
                dis.append({"stream": "find_all/" + name, "input": inp, "model": m, "impl": i})
            ms = parse3(i)
            if ms is None:
                fails.append({"input": inp, "observed": i, "required": "no exception", "kind": "error"})
                continue
            if ms:
                nontrivial.add((si, tuple(seq)))
            for kind, detail in oracle_shape(seq, ms, opt_kw, req_kw):
                fails.append({"input": inp, "observed": i, "required": detail, "kind": kind})
        samples.append({"shape": name, "tokens": seqs[len(seqs) // 3], "model": model[len(seqs) // 3], "impl": impl[len(seqs) // 3]})
    return evals, nontrivial, dis, fails, samples, rule


def parse3(reply):
    ws = reply.split()
    if ws[0] != "ok":
        return None
    k = int(ws[1])
    return [(int(ws[2 + 3 * j]), int(ws[3 + 3 * j]), int(ws[4 + 3 * j])) for j in range(k)]


# ------------------------------------------------------------------ stream 3: shapes as OBJECTS
# Header shapes  [kw] Name G+  whose group predicate G is a tree of predicates (Balanced nested in
# Or / And / Not included - the Lean model evaluates a nested Balanced as `false` and the translator
# refuses it, so the oracle here is a direct Python reference: every attempt runs G from its
# initial state, privately).  A shape history is a list of calls on ONE expression list object:
#   {"shape": {"kw": "none"|"opt"|"req", "group": tree}, "how": "new"|"same"|<edit>, "tokens": [...]}
# "same" calls again with the very same objects, an edit changes the list in place to another shape.

def P_BAL(l="(", r=")"):
    return ("bal", l, r)


FIXED_GROUPS = [   # (group tree, the single bracket pair it balances or None)
    (("not", ("not", P_BAL())), ("(", ")")),
    (("or", P_BAL(), ("kwd", "kw")), ("(", ")")),
    (("or", ("sym", "{"), P_BAL()), ("(", ")")),
    (("and", P_BAL(), ("not", ("sym", "{"))), None),      # a '{' ends the group at any depth: no balance clause
    (("and", ("not", ("sym", "{")), P_BAL()), None),
    (("or", P_BAL("[", "]"), P_BAL()), None),
    (("or", P_BAL(), P_BAL("[", "]")), None),
]
LEAVES = [P_BAL(), P_BAL("[", "]"), ("sym", "{"), ("kwd", "kw"), ("name",), ("val", "x")]


def random_group(rnd, depth=2):
    """a random predicate tree that contains a Balanced below a combinator"""
    def gen(d):
        if d == 0 or rnd.random() < 0.3:
            return rnd.choice(LEAVES)
        k = rnd.choice(("not", "or", "and", "or", "and"))
        return (k, gen(d - 1)) if k == "not" else (k, gen(d - 1), gen(d - 1))
    while True:
        g = gen(depth)
        if g[0] != "bal" and "bal" in str(g):
            return g


def real_pred(g):
    from codelimit.common.token_matching.predicate.And import And
    from codelimit.common.token_matching.predicate.Balanced import Balanced
    from codelimit.common.token_matching.predicate.Keyword import Keyword
    from codelimit.common.token_matching.predicate.Name import Name
    from codelimit.common.token_matching.predicate.Not import Not
    from codelimit.common.token_matching.predicate.Or import Or
    from codelimit.common.token_matching.predicate.Symbol import Symbol
    from codelimit.common.token_matching.predicate.TokenValue import TokenValue
    t = g[0]
    if t == "bal":
        return Balanced(g[1], g[2])
    if t == "sym":
        return Symbol(g[1])
    if t == "kwd":
        return Keyword(g[1])
    if t == "val":
        return TokenValue(g[1])
    if t == "name":
        return Name()
    if t == "not":
        return Not(real_pred(g[1]))
    return {"or": Or, "and": And}[t](real_pred(g[1]), real_pred(g[2]))


def real_shape_expr(shape):
    from codelimit.common.gsm.operator.OneOrMore import OneOrMore
    from codelimit.common.gsm.operator.Optional import Optional
    from codelimit.common.token_matching.predicate.Keyword import Keyword
    from codelimit.common.token_matching.predicate.Name import Name
    pre = {"none": [], "opt": [Optional(Keyword("kw"))], "req": [Keyword("kw")]}[shape["kw"]]
    return pre + [Name(), OneOrMore(real_pred(_tup(shape["group"])))]


def show_shape(shape):
    def sp(g):
        t = g[0]
        if t == "bal":
            return "Balanced(%r, %r)" % (g[1], g[2])
        if t == "name":
            return "Name()"
        if t in ("sym", "kwd", "val"):
            return "%s(%r)" % ({"sym": "Symbol", "kwd": "Keyword", "val": "TokenValue"}[t], g[1])
        return "%s(%s)" % (t.capitalize(), ", ".join(sp(x) for x in g[1:]))
    pre = {"none": "", "opt": "Optional(Keyword('kw')), ", "req": "Keyword('kw'), "}[shape["kw"]]
    return "[%sName(), OneOrMore(%s)]" % (pre, sp(_tup(shape["group"])))


def _tup(a):
    return tuple(_tup(x) if isinstance(x, (list, tuple)) else x for x in a)


def ref_accept(g, st, path, a):
    """reference semantics of a predicate tree on the abstract token a; st: private depth per Balanced"""
    t = g[0]
    if t == "sym":
        return KIND[a] == 3 and VAL[a] == g[1]
    if t == "kwd":
        return KIND[a] == 1 and VAL[a] == g[1]
    if t == "val":
        return VAL[a] == g[1]
    if t == "name":
        return KIND[a] == 2
    if t == "not":
        return not ref_accept(g[1], st, path + (0,), a)
    if t == "or":
        return ref_accept(g[1], st, path + (0,), a) or ref_accept(g[2], st, path + (1,), a)
    if t == "and":
        return ref_accept(g[1], st, path + (0,), a) and ref_accept(g[2], st, path + (1,), a)
    d = st.get(path, 0)
    if KIND[a] == 3 and VAL[a] == g[1]:
        st[path] = d + 1
        return True
    if KIND[a] == 3 and VAL[a] == g[2]:
        st[path] = d - 1
        return d - 1 >= 0
    return d > 0


def gscan(shape, seq, p):
    """reference scan of the shape from position p -> (finish, succeeded)"""
    i, n = p, len(seq)
    if shape["kw"] == "req":
        if i < n and seq[i] == "kw":
            i += 1
        else:
            return p, False
    elif shape["kw"] == "opt" and i < n and seq[i] == "kw":
        i += 1
    if not (i < n and seq[i] == "id"):
        return p, False
    i += 1
    first = i
    st = {}
    g = shape["group"]
    while i < n and ref_accept(g, st, (), seq[i]):
        i += 1
    return i, i > first


def oracle_gshape(shape, seq, ms):
    import bisect
    bad = []
    n = len(seq)
    pair = shape.get("pair")
    for (s, e, k) in ms:
        if not (0 <= s < e <= n) or k != e - s:
            bad.append(("sound", "bounds/recorded %s" % ((s, e, k),))); continue
        f, ok = gscan(shape, seq, s)
        if not ok or f != e:
            bad.append(("sound", "match %s; reference scan from %d finishes at %d (%s)" % ((s, e), s, f, ok)))
        if pair and e < n:
            depth = 0
            for a in seq[s:e]:
                if a == pair[0]:
                    depth += 1
                elif a == pair[1] and depth > 0:
                    depth -= 1
            if depth != 0:
                bad.append(("balance", "match %s ends before the end of input at nesting %d" % ((s, e), depth)))
    for a, b in zip(ms, ms[1:]):
        if not a[1] <= b[0]:
            bad.append(("order", "%s then %s" % (a[:2], b[:2])))
    srt = sorted(ms)
    ends = [m[1] for m in srt]
    in_order = all(a[1] <= b[0] for a, b in zip(srt, srt[1:]))
    for p in range(n):
        if seq[p] not in ("id", "kw"):
            continue
        if in_order:
            k = bisect.bisect_right(ends, p)
            if k < len(srt) and srt[k][0] <= p:
                continue
        elif any(s <= p < e for (s, e, _) in ms):
            continue
        f, ok = gscan(shape, seq, p)
        if ok:
            later = srt[bisect.bisect_right(ends, p):][:64] if in_order else srt
            pre = [(s, e) for (s, e, _) in later if p < s and e < f]
            bad.append(("complete", {"p": p, "finish": f, "preempted_by": pre}))
            if len(bad) > 50:
                break
    return bad


def run_shape_history(h):
    """-> one reply per step"""
    from codelimit.common.gsm import matcher
    E = None
    out = []
    for st in h["steps"]:
        how = st.get("how", "new")
        try:
            if how == "new" or E is None:
                E = real_shape_expr(st["shape"])
            elif how != "same":
                engine_real.edit_in_place(E, real_shape_expr(st["shape"]), how)
            ps = matcher.find_all(E, mk_tokens(st["tokens"]))
            out.append("ok %d" % len(ps) + "".join(" %d %d %d" % (p.start, p.end, len(p.tokens)) for p in ps))
        except Exception as e:  # noqa
            out.append("err %d" % engine_real.err_code(e))
    return out


def _work_sh(hs):
    out = []
    for h in hs:
        rs = run_shape_history(h)
        out.append((rs, judge_shape_history(h, rs)))
    return out


def judge_shape_history(h, rs):
    """-> [(step, reply, kind, detail)]"""
    out = []
    for i, (st, rep) in enumerate(zip(h["steps"], rs)):
        ms = parse3(rep)
        if ms is None:
            out.append((i, rep, "error", "no exception"))
            continue
        for kind, detail in oracle_gshape(st["shape"], st["tokens"], ms):
            out.append((i, rep, kind, detail))
    return out


def is_kf1(kind, detail):
    return kind == "complete" and isinstance(detail, dict) and bool(detail.get("preempted_by"))


def shrink_shape_history(h, i):
    """cut after step i and drop every earlier step that is not needed for step i to fail (KF1 aside)"""
    def fails(c):
        try:
            rs = run_shape_history(c)
        except Exception:  # noqa
            return False
        k = len(c["steps"]) - 1
        return any(j == k and not is_kf1(kind, d) for (j, _, kind, d) in judge_shape_history(c, rs))
    cur = dict(h, steps=list(h["steps"][:i + 1]))
    if not fails(cur):
        return None
    alone = dict(cur, steps=[dict(cur["steps"][-1], how="new")])
    if fails(alone):
        return alone
    # one earlier step is usually enough: try pairs before the greedy deletion
    for k in range(len(cur["steps"]) - 2, -1, -1):
        c = dict(cur, steps=[dict(cur["steps"][k], how="new"), cur["steps"][-1]])
        if fails(c):
            return c
    k = 0
    budget = 300
    while k < len(cur["steps"]) - 1 and budget:
        budget -= 1
        c = dict(cur, steps=cur["steps"][:k] + cur["steps"][k + 1:])
        if fails(c):
            cur = c
        else:
            k += 1
    return cur


def describe_shape_history(h):
    lines = []
    for n, st in enumerate(h["steps"]):
        how = st.get("how", "new")
        if how == "new" or n == 0:
            lines.append("E = %s" % show_shape(st["shape"]))
        elif how != "same":
            lines.append("edit E in place (%s) to %s" % (how, show_shape(st["shape"])))
        lines.append("  find_all(E, tokens: %s )" % " ".join(st["tokens"]))
    return lines


def shape_histories(ctx):
    rnd = ctx.rng("gshape")
    hs = []
    basic = [{"kw": k, "group": P_BAL(), "pair": ("(", ")")} for k in ("none", "opt", "req")]
    fixed = [{"kw": "none", "group": g, "pair": pair} for (g, pair) in FIXED_GROUPS]
    fixed.append({"kw": "opt", "group": FIXED_GROUPS[0][0], "pair": ("(", ")")})
    rand = [{"kw": rnd.choice(("none", "none", "opt", "req")), "group": random_group(rnd), "pair": None} for _ in range(ctx.pick(6, 40))]

    def alpha_of(shape):
        txt = str(shape["group"])
        a = ["id", "(", ")", "x"]
        if "[" in txt:
            a += ["[", "]"]
        if "{" in txt:
            a.append("{")
        if "kwd" in txt or shape["kw"] != "none":
            a.append("kw")
        return a

    def seqs_for(shape, ln, nrand):
        a = alpha_of(shape)
        out = [list(s) for n in range(1, ln + 1) for s in itertools.product(a, repeat=n)]
        wide = a + ["(", ")", "id", "s(", "s)"]
        for _ in range(nrand):
            out.append([rnd.choice(wide) for _ in range(rnd.randint(ln + 1, 14))])
        return out

    CH = 150
    # (a) nested group predicates: every sequence once with new objects, once more in a session on
    #     the same objects (the second and later calls see whatever the earlier ones left behind)
    for shape, ln in [(s, ctx.pick(5, 6)) for s in fixed] + [(s, ctx.pick(4, 5)) for s in rand]:
        seqs = seqs_for(shape, ln if len(alpha_of(shape)) <= 5 else ln - 1, ctx.pick(400, 8000))
        for i in range(0, len(seqs), CH):
            part = seqs[i:i + CH]
            hs.append({"kind": "nested/fresh", "steps": [{"shape": shape, "how": "new", "tokens": q} for q in part]})
            hs.append({"kind": "nested/session", "steps": [{"shape": shape, "how": "same" if n else "new", "tokens": q} for n, q in enumerate(part)]})
    # (b) the built-in shapes: session on the same objects, and in-place edits from one shape to the next
    seqs = seqs_for({"kw": "opt", "group": P_BAL()}, ctx.pick(4, 5), ctx.pick(600, 8000))
    for i in range(0, len(seqs), CH):
        part = seqs[i:i + CH]
        for b in basic:
            hs.append({"kind": "basic/session", "steps": [{"shape": b, "how": "same" if n else "new", "tokens": q} for n, q in enumerate(part)]})
        steps = []
        for n, q in enumerate(part):
            order = [basic[(n + k) % 3] for k in range(3)]
            for b in order:
                steps.append({"shape": b, "how": rnd.choice(engine_real.EDITS) if steps else "new", "tokens": q})
        hs.append({"kind": "basic/edits", "steps": steps})
    # (c) size ladders: nesting depth, groups per header, headers per sequence, headers alive at the same time
    for k in ctx.pick((100, 1000, 10000), (100, 1000, 10000, 100000)):
        lad = [["id"] + ["("] * k + ["x"] + [")"] * k + ["x", "id", "(", ")"],
               ["id"] + ["("] * k + ["x"] + [")"] * (k - 1),
               ["id"] + ["(", "x", ")"] * k + ["x"],
               ["kw", "id", "(", "x", ")", "x"] * k]
        if k <= 1000:
            lad.append(["id", "("] * k + ["x"] + [")"] * k)
        for q in lad:
            for shape in basic[:2] + fixed[:1]:
                hs.append({"kind": "ladder", "rung": k, "steps": [{"shape": shape, "how": "new", "tokens": q}, {"shape": shape, "how": "same", "tokens": q}]})
    rule = ("OBJECT streams for header shapes [kw] Name G+ (direct reference oracle: each attempt runs G privately from its initial state): "
            "G = Balanced nested in Or / And / Not (%d fixed + %d random predicate trees) x all token sequences up to length %d over the tokens G distinguishes "
            "+ random up to 14, each once on new objects and once in a session of %d calls on the same objects; the three built-in shapes in sessions and "
            "with in-place edits of the expression list from one shape to the next between calls; ladders: nesting depth / groups / headers / "
            "simultaneously open headers %s" % (len(fixed), len(rand), ctx.pick(5, 6), CH, ctx.pick("10^2..10^4", "10^2..10^5")))
    return hs, rule


def run_shape_histories(ctx):
    from concurrent.futures import ProcessPoolExecutor
    hs, rule = shape_histories(ctx)
    hs.sort(key=lambda h: -sum(len(s["tokens"]) for s in h["steps"]))    # long ones first
    with ProcessPoolExecutor(max_workers=16) as ex:
        nch = max(1, min(len(hs), 256))
        chunks = [hs[i::nch] for i in range(nch)]
        outs = list(ex.map(_work_sh, chunks))
    replies = {}
    for ch, out in zip(chunks, outs):
        for h, rs in zip(ch, out):
            replies[id(h)] = rs
    dist, evals, nontrivial, fails, known = {}, 0, set(), [], []
    cands = []
    for h in hs:
        rs, judged = replies[id(h)]
        key = h["kind"] + ("/%s" % h["rung"] if "rung" in h else "")
        dist[key] = dist.get(key, 0) + len(rs)
        evals += len(rs)
        for st, rep in zip(h["steps"], rs):
            if not rep.startswith("ok 0") and not rep.startswith("err"):
                nontrivial.add((str(st["shape"]), tuple(st["tokens"]) if len(st["tokens"]) < 40 else len(st["tokens"])))
        seen_steps = set()
        for (i, rep, kind, detail) in judged:
            if is_kf1(kind, detail):
                if len(known) < 3:
                    known.append({"input": {"stream": "shape-history", "history": dict(h, steps=[dict(h["steps"][i], how="new")])},
                                  "observed": rep, "required": detail, "kind": kind})
                continue
            if i in seen_steps or len(cands) >= 2000:
                continue
            seen_steps.add(i)
            cands.append((len(h["steps"][i]["tokens"]), i, len(cands), h, rep, kind, detail))
    cands.sort(key=lambda c: c[:3])
    for n, (_, i, _, h, rep, kind, detail) in enumerate(cands[:40]):    # shortest failing sequences first
        small = shrink_shape_history(h, i) if n < 8 else None
        hh = small or dict(h, steps=h["steps"][:i + 1])
        fails.append({"input": {"stream": "shape-history", "history": hh, "program": describe_shape_history(hh) if len(str(hh)) < 4000 else None},
                      "observed": rep, "required": detail, "kind": kind})
    fails.sort(key=lambda f: len(str(f["input"]["history"])))
    return evals, nontrivial, dist, fails + known, rule


# ------------------------------------------------------------------ check

def correspond(ctx):
    cs, rule1 = cases_id(ctx)
    reqs = ["findall 1 %s %d %s" % (rx.ser(r), len(w), " ".join(map(str, w))) for (r, w) in cs]
    flat = [("findall", r, w) for (r, w) in cs]
    model = common.run_driver_sharded(reqs)
    impl = engine_real.real_engine_many(flat)
    dis, fails = [], []
    nontrivial = set()
    dist = {"matches_per_input": {}, "completeness_preempted": 0}
    for (r, w), m, i in zip(cs, model, impl):
        inp = {"stream": "id", "rx": rx.show(r), "ast": r, "word": w}
        if m != i:
            dis.append({"stream": "find_all/identity", "input": inp, "model": m, "impl": i})
        ms = parse_matches(i)
        if ms:
            nontrivial.add((rx.ser(r), tuple(w)))
        dist["matches_per_input"][len(ms) if ms is not None else -1] = dist["matches_per_input"].get(len(ms) if ms is not None else -1, 0) + 1
        for kind, detail in oracle_id(r, w, i):
            if kind == "complete" and detail["preempted_by"]:
                dist["completeness_preempted"] += 1
            fails.append({"input": inp, "observed": i, "required": detail, "kind": kind})
    ev2, nt2, dis2, fails2, samples2, rule2 = run_shapes(ctx)
    ev3, nt3, dist3, fails3, rule3 = run_identity_histories(ctx)
    ev4, nt4, dist4, fails4, rule4 = run_shape_histories(ctx)
    dist["objects"] = dist3
    dist["shape_objects"] = dist4
    # keep the list short: all non-known failures first
    fails_all = fails3 + fails4 + fails + fails2
    fails_all.sort(key=lambda f: (f["kind"] == "complete" and bool(f["required"].get("preempted_by")) if isinstance(f["required"], dict) else False))
    return {
        "evaluations": len(cs) + ev2 + ev3 + ev4, "distinct_nontrivial": len(nontrivial) + len(nt2) + len(nt3) + len(nt4),
        "rule": rule1 + "; " + rule2 + "; non-trivial = distinct inputs on which the real find_all reports at least one match; " + rule3 + "; " + rule4,
        "samples": [{"pattern": rx.show(r), "sequence": w, "model": m, "impl": i} for (r, w), m, i in list(zip(cs, model, impl))[3000:3003]] + samples2,
        "exhaustive": True, "distribution": dist,
        "disagreements": (dis + dis2)[:50], "oracle_failures": fails_all[:400],
    }


def matches_known(k, failure):
    """KF1: an uncovered successful position pre-empted by a reported match that starts later and
    finishes strictly earlier"""
    if k.get("id") != "KF1":
        return False
    req = failure.get("required")
    return failure.get("kind") == "complete" and isinstance(req, dict) and bool(req.get("preempted_by"))


def replay_known(k):
    r = REGRESS[2][0]; w = REGRESS[2][1]
    i = engine_real.real_engine("findall", r, w)
    return any(kind == "complete" and d["preempted_by"] for kind, d in oracle_id(r, w, i))


def search(ctx, hints):
    fails = []
    rnd = ctx.rng("search")
    cs = []
    for r in rx.up_to(4):
        if not rx.nullable(r):
            for w in rx.words((1, 2, 3, 4), 5):
                if w:
                    cs.append(("findall", r, w))
    impl = engine_real.real_engine_many(cs)
    for (_, r, w), i in zip(cs, impl):
        for kind, detail in oracle_id(r, w, i):
            fails.append({"input": {"stream": "id", "rx": rx.show(r), "ast": r, "word": w}, "observed": i, "required": detail, "kind": kind})
    fails.sort(key=lambda f: (len(str(f["input"])),))
    return fails[:200]


def tuple_ast(a):
    return tuple(tuple_ast(x) if isinstance(x, (list, tuple)) else x for x in a)


def replay(payload):
    inp = payload["input"]
    if inp.get("stream") == "objects":
        h = inp["history"]
        print("\n".join(obj_streams.describe(h)))
        rs = engine_real.run_history(h)
        bad = [b for b in obj_streams.judge([h], [rs], bad_of) if not is_kf1(b[4], b[5])]
        for (_, i, j, rep, kind, detail) in bad[:5]:
            print("step %d call %d %s -> %s; %s: %s" % (i, j, h["steps"][i]["calls"][j], rep, kind, detail))
        return not bad
    if inp.get("stream") == "shape-history":
        h = inp["history"]
        print("\n".join(describe_shape_history(h)[:40]))
        rs = run_shape_history(h)
        bad = [b for b in judge_shape_history(h, rs) if not is_kf1(b[2], b[3])]
        for (i, rep, kind, detail) in bad[:5]:
            print("step %d -> %s; %s: %s" % (i, rep, kind, detail))
        return not bad
    if inp.get("stream") == "shape":
        si = inp["shape_index"]
        i = real_shape((si, [inp["tokens"]]))[0]
        print("shape %s tokens %s -> %s" % (inp["shape"], inp["tokens"], i))
        ms = parse3(i)
        _, _, o, q = shapes()[si]
        bad = [b for b in (oracle_shape(inp["tokens"], ms, o, q) if ms is not None else [("error", i)])
               if not (b[0] == "complete" and b[1]["preempted_by"])]
        return not bad
    r = tuple_ast(inp["ast"])
    i = engine_real.real_engine("findall", r, inp["word"])
    print("pattern %s sequence %s -> %s" % (rx.show(r), inp["word"], i))
    bad = [b for b in oracle_id(r, inp["word"], i) if not (b[0] == "complete" and b[1]["preempted_by"])]
    return not bad
