"""C14 - search returns sound, ordered, disjoint, longest and (partially) complete matches.

Streams: (1) find_all on Identity atoms: all non-nullable ASTs x all sequences (exhaustive to a
bound) + random; (2) header shapes with real token predicates over a 6-symbol token alphabet.
Oracle = direct statement of the property with reference semantics. Completeness failures that
carry the pre-emption signature are the known finding KF1.

(3) OBJECT streams (real code against the direct oracle, no model): find_all on Identity atoms with shared operator
objects, repeated calls, alphabets of words / tuples, in-place edits of the expression list between calls, size
ladders (obj_streams.py); header shapes [kw] Name G+ whose group predicate G nests Balanced inside Or / And / Not
(reference: `gscan` runs G privately per attempt), each sequence once on new objects and once in a session on the same
objects, the built-in shapes edited in place from one to the next between calls, ladders of nesting depth / groups /
headers / simultaneously open headers.

(4) TOKEN PATTERNS (same runner as 3): arbitrary rx trees whose leaves are token predicates and GROUP leaves
OneOrMore(Balanced ...), so that the stateful predicate stands first, alone, after Optional elements, inside Union and
repetitions, several groups in a row; fresh objects / sessions on the same objects / shared predicate and operator
objects / in-place edits / ladders.  Oracle: the language of the tree (gen/tokrx.py); where that language is silent
(two different predicates accept a token; a group predicate left with counters that are not the initial ones; one
predicate in two counter states) the input is counted under "tok not judged" and not judged.  The model stream (2) also
runs the two group-first shapes `Balanced+` and `[kw] Balanced+`."""
import itertools
import os
import sys

sys.path.insert(0, os.path.dirname(os.path.dirname(os.path.abspath(__file__))))
sys.path.insert(0, os.path.join(os.path.dirname(os.path.dirname(os.path.dirname(os.path.abspath(__file__)))), "translator"))
import common
import engine_real
import patterns
import obj_streams
from gen import rx
from gen import tokrx
from gen import srcdict

ID = "C14"
STRICT = os.environ.get("VERIF_C14_STRICT") == "1"      # judge also what the language leaves open (see gen/tokrx.py, repeated_group)
TRUSTED = [
    "correspondence harness harness/props/C14.py (find_all on Identity atoms and on token predicates)",
    "modelled, not verified: Python object identity / deepcopy of predicates (modelled as per-attempt depth maps keyed by predicate)",
]
ASSUMPTIONS = [
    "patterns cannot match the empty sequence (as the property requires)",
    "completeness holds only up to pre-emption by a later-starting match that finishes earlier (known finding KF1; proved: C14.completeness_partial, refuted in full: C14.completeness_full_fails)",
]
REGRESS = [
    (("p", ("a", 1)), [2, 1, 1]),                    # F2: overlapping matches at the end of input
    (("u", ("c", ("c", ("c", ("a", 1), ("a", 2)), ("a", 3)), ("a", 4)), ("c", ("a", 2), ("a", 3))), [1, 2, 3, 4]),   # F2: out of order
    (("u", ("c", ("c", ("c", ("a", 1), ("a", 2)), ("a", 3)), ("a", 4)), ("c", ("a", 2), ("a", 3))), [1, 2, 3, 4, 5]),  # KF1 witness
]


# ------------------------------------------------------------------ stream 1: Identity atoms

def parse_matches(reply):
    ws = reply.split()
    if ws[0] != "ok":
        return None
    k = int(ws[1]); i = 2; out = []
    for _ in range(k):
        s, e, n = int(ws[i]), int(ws[i + 1]), int(ws[i + 2]); i += 3
        toks = [int(x) for x in ws[i:i + n]]; i += n
        out.append((s, e, toks))
    return out


def greedy_finish(r, w, p):
    """the attempt started at p: (finish index, succeeded?)"""
    cur = r
    k = p
    while k < len(w):
        nxt = rx.deriv(cur, w[k])
        if nxt == rx.EMPTY:
            break
        cur = nxt
        k += 1
    return k, (k > p and rx._nullable(cur))


def oracle_id(r, w, reply):
    """-> list of (kind, detail); kind in {'sound','order','longest','complete','error'}"""
    ms = parse_matches(reply)
    if ms is None:
        return [("error", reply)]
    bad = []
    for (s, e, toks) in ms:
        if not (0 <= s < e <= len(w)):
            bad.append(("sound", "bounds %s" % ((s, e),)))
            continue
        if toks != w[s:e]:
            bad.append(("sound", "recorded items %s != spanned %s" % (toks, w[s:e])))
        if not rx.in_lang(r, w[s:e]):
            bad.append(("sound", "match %s not in language" % ((s, e),)))
        if rx.longest_from(r, w, s) != e:
            bad.append(("longest", "match %s, longest from start is %s" % ((s, e), rx.longest_from(r, w, s))))
    for a, b in zip(ms, ms[1:]):
        if not a[1] <= b[0]:
            bad.append(("order", "%s then %s" % (a[:2], b[:2])))
    for p in range(len(w)):
        f, ok = greedy_finish(r, w, p)
        if ok and not any(s <= p < e for (s, e, _) in ms):
            pre = [(s, e) for (s, e, _) in ms if p < s and e < f]
            bad.append(("complete", {"p": p, "finish": f, "preempted_by": pre}))
    return bad


def cases_id(ctx):
    size = ctx.pick(3, 4)
    wl = ctx.pick(5, 6)
    out = list(REGRESS)
    ws = list(rx.words((1, 2, 3, 4), wl))
    for r in rx.up_to(size):
        if rx.nullable(r):
            continue
        for w in ws:
            if w:
                out.append((r, w))
    rnd = ctx.rng("id")
    for _ in range(ctx.pick(1500, 30000)):
        r = rx.random_rx(rnd, rnd.randint(3, 9))
        if rx.nullable(r):
            continue
        n = rnd.randint(1, 10)
        w = []
        while len(w) < n:   # concatenate language-biased chunks and noise
            cur = r
            for _ in range(rnd.randint(1, 4)):
                good = [x for x in (1, 2, 3) if rx.deriv(cur, x) != rx.EMPTY]
                x = rnd.choice(good) if good and rnd.random() < 0.85 else rnd.choice((1, 2, 3, 4))
                w.append(x)
                cur = rx.deriv(cur, x)
                if cur == rx.EMPTY:
                    break
        out.append((r, w[:n]))
    return out, "all non-nullable ASTs of size <= %d x all non-empty sequences of length <= %d over a,b,c,x (exhaustive) + random ASTs 3..9 with language-biased sequences" % (size, wl)


def oracle_id_long(r, w, reply, cap=300):
    """oracle_id for long sequences (position automaton; completeness only for positions whose greedy
    attempt ends within `cap` items)"""
    ms = parse_matches(reply)
    if ms is None:
        return [("error", reply)]
    P = rx.PosRef(r)
    bad = []
    for (s, e, toks) in ms:
        if not (0 <= s < e <= len(w)):
            bad.append(("sound", "bounds %s" % ((s, e),)))
            continue
        if toks != w[s:e]:
            bad.append(("sound", "recorded items differ from the spanned ones in %s" % ((s, e),)))
        lf = P.longest_from(w, s)
        if lf != e:
            bad.append(("longest" if lf is not None and P.in_lang(w[s:e]) else "sound", "match %s, longest word from its start ends at %s" % ((s, e), lf)))
    for a, b in zip(ms, ms[1:]):
        if not a[1] <= b[0]:
            bad.append(("order", "%s then %s" % (a[:2], b[:2])))
    starts = sorted(ms)
    import bisect
    ends = [m[1] for m in starts]
    for p in range(len(w)):
        k = bisect.bisect_right(ends, p)       # first match with end > p
        if k < len(starts) and starts[k][0] <= p:
            continue
        f, ok = P.greedy_finish(w[:p + cap], p)
        if ok and f < p + cap:
            pre = [(s, e) for (s, e, _) in starts[k:k + 50] if p < s and e < f]
            bad.append(("complete", {"p": p, "finish": f, "preempted_by": pre}))
    return bad[:20]


def bad_of(op, r, w, reply):
    if op != "findall":      # calls of the other entry points in a mixed session: history, judged by C13
        return []
    return oracle_id_long(r, w, reply) if len(w) > 40 or rx.node_count(r) > 40 else oracle_id(r, w, reply)


def identity_histories(ctx):
    """find_all on pattern OBJECTS (see obj_streams): shared operator objects, repeated calls, alphabets of
    words / tuples with bare operands, in-place edits of the expression list between calls, size ladders"""
    rnd = ctx.rng("objects")
    ok = lambda r: not rx.nullable(r)   # noqa: E731
    ws = [w for w in rx.words((1, 2, 3), ctx.pick(3, 4)) if w]
    hs = obj_streams.sessions([r for r in rx.up_to(ctx.pick(4, 5)) if ok(r)], ws, ("findall",), rnd)
    hs += obj_streams.variants([r for r in rx.up_to(ctx.pick(3, 4)) if ok(r)], ws, ("findall",))
    mixed = obj_streams.sessions([r for r in rx.up_to(ctx.pick(3, 4)) if ok(r)], ws, ("sw", "findall", "match", "nfa", "findall"), rnd)
    for n, h in enumerate(mixed):        # the same sessions with the other entry points between the searches, over every alphabet in turn
        h["kind"] = "session/mixed"
        h["alphabet"] = list(rx.ALPHABETS)[n % len(rx.ALPHABETS)]
    hs += mixed
    hs += obj_streams.edits(rnd, ctx.pick(500, 8000), ("findall",), accept_tree=ok, max_word=10)
    hs += obj_streams.ladders(rnd, ("findall",), lengths=ctx.pick((100, 1000, 10000), (100, 1000, 10000, 100000)),
                              widths=ctx.pick((10, 100, 1000), (10, 100, 1000, 10000)), depths=(10, 30, 100),
                              accept_tree=ok, restart=True, segment=24, per_rung=ctx.pick(3, 6))
    rule = ("OBJECT streams for find_all on Identity atoms (oracle: the property on the tree the list denotes at the moment of the call): sessions = all "
            "non-nullable trees of size <= %d x all non-empty sequences of length <= %d over a,b,c with structurally equal operator sub-trees being one "
            "Python object within and across the patterns of a process, calls repeated; session/mixed = the same for the trees of the variants with "
            "starts_with / match / nfa_match called on the same objects between the searches (only the searches are judged here), alphabets in turn; variants = trees of size <= %d over the alphabets %s, operands "
            "bare / as lists; edits = %d random histories on one list object edited in place between calls; ladders = sequence length %s, pattern "
            "width %s, nesting 10, 30, 100" % (ctx.pick(4, 5), ctx.pick(3, 4), ctx.pick(3, 4), ", ".join(rx.ALPHABETS), ctx.pick(500, 8000),
                                               ctx.pick("10^2..10^4", "10^2..10^5") + " (words of the language separated by a foreign item at most every 24 items: find_all keeps every attempt alive, so its time is quadratic in the length of a run)", ctx.pick("10..10^3", "10..10^4")))
    return hs, rule


def run_identity_histories(ctx):
    hs, rule = identity_histories(ctx)
    replies = engine_real.run_histories(hs)
    dist, evals, nontrivial = {}, 0, set()
    for h, rs in zip(hs, replies):
        key = h["kind"] + ("/%s" % h["rung"] if "rung" in h else "")
        n = sum(len(x) for x in rs)
        dist[key] = dist.get(key, 0) + n
        evals += n
        for st, rr in zip(h["steps"], rs):
            for (op, w), rep in zip(st["calls"], rr):
                if not rep.startswith("ok 0") and not rep.startswith("err"):
                    nontrivial.add((h["kind"], h["alphabet"], h["spelling"], str(st["ast"]) if len(str(st["ast"])) < 300 else id(st), tuple(w) if len(w) < 40 else len(w)))
    fails, known = [], []
    seen = set()
    for (hi, i, j, rep, kind, detail) in obj_streams.judge(hs, replies, bad_of):
        if is_kf1(kind, detail):
            if len(known) < 3:
                h = hs[hi]
                known.append({"input": {"stream": "objects", "history": dict(h, steps=[dict(h["steps"][i], how="new", calls=[h["steps"][i]["calls"][j]])])},
                              "observed": rep, "required": detail, "kind": kind})
            continue
        if (hi, i) in seen or len(fails) >= 12:
            continue
        seen.add((hi, i))
        nk = lambda op, r, w, reply: [b for b in bad_of(op, r, w, reply) if not is_kf1(*b)]   # noqa: E731
        small = obj_streams.shrink(hs[hi], i, j, nk) if len(fails) < 4 else None
        h = small or dict(hs[hi], steps=hs[hi]["steps"][:i + 1])
        fails.append({"input": {"stream": "objects", "history": h, "program": obj_streams.describe(h) if small else None},
                      "observed": rep, "required": detail, "kind": kind})
    fails.sort(key=lambda f: len(str(f["input"]["history"])))
    return evals, nontrivial, dist, fails + known, rule


# ------------------------------------------------------------------ stream 2: header shapes

ALPHA = ["id", "kw", "(", ")", "{", "x"]


def shapes():
    from codelimit.common.gsm.operator.OneOrMore import OneOrMore
    from codelimit.common.gsm.operator.Optional import Optional
    from codelimit.common.token_matching.predicate.Balanced import Balanced
    from codelimit.common.token_matching.predicate.Keyword import Keyword
    from codelimit.common.token_matching.predicate.Name import Name
    return [
        ("Name Balanced+", lambda: [Name(), OneOrMore(Balanced("(", ")"))], False, False),
        ("[kw] Name Balanced+", lambda: [Optional(Keyword("kw")), Name(), OneOrMore(Balanced("(", ")"))], True, False),
        ("kw Name Balanced+", lambda: [Keyword("kw"), Name(), OneOrMore(Balanced("(", ")"))], True, True),
        # the stateful predicate FIRST (alone / after an Optional element): shorter exhaustive bound (GROUP_FIRST)
        ("Balanced+", lambda: [OneOrMore(Balanced("(", ")"))], False, False),
        ("[kw] Balanced+", lambda: [Optional(Keyword("kw")), OneOrMore(Balanced("(", ")"))], True, False),
    ]


GROUP_FIRST = ("Balanced+", "[kw] Balanced+")


def shape_args(si):
    name, mk, opt_kw, req_kw = shapes()[si]
    return opt_kw, req_kw, name not in GROUP_FIRST


LOC_VARIANTS = ("reversed", "restart", "equal", "columns-back")


def locations(n, variant):
    """token LOCATIONS that do not increase with the position in the sequence (the property is about positions; a token list
    assembled from separately lexed pieces, or from generated / included text, has such locations)"""
    if variant == "reversed":        # one token per line, the last token on line 1
        return [(n - i, 1) for i in range(n)]
    if variant == "restart":         # two pieces, each numbering its lines from 1
        h = n // 2
        return [(i + 2, 1) if i < h else (i - h + 1, 1) for i in range(n)]
    if variant == "equal":           # all tokens at one dummy location
        return [(1, 1)] * n
    if variant == "columns-back":    # one line, columns running backwards
        return [(1, n - i) for i in range(n)]
    return [(1, i + 1) for i in range(n)]


def mk_tokens(seq, variant=None):
    from pygments.token import Keyword, Name, Punctuation, Literal
    from codelimit.common.Location import Location
    from codelimit.common.Token import Token
    # "s(" / "s)": the content token of a literal '(' / ")" - text of a parenthesis, class String: an ordinary
    # token for the header shapes (defect F25: it used to open / close a group)
    tt = {"id": (Name, "f"), "kw": (Keyword, "kw"), "(": (Punctuation, "("), ")": (Punctuation, ")"),
          "{": (Punctuation, "{"), "x": (Literal, "x"), "s(": (Literal.String, "("), "s)": (Literal.String, ")"),
          "[": (Punctuation, "["), "]": (Punctuation, "]")}
    locs = locations(len(seq), variant)
    return [Token(Location(locs[i][0], locs[i][1]), tt[a][0], tt[a][1]) for i, a in enumerate(seq)]


KIND = {"id": 2, "kw": 1, "(": 3, ")": 3, "{": 3, "x": 0, "s(": 7, "s)": 7, "[": 3, "]": 3}
VAL = {"id": "f", "kw": "kw", "(": "(", ")": ")", "{": "{", "x": "x", "s(": "(", "s)": ")", "[": "[", "]": "]"}


def shape_scan(seq, p, opt_kw, req_kw, name=True):
    """reference scan of the shape from position p -> (finish, succeeded)"""
    i = p
    n = len(seq)
    if req_kw:
        if i < n and seq[i] == "kw":
            i += 1
        else:
            return p, False
    elif opt_kw and i < n and seq[i] == "kw":
        i += 1
    if name:
        if not (i < n and seq[i] == "id"):
            return p, False
        i += 1
    depth = 0
    groups = 0
    while i < n:
        a = seq[i]
        if depth == 0:
            if a != "(":
                break
            depth = 1; groups += 1
        elif a == "(":
            depth += 1
        elif a == ")":
            depth -= 1
        i += 1
    return i, groups > 0


def oracle_shape(seq, ms, opt_kw, req_kw, name=True):
    bad = []
    n = len(seq)
    for (s, e, k) in ms:
        if not (0 <= s < e <= n) or k != e - s:
            bad.append(("sound", "bounds/recorded %s" % ((s, e, k),))); continue
        f, ok = shape_scan(seq, s, opt_kw, req_kw, name)
        if not ok or f != e:
            bad.append(("sound", "match %s; reference scan from %d finishes at %d (%s)" % ((s, e), s, f, ok)))
        # nesting back to zero unless at end of input
        depth = 0
        sub = seq[s:e]
        started = False
        for a in sub:
            if a == "(":
                depth += 1; started = True
            elif a == ")" and started:
                depth -= 1
            if depth < 0:
                bad.append(("balance", "negative nesting inside %s" % ((s, e),)))
        if e < n and depth != 0:
            bad.append(("balance", "match %s ends before the end of input at nesting %d" % ((s, e), depth)))
    for a, b in zip(ms, ms[1:]):
        if not a[1] <= b[0]:
            bad.append(("order", "%s then %s" % (a[:2], b[:2])))
    for p in range(n):
        f, ok = shape_scan(seq, p, opt_kw, req_kw, name)
        if ok and not any(s <= p < e for (s, e, _) in ms):
            pre = [(s, e) for (s, e, _) in ms if p < s and e < f]
            bad.append(("complete", {"p": p, "finish": f, "preempted_by": pre}))
    return bad


def real_shape(args):
    si, seqs = args
    from codelimit.common.gsm import matcher
    name, mk, opt_kw, req_kw = shapes()[si]
    out = []
    for seq in seqs:
        try:
            ps = matcher.find_all(mk(), mk_tokens(seq))
            rep = "ok %d" % len(ps) + "".join(" %d %d %d" % (p.start, p.end, len(p.tokens)) for p in ps)
            if len(ps) >= 2 and name not in GROUP_FIRST:
                rep += headers_probe(mk, seq, [(p.start, p.end) for p in ps])
            out.append(rep)
        except Exception as e:  # noqa
            out.append("err %d" % engine_real.err_code(e))
    return out


HDR_MARK = " #hdr "


def headers_probe(mk, seq, want):
    """the observation point of the header shapes, scope_utils.get_headers, on the same tokens at non-monotone LOCATIONS:
    its ranges must be find_all's, in position order -> "" or HDR_MARK + what differs"""
    from codelimit.common.scope.scope_utils import get_headers
    for variant in LOC_VARIANTS:
        try:
            hs = get_headers(mk_tokens(seq, variant), mk())
            got = [(h.token_range.start, h.token_range.end) for h in hs]
        except Exception as e:  # noqa
            got = "%s: %s" % (type(e).__name__, e)
        if got != want:
            return HDR_MARK + "get_headers with %s locations %s -> %s, find_all (position order) %s" % (variant, locations(len(seq), variant), got, want)
    return ""


def shape_cases(ctx):
    ln = ctx.pick(6, 7)
    seqs = [list(s) for n in range(1, ln + 1) for s in itertools.product(ALPHA, repeat=n)]
    rnd = ctx.rng("shape")
    for _ in range(ctx.pick(2000, 40000)):
        n = rnd.randint(ln + 1, 14)
        seqs.append([rnd.choice(["id", "kw", "(", "(", ")", ")", "{", "x", "s(", "s)"]) for _ in range(n)])
    return seqs, "header shapes x all token sequences of length <= %d over {identifier, keyword, '(', ')', '{', other} (exhaustive) + random up to length 14 (these also with String tokens whose text is a parenthesis)" % ln


def run_shapes(ctx):
    from concurrent.futures import ProcessPoolExecutor
    seqs, rule = shape_cases(ctx)
    dis, fails = [], []
    evals = 0
    nontrivial = set()
    samples = []
    all_seqs = seqs
    hdr_probes = [0]
    short = [q for q in all_seqs if len(q) < ctx.pick(6, 7)] + [q for q in all_seqs if len(q) > ctx.pick(6, 7)][::4]
    for si, (name, mk, opt_kw, req_kw) in enumerate(shapes()):
        ser = patterns.expr(mk(), [])[0]
        need_name = name not in GROUP_FIRST
        seqs = all_seqs if need_name else short
        reqs = ["ftok %s %d %s" % (ser, len(seq), " ".join("%d %d %s" % (KIND[a], len(VAL[a]), " ".join(str(ord(c)) for c in VAL[a])) for a in seq)) for seq in seqs]
        model = common.run_driver_sharded(reqs)
        k = max(200, len(seqs) // 64)
        chunks = [(si, seqs[i:i + k]) for i in range(0, len(seqs), k)]
        with ProcessPoolExecutor(max_workers=16) as ex:
            impl = [x for o in ex.map(real_shape, chunks) for x in o]
        for seq, m, i in zip(seqs, model, impl):
            evals += 1
            inp = {"stream": "shape", "shape": name, "shape_index": si, "tokens": seq}
            i, _, hdr = i.partition(HDR_MARK)
            if hdr:
                fails.append({"input": inp, "observed": hdr, "required": "headers in position order, the ranges find_all reports", "kind": "order"})
            if need_name and i.startswith("ok") and int(i.split()[1]) >= 2:
                hdr_probes[0] += len(LOC_VARIANTS)
            if m != i:
                dis.append({"stream": "find_all/" + name, "input": inp, "model": m, "impl": i})
            ms = parse3(i)
            if ms is None:
                fails.append({"input": inp, "observed": i, "required": "no exception", "kind": "error"})
                continue
            if ms:
                nontrivial.add((si, tuple(seq)))
            for kind, detail in oracle_shape(seq, ms, opt_kw, req_kw, need_name):
                fails.append({"input": inp, "observed": i, "required": detail, "kind": kind})
        samples.append({"shape": name, "tokens": seqs[len(seqs) // 3], "model": model[len(seqs) // 3], "impl": impl[len(seqs) // 3]})
    dis.sort(key=lambda d: len(d["input"]["tokens"]))
    evals += hdr_probes[0]
    rule += ("; every sequence with >= 2 matches of a shape with a name also through scope_utils.get_headers on the same tokens at non-monotone "
             "LOCATIONS (%s): its ranges must be find_all's in position order (%d calls)" % (", ".join(LOC_VARIANTS), hdr_probes[0]))
    rule += "; the shapes that BEGIN with the group (Balanced+ alone, [kw] Balanced+) over the sequences up to length %d and a quarter of the random ones" % (ctx.pick(6, 7) - 1)
    return evals, nontrivial, dis, fails, samples, rule


def parse3(reply):
    ws = reply.split()
    if ws[0] != "ok":
        return None
    k = int(ws[1])
    return [(int(ws[2 + 3 * j]), int(ws[3 + 3 * j]), int(ws[4 + 3 * j])) for j in range(k)]


# ------------------------------------------------------------------ stream 3: shapes as OBJECTS
# Header shapes  [kw] Name G+  whose group predicate G is a tree of predicates (Balanced nested in
# Or / And / Not included - the Lean model evaluates a nested Balanced as `false` and the translator
# refuses it, so the oracle here is a direct Python reference: every attempt runs G from its
# initial state, privately).  A shape history is a list of calls on ONE expression list object:
#   {"shape": {"kw": "none"|"opt"|"req", "group": tree}, "how": "new"|"same"|<edit>, "tokens": [...]}
# "same" calls again with the very same objects, an edit changes the list in place to another shape.

def P_BAL(l="(", r=")"):
    return ("bal", l, r)


FIXED_GROUPS = [   # (group tree, the single bracket pair it balances or None)
    (("not", ("not", P_BAL())), ("(", ")")),
    (("or", P_BAL(), ("kwd", "kw")), ("(", ")")),
    (("or", ("sym", "{"), P_BAL()), ("(", ")")),
    (("and", P_BAL(), ("not", ("sym", "{"))), None),      # a '{' ends the group at any depth: no balance clause
    (("and", ("not", ("sym", "{")), P_BAL()), None),
    (("or", P_BAL("[", "]"), P_BAL()), None),
    (("or", P_BAL(), P_BAL("[", "]")), None),
]
LEAVES = [P_BAL(), P_BAL("[", "]"), ("sym", "{"), ("kwd", "kw"), ("name",), ("val", "x")]


def random_group(rnd, depth=2):
    """a random predicate tree that contains a Balanced below a combinator"""
    def gen(d):
        if d == 0 or rnd.random() < 0.3:
            return rnd.choice(LEAVES)
        k = rnd.choice(("not", "or", "and", "or", "and"))
        return (k, gen(d - 1)) if k == "not" else (k, gen(d - 1), gen(d - 1))
    while True:
        g = gen(depth)
        if g[0] != "bal" and "bal" in str(g):
            return g


def real_pred(g):
    from codelimit.common.token_matching.predicate.And import And
    from codelimit.common.token_matching.predicate.Balanced import Balanced
    from codelimit.common.token_matching.predicate.Keyword import Keyword
    from codelimit.common.token_matching.predicate.Name import Name
    from codelimit.common.token_matching.predicate.Not import Not
    from codelimit.common.token_matching.predicate.Or import Or
    from codelimit.common.token_matching.predicate.Symbol import Symbol
    from codelimit.common.token_matching.predicate.TokenValue import TokenValue
    t = g[0]
    if t == "bal":
        return Balanced(g[1], g[2])
    if t == "sym":
        return Symbol(g[1])
    if t == "kwd":
        return Keyword(g[1])
    if t == "val":
        return TokenValue(g[1])
    if t == "name":
        return Name()
    if t == "not":
        return Not(real_pred(g[1]))
    return {"or": Or, "and": And}[t](real_pred(g[1]), real_pred(g[2]))


def real_shape_expr(shape):
    from codelimit.common.gsm.operator.OneOrMore import OneOrMore
    from codelimit.common.gsm.operator.Optional import Optional
    from codelimit.common.token_matching.predicate.Keyword import Keyword
    from codelimit.common.token_matching.predicate.Name import Name
    pre = {"none": [], "opt": [Optional(Keyword("kw"))], "req": [Keyword("kw")]}[shape["kw"]]
    return pre + [Name(), OneOrMore(real_pred(_tup(shape["group"])))]


def show_shape(shape):
    def sp(g):
        t = g[0]
        if t == "bal":
            return "Balanced(%r, %r)" % (g[1], g[2])
        if t == "name":
            return "Name()"
        if t in ("sym", "kwd", "val"):
            return "%s(%r)" % ({"sym": "Symbol", "kwd": "Keyword", "val": "TokenValue"}[t], g[1])
        return "%s(%s)" % (t.capitalize(), ", ".join(sp(x) for x in g[1:]))
    pre = {"none": "", "opt": "Optional(Keyword('kw')), ", "req": "Keyword('kw'), "}[shape["kw"]]
    return "[%sName(), OneOrMore(%s)]" % (pre, sp(_tup(shape["group"])))


def _tup(a):
    return tuple(_tup(x) if isinstance(x, (list, tuple)) else x for x in a)


def ref_accept(g, st, path, a):
    """reference semantics of a predicate tree on the abstract token a; st: private depth per Balanced"""
    t = g[0]
    if t == "sym":
        return KIND[a] == 3 and VAL[a] == g[1]
    if t == "kwd":
        return KIND[a] == 1 and VAL[a] == g[1]
    if t == "val":
        return VAL[a] == g[1]
    if t == "name":
        return KIND[a] == 2
    if t == "not":
        return not ref_accept(g[1], st, path + (0,), a)
    if t == "or":
        return ref_accept(g[1], st, path + (0,), a) or ref_accept(g[2], st, path + (1,), a)
    if t == "and":
        return ref_accept(g[1], st, path + (0,), a) and ref_accept(g[2], st, path + (1,), a)
    d = st.get(path, 0)
    if KIND[a] == 3 and VAL[a] == g[1]:
        st[path] = d + 1
        return True
    if KIND[a] == 3 and VAL[a] == g[2]:
        st[path] = d - 1
        return d - 1 >= 0
    return d > 0


def gscan(shape, seq, p):
    """reference scan of the shape from position p -> (finish, succeeded)"""
    i, n = p, len(seq)
    if shape["kw"] == "req":
        if i < n and seq[i] == "kw":
            i += 1
        else:
            return p, False
    elif shape["kw"] == "opt" and i < n and seq[i] == "kw":
        i += 1
    if not (i < n and seq[i] == "id"):
        return p, False
    i += 1
    first = i
    st = {}
    g = shape["group"]
    while i < n and ref_accept(g, st, (), seq[i]):
        i += 1
    return i, i > first


def oracle_gshape(shape, seq, ms):
    import bisect
    bad = []
    n = len(seq)
    pair = shape.get("pair")
    for (s, e, k) in ms:
        if not (0 <= s < e <= n) or k != e - s:
            bad.append(("sound", "bounds/recorded %s" % ((s, e, k),))); continue
        f, ok = gscan(shape, seq, s)
        if not ok or f != e:
            bad.append(("sound", "match %s; reference scan from %d finishes at %d (%s)" % ((s, e), s, f, ok)))
        if pair and e < n:
            depth = 0
            for a in seq[s:e]:
                if a == pair[0]:
                    depth += 1
                elif a == pair[1] and depth > 0:
                    depth -= 1
            if depth != 0:
                bad.append(("balance", "match %s ends before the end of input at nesting %d" % ((s, e), depth)))
    for a, b in zip(ms, ms[1:]):
        if not a[1] <= b[0]:
            bad.append(("order", "%s then %s" % (a[:2], b[:2])))
    srt = sorted(ms)
    ends = [m[1] for m in srt]
    in_order = all(a[1] <= b[0] for a, b in zip(srt, srt[1:]))
    for p in range(n):
        if seq[p] not in ("id", "kw"):
            continue
        if in_order:
            k = bisect.bisect_right(ends, p)
            if k < len(srt) and srt[k][0] <= p:
                continue
        elif any(s <= p < e for (s, e, _) in ms):
            continue
        f, ok = gscan(shape, seq, p)
        if ok:
            later = srt[bisect.bisect_right(ends, p):][:64] if in_order else srt
            pre = [(s, e) for (s, e, _) in later if p < s and e < f]
            bad.append(("complete", {"p": p, "finish": f, "preempted_by": pre}))
            if len(bad) > 50:
                break
    return bad


def run_shape_history(h):
    """-> one reply per step"""
    from codelimit.common.gsm import matcher
    E = None
    out = []
    cache = {"preds": {}, "ops": {}}      # objects shared by the token patterns of this history (see real_tok_expr)
    for st in h["steps"]:
        how = st.get("how", "new")
        if how == "new" and not h.get("keep_objects"):
            cache = {"preds": {}, "ops": {}}
        build = (lambda: real_tok_expr(_tup(st["ast"]), h.get("sharing", "none"), cache)) if "ast" in st else (lambda: real_shape_expr(st["shape"]))
        try:
            if how == "new" or E is None:
                E = build()
            elif how != "same":
                engine_real.edit_in_place(E, build(), how)
            for (op, toks) in st.get("before", ()):      # other entry points on the SAME expression object first (not judged here)
                other_entry_point(op, E, mk_tokens(toks))
            ps = matcher.find_all(E, mk_tokens(st["tokens"]))
            out.append("ok %d" % len(ps) + "".join(" %d %d %d" % (p.start, p.end, len(p.tokens)) for p in ps))
        except Exception as e:  # noqa
            out.append("err %d" % engine_real.err_code(e))
    return out


# Entry points of the engine a caller may use on an expression object between two searches.  What they return is the
# business of C13; here they are HISTORY: none of them may change what the next find_all on the same object reports.
# nfa_match is left out unless VERIF_C14_STRICT=1: on the unchanged tree it evaluates the caller's predicate objects
# themselves (no private copy), so nfa_match(E, 'f (') leaves the Balanced of E at depth 1 and the next find_all(E, ..)
# starts every attempt from that depth (reported as a finding of the round-6 hardening; see FINDINGS in the report).
ENTRY_POINTS = ("match", "sw", "hdr", "findall") + (("nfa",) if STRICT else ())
ENTRY_NAMES = {"match": "match(E, %s)", "sw": "starts_with(E, %s)", "nfa": "nfa_match(E, %s)", "findall": "find_all(E, %s)",
               "hdr": "get_headers(%s, E, followed_by=E)"}


def other_entry_point(op, E, toks):
    from codelimit.common.gsm import matcher
    try:
        if op == "match":
            matcher.match(E, toks)
        elif op == "sw":
            matcher.starts_with(E, toks)
        elif op == "nfa":
            matcher.nfa_match(E, toks)
        elif op == "findall":
            matcher.find_all(E, toks)
        elif op == "hdr":
            from codelimit.common.scope.scope_utils import get_headers
            get_headers(toks, E, E)
    except Exception:  # noqa  (ambiguity errors, no name token in a header, ...: only the state left behind matters)
        pass


def mixed_steps(rnd, steps, pool):
    """the session `steps` with one or two calls of other entry points before every search: on the sequence of the
    step itself, on another sequence of the pool, or on a prefix of either (a prefix ends inside open groups)"""
    out = []
    for st in steps:
        before = []
        for _ in range(rnd.choice((1, 1, 2))):
            q = list(st["tokens"] if rnd.random() < 0.5 else rnd.choice(pool))
            if len(q) > 1 and rnd.random() < 0.6:
                q = q[:rnd.randint(1, len(q) - 1)]
            before.append([rnd.choice(ENTRY_POINTS), q[:40]])
        out.append(dict(st, before=before))
    return out


def _work_sh(hs):
    out = []
    for h in hs:
        rs = run_shape_history(h)
        out.append((rs, judge_shape_history(h, rs)))
    return out


def judge_shape_history(h, rs):
    """-> [(step, reply, kind, detail)]"""
    out = []
    for i, (st, rep) in enumerate(zip(h["steps"], rs)):
        ms = parse3(rep)
        if "ast" in st:
            for kind, detail in oracle_tok(_tup(st["ast"]), st["tokens"], ms, rep, cap=h.get("cap")):
                out.append((i, rep, kind, detail))
            continue
        if ms is None:
            out.append((i, rep, "error", "no exception"))
            continue
        for kind, detail in oracle_gshape(st["shape"], st["tokens"], ms):
            out.append((i, rep, kind, detail))
    return out


def is_kf1(kind, detail):
    return kind == "complete" and isinstance(detail, dict) and bool(detail.get("preempted_by"))


def shrink_shape_history(h, i):
    """cut after step i and drop every earlier step that is not needed for step i to fail (KF1 aside)"""
    def fails(c):
        try:
            rs = run_shape_history(c)
        except Exception:  # noqa
            return False
        k = len(c["steps"]) - 1
        return any(j == k and kind != "unjudged" and not is_kf1(kind, d) for (j, _, kind, d) in judge_shape_history(c, rs))

    def fewer_tokens(c, budget=120):
        """drop tokens of the last (failing) step one at a time while it still fails"""
        toks = list(c["steps"][-1]["tokens"])
        if len(toks) > 60:
            return c
        k = 0
        while k < len(toks) and budget:
            budget -= 1
            t = toks[:k] + toks[k + 1:]
            cc = dict(c, steps=c["steps"][:-1] + [dict(c["steps"][-1], tokens=t)])
            if t and fails(cc):
                toks, c = t, cc
            else:
                k += 1
        return c
    def fewer_before(c, budget=60):
        """drop the calls of other entry points that are not needed, shorten the sequences of the others"""
        for k in range(len(c["steps"])):
            b = list(c["steps"][k].get("before", ()))
            j = 0
            while j < len(b) and budget:
                budget -= 1
                cc = dict(c, steps=[dict(x, before=b[:j] + b[j + 1:]) if n == k else x for n, x in enumerate(c["steps"])])
                if fails(cc):
                    c, b = cc, b[:j] + b[j + 1:]
                else:
                    j += 1
            for j in range(len(b)):
                while len(b[j][1]) > 1 and budget:
                    budget -= 1
                    b2 = b[:j] + [[b[j][0], b[j][1][:-1]]] + b[j + 1:]
                    cc = dict(c, steps=[dict(x, before=b2) if n == k else x for n, x in enumerate(c["steps"])])
                    if not fails(cc):
                        break
                    c, b = cc, b2
        return c

    cur = dict(h, steps=list(h["steps"][:i + 1]))
    if not fails(cur):
        return None
    alone = dict(cur, steps=[dict(cur["steps"][-1], how="new")])
    if fails(alone):
        return fewer_tokens(fewer_before(alone))
    nob = dict(cur, steps=[{k: v for k, v in x.items() if k != "before"} for x in cur["steps"]])
    if fails(nob):
        cur = nob
    # one earlier step is usually enough: try pairs before the greedy deletion
    for k in range(len(cur["steps"]) - 2, -1, -1):
        c = dict(cur, steps=[dict(cur["steps"][k], how="new"), cur["steps"][-1]])
        if fails(c):
            return fewer_tokens(fewer_before(c))
    k = 0
    budget = 300
    while k < len(cur["steps"]) - 1 and budget:
        budget -= 1
        c = dict(cur, steps=cur["steps"][:k] + cur["steps"][k + 1:])
        if fails(c):
            cur = c
        else:
            k += 1
    return fewer_tokens(fewer_before(cur))


def describe_shape_history(h):
    lines = []
    for n, st in enumerate(h["steps"]):
        how = st.get("how", "new")
        src = show_tok(_tup(st["ast"])) if "ast" in st else show_shape(st["shape"])
        if how == "new" or n == 0:
            lines.append("E = %s" % src + ("    # sharing of predicate / operator objects: %s" % h["sharing"] if h.get("sharing", "none") != "none" else ""))
        elif how != "same":
            lines.append("edit E in place (%s) to %s" % (how, src))
        for (op, toks) in st.get("before", ()):
            lines.append("  " + ENTRY_NAMES[op] % ("tokens: %s " % " ".join(toks)))
        lines.append("  find_all(E, tokens: %s )" % " ".join(st["tokens"]))
    return lines


def shape_histories(ctx):
    rnd = ctx.rng("gshape")
    hs = []
    basic = [{"kw": k, "group": P_BAL(), "pair": ("(", ")")} for k in ("none", "opt", "req")]
    fixed = [{"kw": "none", "group": g, "pair": pair} for (g, pair) in FIXED_GROUPS]
    fixed.append({"kw": "opt", "group": FIXED_GROUPS[0][0], "pair": ("(", ")")})
    rand = [{"kw": rnd.choice(("none", "none", "opt", "req")), "group": random_group(rnd), "pair": None} for _ in range(ctx.pick(6, 40))]

    def alpha_of(shape):
        txt = str(shape["group"])
        a = ["id", "(", ")", "x"]
        if "[" in txt:
            a += ["[", "]"]
        if "{" in txt:
            a.append("{")
        if "kwd" in txt or shape["kw"] != "none":
            a.append("kw")
        return a

    def seqs_for(shape, ln, nrand):
        a = alpha_of(shape)
        out = [list(s) for n in range(1, ln + 1) for s in itertools.product(a, repeat=n)]
        wide = a + ["(", ")", "id", "s(", "s)"]
        for _ in range(nrand):
            out.append([rnd.choice(wide) for _ in range(rnd.randint(ln + 1, 14))])
        return out

    CH = 150
    # (a) nested group predicates: every sequence once with new objects, once more in a session on
    #     the same objects (the second and later calls see whatever the earlier ones left behind)
    for shape, ln in [(s, ctx.pick(5, 6)) for s in fixed] + [(s, ctx.pick(4, 5)) for s in rand]:
        seqs = seqs_for(shape, ln if len(alpha_of(shape)) <= 5 else ln - 1, ctx.pick(400, 8000))
        for i in range(0, len(seqs), CH):
            part = seqs[i:i + CH]
            hs.append({"kind": "nested/fresh", "steps": [{"shape": shape, "how": "new", "tokens": q} for q in part]})
            hs.append({"kind": "nested/session", "steps": [{"shape": shape, "how": "same" if n else "new", "tokens": q} for n, q in enumerate(part)]})
            if i % (3 * CH) == 0:
                hs.append({"kind": "nested/mixed", "steps": mixed_steps(rnd, [{"shape": shape, "how": "same" if n else "new", "tokens": q} for n, q in enumerate(part)], part)})
    # (b) the built-in shapes: session on the same objects, and in-place edits from one shape to the next
    seqs = seqs_for({"kw": "opt", "group": P_BAL()}, ctx.pick(4, 5), ctx.pick(600, 8000))
    for i in range(0, len(seqs), CH):
        part = seqs[i:i + CH]
        for b in basic:
            hs.append({"kind": "basic/session", "steps": [{"shape": b, "how": "same" if n else "new", "tokens": q} for n, q in enumerate(part)]})
            hs.append({"kind": "basic/mixed", "steps": mixed_steps(rnd, [{"shape": b, "how": "same" if n else "new", "tokens": q} for n, q in enumerate(part)], part)})
        steps = []
        for n, q in enumerate(part):
            order = [basic[(n + k) % 3] for k in range(3)]
            for b in order:
                steps.append({"shape": b, "how": rnd.choice(engine_real.EDITS) if steps else "new", "tokens": q})
        hs.append({"kind": "basic/edits", "steps": steps})
    # (c) size ladders: nesting depth, groups per header, headers per sequence, headers alive at the same time
    for k in ctx.pick((100, 1000, 10000), (100, 1000, 10000, 100000)):
        lad = [["id"] + ["("] * k + ["x"] + [")"] * k + ["x", "id", "(", ")"],
               ["id"] + ["("] * k + ["x"] + [")"] * (k - 1),
               ["id"] + ["(", "x", ")"] * k + ["x"],
               ["kw", "id", "(", "x", ")", "x"] * k]
        if k <= 1000:
            lad.append(["id", "("] * k + ["x"] + [")"] * k)
        for q in lad:
            for shape in basic[:2] + fixed[:1]:
                hs.append({"kind": "ladder", "rung": k, "steps": [{"shape": shape, "how": "new", "tokens": q}, {"shape": shape, "how": "same", "tokens": q}]})
    rule = ("OBJECT streams for header shapes [kw] Name G+ (direct reference oracle: each attempt runs G privately from its initial state): "
            "G = Balanced nested in Or / And / Not (%d fixed + %d random predicate trees) x all token sequences up to length %d over the tokens G distinguishes "
            "+ random up to 14, each once on new objects and once in a session of %d calls on the same objects; the three built-in shapes in sessions and "
            "with in-place edits of the expression list from one shape to the next between calls; ladders: nesting depth / groups / headers / "
            "simultaneously open headers %s; MIXED sessions (basic/mixed for every part, nested/mixed for every third): before every search one or two "
            "calls of the other entry points (%s) on the same expression object, on the same / another sequence or a prefix of it (ending inside open groups)"
            % (len(fixed), len(rand), ctx.pick(5, 6), CH, ctx.pick("10^2..10^4", "10^2..10^5"), ", ".join(ENTRY_NAMES[o] % ".." for o in ENTRY_POINTS)))
    return hs, rule


def run_shape_histories(ctx):
    from concurrent.futures import ProcessPoolExecutor
    hs, rule = shape_histories(ctx)
    hs2, rule2 = tok_histories(ctx)
    hs, rule = hs + hs2, rule + "; " + rule2
    hs.sort(key=lambda h: -sum(len(s["tokens"]) ** (2 if h.get("quadratic") else 1) for s in h["steps"]))    # long ones first
    with ProcessPoolExecutor(max_workers=16) as ex:
        nch = max(1, min(len(hs), 256))
        chunks = [hs[i::nch] for i in range(nch)]
        outs = list(ex.map(_work_sh, chunks))
    replies = {}
    for ch, out in zip(chunks, outs):
        for h, rs in zip(ch, out):
            replies[id(h)] = rs
    dist, evals, nontrivial, fails, known = {}, 0, set(), [], []
    cands = []
    for h in hs:
        rs, judged = replies[id(h)]
        key = h["kind"] + ("/%s" % h["rung"] if "rung" in h else "")
        dist[key] = dist.get(key, 0) + len(rs)
        evals += len(rs)
        for st, rep in zip(h["steps"], rs):
            if not rep.startswith("ok 0") and not rep.startswith("err"):
                nontrivial.add((str(st.get("shape", st.get("ast"))), tuple(st["tokens"]) if len(st["tokens"]) < 40 else len(st["tokens"])))
        seen_steps = set()
        for (i, rep, kind, detail) in judged:
            if kind == "unjudged":     # the language does not say what is required here (see gen/tokrx.py); counted, not judged
                for f in detail:
                    dist["tok not judged: " + f] = dist.get("tok not judged: " + f, 0) + 1
                continue
            if is_kf1(kind, detail):
                if len(known) < 3:
                    known.append({"input": {"stream": "shape-history", "history": dict(h, steps=[dict(h["steps"][i], how="new")])},
                                  "observed": rep, "required": detail, "kind": kind})
                continue
            if i in seen_steps or len(cands) >= 2000:
                continue
            seen_steps.add(i)
            cands.append((len(h["steps"][i]["tokens"]), i, len(cands), h, rep, kind, detail))
    cands.sort(key=lambda c: c[:3])
    for n, (_, i, _, h, rep, kind, detail) in enumerate(cands[:40]):    # shortest failing sequences first
        small = shrink_shape_history(h, i) if n < 8 else None
        hh = small or dict(h, steps=h["steps"][:i + 1])
        fails.append({"input": {"stream": "shape-history", "history": hh, "program": describe_shape_history(hh) if len(str(hh)) < 4000 else None},
                      "observed": rep, "required": detail, "kind": kind})
    fails.sort(key=lambda f: len(str(f["input"]["history"])))
    return evals, nontrivial, dist, fails + known, rule


# ------------------------------------------------------------------ stream 4: token patterns, groups at ANY position
# The header shapes above all begin with a stateless predicate (keyword / name) and end with the one group.  The property
# is about every pattern: here the pattern is an arbitrary rx tree whose leaves are token predicates - Name(),
# Keyword('kw'), Symbol('{'), TokenValue('x') - or GROUP leaves OneOrMore(G) (G = Balanced or a predicate tree around
# it), so a stateful predicate stands first, alone, after Optional(...) elements, inside Union / repetitions, and several
# groups follow each other.  Oracle: the language of the tree (gen/tokrx.py, position automaton run as threads with
# private counters - nothing of the code under test), the clauses as for the other streams.  Steps of such histories
# carry "ast" instead of "shape".

TOK_ATOMS = {1: ("name",), 2: ("kwd", "kw"), 3: ("sym", "{"), 4: ("val", "x")}
G_PAR = ("g", P_BAL())
G_SQ = ("g", P_BAL("[", "]"))
SHARINGS = ("none", "pred", "ops")


def _leaf_tree(code):
    return _tup(code[1]) if tokrx.is_group(code) else TOK_ATOMS[code]


def tok_accept(code, st, a):
    if tokrx.is_group(code):
        return ref_accept(_tup(code[1]), st, (), a)
    return ref_accept(TOK_ATOMS[code], {}, (), a)


_REFS = {}


def tok_ref(r):
    k = repr(r)
    if k not in _REFS:
        if len(_REFS) > 5000:
            _REFS.clear()
        _REFS[k] = tokrx.TokRef(r, tok_accept, lambda c: ("g", _leaf_tree(c)) if tokrx.is_group(c) else _leaf_tree(c))
    return _REFS[k]


def real_tok_expr(r, sharing, cache):
    """the expression list for the tree r.  sharing: 'none' = new objects everywhere; 'pred' = one predicate object per
    distinct leaf predicate (the same Balanced object sits in every group of the pattern, and in the next patterns built
    with the same cache); 'ops' = also one operator object per distinct sub-tree"""
    from codelimit.common.gsm.operator.OneOrMore import OneOrMore
    preds, vals = cache["preds"], cache.setdefault("vals", {})

    def leaf(code):
        code = _tup(code) if isinstance(code, (list, tuple)) else code
        if sharing == "ops" and code in vals:
            return vals[code]
        t = _leaf_tree(code)
        if sharing != "none" and code in preds:
            p = preds[code]
        else:
            p = real_pred(t)
            preds[code] = p
        v = OneOrMore(p) if tokrx.is_group(code) else p
        vals[code] = v
        return v
    return rx.build_expr(r, leaf=leaf, cache=cache["ops"] if sharing == "ops" else None)


def show_tok(r):
    def sp(g):
        t = g[0]
        if t == "bal":
            return "Balanced(%r, %r)" % (g[1], g[2])
        if t == "name":
            return "Name()"
        if t in ("sym", "kwd", "val"):
            return "%s(%r)" % ({"sym": "Symbol", "kwd": "Keyword", "val": "TokenValue"}[t], g[1])
        return "%s(%s)" % (t.capitalize(), ", ".join(sp(x) for x in g[1:]))
    return rx.show_expr(r, leaf=lambda c: ("OneOrMore(%s)" if tokrx.is_group(c) else "%s") % sp(_leaf_tree(c)))


def tok_alpha(r):
    txt = repr(r)
    a = ["id", "(", ")", "x"]
    if "[" in txt:
        a += ["[", "]"]
    if "{" in txt:
        a.append("{")
    if "kw" in txt:
        a.append("kw")
    return a


def pure_groups(r):
    return all(_leaf_tree(c)[0] == "bal" for c in tokrx.leaves(r) if tokrx.is_group(c))


def oracle_tok(r, seq, ms, rep, cap=None):
    """-> [(kind, detail)]; kind 'unjudged' (detail = the flags) when the language is silent about this input"""
    import bisect
    ref = tok_ref(r)
    n = len(seq)
    flags = set()
    if ms is None:
        for p in range(n):
            flags |= ref.attempt(seq, p, cap).flags
        if flags and rep.startswith("err %d" % engine_real.E_MULTI):
            return [("unjudged", ["%s (the matcher raised its ambiguity error)" % "+".join(sorted(flags))])]
        return [("error", "no exception")]
    bad = []
    pure = pure_groups(r)
    for (s, e, k) in ms:
        if not (0 <= s < e <= n) or k != e - s:
            bad.append(("sound", "bounds/recorded %s" % ((s, e, k),)))
            continue
        at = ref.attempt(seq, s)
        flags |= at.flags
        if e not in at.open:
            bad.append(("sound", "match %s is not a word of the pattern's language (words from %d end at %s)" % ((s, e), s, at.acc[-6:])))
        elif at.longest != e:
            bad.append(("longest", "match %s; the longest word from %d ends at %d" % ((s, e), s, at.longest)))
        elif pure and e < n and at.open[e]:
            bad.append(("balance", "match %s ends before the end of input inside an open group" % ((s, e),)))
    for a, b in zip(ms, ms[1:]):
        if not a[1] <= b[0]:
            bad.append(("order", "%s then %s" % (a[:2], b[:2])))
    srt = sorted(ms)
    ends = [m[1] for m in srt]
    in_order = all(a[1] <= b[0] for a, b in zip(srt, srt[1:]))
    for p in range(n):
        if in_order:
            k = bisect.bisect_right(ends, p)
            if k < len(srt) and srt[k][0] <= p:
                continue
        elif any(s <= p < e for (s, e, _) in ms):
            continue
        at = ref.attempt(seq, p, cap)
        flags |= at.flags
        if at.ok:
            later = srt[bisect.bisect_right(ends, p):][:64] if in_order else srt
            pre = [(s, e) for (s, e, _) in later if p < s and e < at.finish]
            bad.append(("complete", {"p": p, "finish": at.finish, "preempted_by": pre}))
            if len(bad) > 50:
                break
    if flags and not (STRICT and flags <= {"stale"}):
        return [("unjudged", sorted(flags))]
    return bad


def repeated_group(r):
    """does one group predicate occur at two leaves?  Then the leaves are built around ONE predicate object (sharing
    'pred' / 'ops'): with two equal Balanced objects the subset construction merges their transitions and keeps either
    object, while an attempt keeps its counters per object - a group then forgets its depth whenever the automaton moves
    to a state that kept the other object (e.g. Union([Balanced+], [Optional(Name), Balanced+]) on '( )' reports (0, 1)).
    Observed on the unchanged tree; VERIF_C14_STRICT=1 builds distinct objects and judges those inputs too."""
    gs = [repr(_leaf_tree(c)) for c in tokrx.leaves(r) if tokrx.is_group(c)]
    return len(gs) != len(set(gs))


def _has_group(r):
    return any(tokrx.is_group(c) for c in tokrx.leaves(r))


def tok_histories(ctx):
    rnd = ctx.rng("tokpat")
    hs = []
    CH = 150
    MIX = ctx.pick(40, 150)      # searches per session that mixes entry points (each with 1-2 other calls before it)

    def both(r, seqs, sharing=None):
        """every sequence once on new objects, and all of them in sessions on the same objects"""
        twice = repeated_group(r)
        for i in range(0, len(seqs), CH):
            part = seqs[i:i + CH]
            hs.append({"kind": "tok/fresh", "sharing": "pred" if twice and not STRICT else "none", "steps": [{"ast": r, "how": "new", "tokens": q} for q in part]})
            hs.append({"kind": "tok/session", "sharing": sharing or rnd.choice(SHARINGS[1:] if twice and not STRICT else SHARINGS),
                       "steps": [{"ast": r, "how": "same" if n else "new", "tokens": q} for n, q in enumerate(part)]})
            sub = part if len(part) <= MIX else rnd.sample(part, MIX)
            hs.append({"kind": "tok/mixed", "sharing": sharing or rnd.choice(SHARINGS[1:] if twice and not STRICT else SHARINGS),
                       "steps": mixed_steps(rnd, [{"ast": r, "how": "same" if n else "new", "tokens": q} for n, q in enumerate(sub)], part)})

    # (a) exhaustive: every non-nullable tree over {Name(), Keyword('kw'), OneOrMore(Balanced('(', ')'))} with a group leaf
    atoms = (1, 2, G_PAR)
    bounds = ctx.pick([(2, 5), (3, 4), (4, 3)], [(3, 6), (4, 4), (5, 3)])       # (tree size, sequence length); the first: all sizes up to it
    small, more = [], []
    for n, (size, ln) in enumerate(bounds):
        trees = [r for r in (rx.up_to(size, atoms) if n == 0 else rx.of_size(size, atoms)) if _has_group(r) and not rx.nullable(r)]
        (small if n == 0 else more).extend(trees)
        for r in trees:
            a = tok_alpha(r)
            both(r, [list(q) for k in range(1, ln + 1) for q in itertools.product(a, repeat=k)])
    # (b) random trees 3..9 over all leaf kinds: several groups, groups of two bracket kinds, nested group predicates
    pool_groups = [G_PAR, G_PAR, G_SQ] + [("g", g) for (g, _) in FIXED_GROUPS[:3]]
    nrand = ctx.pick(90, 1500)
    made = 0
    while made < nrand:
        gs = [rnd.choice(pool_groups) for _ in range(rnd.randint(1, 2))]
        if rnd.random() < 0.15:
            gs.append(("g", random_group(rnd)))
        leafs = tuple(rnd.sample((1, 2, 3, 4), rnd.randint(1, 3))) + tuple(gs) + tuple(gs[:1])
        r = rx.random_rx(rnd, rnd.randint(3, 9), leafs)
        if rx.nullable(r) or not _has_group(r):
            continue
        made += 1
        a = tok_alpha(r)
        ref = tok_ref(r)
        seqs = [list(q) for n in range(1, 4) for q in itertools.product(a, repeat=n)] if len(a) <= 6 else []
        wide = a + ["(", ")", "id", "s(", "s)"]
        for _ in range(ctx.pick(50, 120)):
            n = rnd.randint(3, 14)
            seqs.append(tokrx.biased_tokens(rnd, ref, a, n) if rnd.random() < 0.7 else [rnd.choice(wide) for _ in range(n)])
        both(r, seqs)
    # (c) one list object edited in place from tree to tree, predicate and operator objects shared along the history
    base = small + more
    for _ in range(ctx.pick(60, 600)):
        steps = []
        for n in range(12):
            r = rnd.choice(base)
            ref = tok_ref(r)
            a = tok_alpha(r)
            steps.append({"ast": r, "how": rnd.choice(engine_real.EDITS + ("same",)) if n else "new",
                          "tokens": tokrx.biased_tokens(rnd, ref, a, rnd.randint(2, 10))})
            if steps[-1]["how"] == "same":
                steps[-1]["ast"] = steps[-2]["ast"]
        hs.append({"kind": "tok/edits", "sharing": rnd.choice(("pred", "ops")), "keep_objects": True, "steps": steps})
    # (d) ladders for patterns that BEGIN with a group.  Every opening parenthesis starts an attempt of its own, all alive
    #     until their group closes: nested layouts cost find_all quadratic time, so those rungs stop earlier
    heads = [("a", G_PAR), ("c", ("o", ("a", 2)), ("a", G_PAR)), ("c", ("a", G_PAR), ("a", 3)), ("u", ("a", G_PAR), ("c", ("a", 1), ("a", G_PAR)))]
    lin = ctx.pick((100, 1000), (100, 1000, 10000, 100000))     # the matcher spends ~70 us per token on these patterns
    quad = ctx.pick((10, 100, 300), (10, 100, 1000))
    lin = sorted(set(lin) | set(srcdict.novel_rungs(10, lin[-1])))
    quad = sorted(set(quad) | set(srcdict.novel_rungs(10, quad[-1])))
    for k in lin:
        for li, q in enumerate((["(", "x", ")", "x"] * k, ["kw", "(", ")", "(", "id", ")", "{", "x"] * k, ["id", "(", "x", ")", "x", ")", "x"] * k)):
            for r in heads[:1] if k > 10000 else heads:
                if k > 10000 and li:
                    continue
                hs.append({"kind": "tok/ladder", "rung": k, "cap": 300, "sharing": "none",
                           "steps": [{"ast": r, "how": "new", "tokens": q}, {"ast": r, "how": "same", "tokens": q}]})
    for k in quad:
        for q in (["("] * k + ["x"] + [")"] * k + ["x", "(", ")"], ["("] * k + ["x"] + [")"] * (k - 1), ["(", "x", ")"] * k + ["x"]):
            for r in heads[:2]:
                hs.append({"kind": "tok/ladder-nested", "rung": k, "cap": 300, "quadratic": True, "sharing": "none",
                           "steps": [{"ast": r, "how": "new", "tokens": q}, {"ast": r, "how": "same", "tokens": q}]})
    rule = ("TOKEN PATTERNS with groups at any position (oracle: the language of the tree, position automaton with private counters per thread, gen/tokrx.py; "
            "inputs on which that language is silent - two different predicates accept one token, a group predicate left with counters that are not "
            "the initial ones - are counted under 'tok not judged', not judged): all non-nullable trees over {Name(), Keyword('kw'), "
            "OneOrMore(Balanced('(', ')'))} that contain a group x all token sequences over the tokens the tree distinguishes, (tree size, sequence "
            "length) = %s; %d random trees of size 3..9 over Name / Keyword / Symbol('{') / TokenValue leaves and "
            "one to three group leaves (parentheses, square brackets, Balanced nested in Or / And / Not) x all sequences up to 3 + random / "
            "language-biased ones up to 14; each sequence once on new objects and once in a session of %d calls on the same objects (predicate "
            "objects new / one per distinct predicate / operators shared too); %d histories of 12 calls on one list edited in place from tree to "
            "tree with shared objects; ladders for patterns that begin with a group: %s groups (linear layouts), nesting %s (one attempt per "
            "open parenthesis: quadratic); tok/mixed = for every session one more on the same objects with up to %d of its searches, each preceded by one or "
            "two calls of match / starts_with / get_headers(.., E, followed_by=E) / find_all on the same expression object (sequences: the same, another "
            "one of the session, or a prefix)" % (" / ".join("%s%d, <= %d" % ("<= " if n == 0 else "", a, b) for n, (a, b) in enumerate(bounds)), nrand, CH, ctx.pick(60, 600),
                                              "/".join(map(str, lin)), "/".join(map(str, quad)), MIX))
    return hs, rule


# ------------------------------------------------------------------ check

def correspond(ctx):
    cs, rule1 = cases_id(ctx)
    reqs = ["findall 1 %s %d %s" % (rx.ser(r), len(w), " ".join(map(str, w))) for (r, w) in cs]
    flat = [("findall", r, w) for (r, w) in cs]
    model = common.run_driver_sharded(reqs)
    impl = engine_real.real_engine_many(flat)
    dis, fails = [], []
    nontrivial = set()
    dist = {"matches_per_input": {}, "completeness_preempted": 0}
    for (r, w), m, i in zip(cs, model, impl):
        inp = {"stream": "id", "rx": rx.show(r), "ast": r, "word": w}
        if m != i:
            dis.append({"stream": "find_all/identity", "input": inp, "model": m, "impl": i})
        ms = parse_matches(i)
        if ms:
            nontrivial.add((rx.ser(r), tuple(w)))
        dist["matches_per_input"][len(ms) if ms is not None else -1] = dist["matches_per_input"].get(len(ms) if ms is not None else -1, 0) + 1
        for kind, detail in oracle_id(r, w, i):
            if kind == "complete" and detail["preempted_by"]:
                dist["completeness_preempted"] += 1
            fails.append({"input": inp, "observed": i, "required": detail, "kind": kind})
    ev2, nt2, dis2, fails2, samples2, rule2 = run_shapes(ctx)
    ev3, nt3, dist3, fails3, rule3 = run_identity_histories(ctx)
    ev4, nt4, dist4, fails4, rule4 = run_shape_histories(ctx)
    dist["objects"] = dist3
    dist["shape_objects"] = dist4
    # keep the list short: all non-known failures first
    fails_all = fails3 + fails4 + fails + fails2
    fails_all.sort(key=lambda f: (f["kind"] == "complete" and bool(f["required"].get("preempted_by")) if isinstance(f["required"], dict) else False))
    return {
        "evaluations": len(cs) + ev2 + ev3 + ev4, "distinct_nontrivial": len(nontrivial) + len(nt2) + len(nt3) + len(nt4),
        "rule": rule1 + "; " + rule2 + "; non-trivial = distinct inputs on which the real find_all reports at least one match; " + rule3 + "; " + rule4,
        "samples": [{"pattern": rx.show(r), "sequence": w, "model": m, "impl": i} for (r, w), m, i in list(zip(cs, model, impl))[3000:3003]] + samples2,
        "exhaustive": True, "distribution": dist,
        "disagreements": (dis + dis2)[:50], "oracle_failures": fails_all[:400],
    }


def matches_known(k, failure):
    """KF1: an uncovered successful position pre-empted by a reported match that starts later and
    finishes strictly earlier"""
    if k.get("id") != "KF1":
        return False
    req = failure.get("required")
    return failure.get("kind") == "complete" and isinstance(req, dict) and bool(req.get("preempted_by"))


def replay_known(k):
    r = REGRESS[2][0]; w = REGRESS[2][1]
    i = engine_real.real_engine("findall", r, w)
    return any(kind == "complete" and d["preempted_by"] for kind, d in oracle_id(r, w, i))


def search(ctx, hints):
    fails = []
    rnd = ctx.rng("search")
    cs = []
    for r in rx.up_to(4):
        if not rx.nullable(r):
            for w in rx.words((1, 2, 3, 4), 5):
                if w:
                    cs.append(("findall", r, w))
    impl = engine_real.real_engine_many(cs)
    for (_, r, w), i in zip(cs, impl):
        for kind, detail in oracle_id(r, w, i):
            fails.append({"input": {"stream": "id", "rx": rx.show(r), "ast": r, "word": w}, "observed": i, "required": detail, "kind": kind})
    fails.sort(key=lambda f: (len(str(f["input"])),))
    return fails[:200]


def tuple_ast(a):
    return tuple(tuple_ast(x) if isinstance(x, (list, tuple)) else x for x in a)


def replay(payload):
    inp = payload["input"]
    if inp.get("stream") == "objects":
        h = inp["history"]
        print("\n".join(obj_streams.describe(h)))
        rs = engine_real.run_history(h)
        bad = [b for b in obj_streams.judge([h], [rs], bad_of) if not is_kf1(b[4], b[5])]
        for (_, i, j, rep, kind, detail) in bad[:5]:
            print("step %d call %d %s -> %s; %s: %s" % (i, j, h["steps"][i]["calls"][j], rep, kind, detail))
        return not bad
    if inp.get("stream") == "shape-history":
        h = inp["history"]
        print("\n".join(describe_shape_history(h)[:40]))
        rs = run_shape_history(h)
        bad = [b for b in judge_shape_history(h, rs) if not is_kf1(b[2], b[3])]
        for (i, rep, kind, detail) in bad[:5]:
            print("step %d -> %s; %s: %s" % (i, rep, kind, detail))
        return not bad
    if inp.get("stream") == "shape":
        si = inp["shape_index"]
        i = real_shape((si, [inp["tokens"]]))[0]
        print("shape %s tokens %s -> %s" % (inp["shape"], inp["tokens"], i))
        i, _, hdr = i.partition(HDR_MARK)
        if hdr:
            return False
        ms = parse3(i)
        o, q, nm = shape_args(si)
        bad = [b for b in (oracle_shape(inp["tokens"], ms, o, q, nm) if ms is not None else [("error", i)])
               if not (b[0] == "complete" and b[1]["preempted_by"])]
        return not bad
    r = tuple_ast(inp["ast"])
    i = engine_real.real_engine("findall", r, inp["word"])
    print("pattern %s sequence %s -> %s" % (rx.show(r), inp["word"], i))
    bad = [b for b in oracle_id(r, inp["word"], i) if not (b[0] == "complete" and b[1]["preempted_by"])]
    return not bad
