"""C14 - search returns sound, ordered, disjoint, longest and (partially) complete matches.

Streams: (1) find_all on Identity atoms: all non-nullable ASTs x all sequences (exhaustive to a
bound) + random; (2) header shapes with real token predicates over a 6-symbol token alphabet.
Oracle = direct statement of the property with reference semantics. Completeness failures that
carry the pre-emption signature are the known finding KF1."""
import itertools
import os
import sys

sys.path.insert(0, os.path.dirname(os.path.dirname(os.path.abspath(__file__))))
sys.path.insert(0, os.path.join(os.path.dirname(os.path.dirname(os.path.dirname(os.path.abspath(__file__)))), "translator"))
import common
import engine_real
import patterns
from gen import rx

ID = "C14"
TRUSTED = [
    "correspondence harness harness/props/C14.py (find_all on Identity atoms and on token predicates)",
    "modelled, not verified: Python object identity / deepcopy of predicates (modelled as per-attempt depth maps keyed by predicate)",
]
ASSUMPTIONS = [
    "patterns cannot match the empty sequence (as the property requires)",
    "completeness holds only up to pre-emption by a later-starting match that finishes earlier (known finding KF1; proved: C14.completeness_partial, refuted in full: C14.completeness_full_fails)",
]
REGRESS = [
    (("p", ("a", 1)), [2, 1, 1]),                    # F2: overlapping matches at the end of input
    (("u", ("c", ("c", ("c", ("a", 1), ("a", 2)), ("a", 3)), ("a", 4)), ("c", ("a", 2), ("a", 3))), [1, 2, 3, 4]),   # F2: out of order
    (("u", ("c", ("c", ("c", ("a", 1), ("a", 2)), ("a", 3)), ("a", 4)), ("c", ("a", 2), ("a", 3))), [1, 2, 3, 4, 5]),  # KF1 witness
]


# ------------------------------------------------------------------ stream 1: Identity atoms

def parse_matches(reply):
    ws = reply.split()
    if ws[0] != "ok":
        return None
    k = int(ws[1]); i = 2; out = []
    for _ in range(k):
        s, e, n = int(ws[i]), int(ws[i + 1]), int(ws[i + 2]); i += 3
        toks = [int(x) for x in ws[i:i + n]]; i += n
        out.append((s, e, toks))
    return out


def greedy_finish(r, w, p):
    """the attempt started at p: (finish index, succeeded?)"""
    cur = r
    k = p
    while k < len(w):
        nxt = rx.deriv(cur, w[k])
        if nxt == rx.EMPTY:
            break
        cur = nxt
        k += 1
    return k, (k > p and rx._nullable(cur))


def oracle_id(r, w, reply):
    """-> list of (kind, detail); kind in {'sound','order','longest','complete','error'}"""
    ms = parse_matches(reply)
    if ms is None:
        return [("error", reply)]
    bad = []
    for (s, e, toks) in ms:
        if not (0 <= s < e <= len(w)):
            bad.append(("sound", "bounds %s" % ((s, e),)))
            continue
        if toks != w[s:e]:
            bad.append(("sound", "recorded items %s != spanned %s" % (toks, w[s:e])))
        if not rx.in_lang(r, w[s:e]):
            bad.append(("sound", "match %s not in language" % ((s, e),)))
        if rx.longest_from(r, w, s) != e:
            bad.append(("longest", "match %s, longest from start is %s" % ((s, e), rx.longest_from(r, w, s))))
    for a, b in zip(ms, ms[1:]):
        if not a[1] <= b[0]:
            bad.append(("order", "%s then %s" % (a[:2], b[:2])))
    for p in range(len(w)):
        f, ok = greedy_finish(r, w, p)
        if ok and not any(s <= p < e for (s, e, _) in ms):
            pre = [(s, e) for (s, e, _) in ms if p < s and e < f]
            bad.append(("complete", {"p": p, "finish": f, "preempted_by": pre}))
    return bad


def cases_id(ctx):
    size = ctx.pick(3, 4)
    wl = ctx.pick(5, 6)
    out = list(REGRESS)
    ws = list(rx.words((1, 2, 3, 4), wl))
    for r in rx.up_to(size):
        if rx.nullable(r):
            continue
        for w in ws:
            if w:
                out.append((r, w))
    rnd = ctx.rng("id")
    for _ in range(ctx.pick(1500, 30000)):
        r = rx.random_rx(rnd, rnd.randint(3, 9))
        if rx.nullable(r):
            continue
        n = rnd.randint(1, 10)
        w = []
        while len(w) < n:   # concatenate language-biased chunks and noise
            cur = r
            for _ in range(rnd.randint(1, 4)):
                good = [x for x in (1, 2, 3) if rx.deriv(cur, x) != rx.EMPTY]
                x = rnd.choice(good) if good and rnd.random() < 0.85 else rnd.choice((1, 2, 3, 4))
                w.append(x)
                cur = rx.deriv(cur, x)
                if cur == rx.EMPTY:
                    break
        out.append((r, w[:n]))
    return out, "all non-nullable ASTs of size <= %d x all non-empty sequences of length <= %d over a,b,c,x (exhaustive) + random ASTs 3..9 with language-biased sequences" % (size, wl)


# ------------------------------------------------------------------ stream 2: header shapes

ALPHA = ["id", "kw", "(", ")", "{", "x"]


def shapes():
    from codelimit.common.gsm.operator.OneOrMore import OneOrMore
    from codelimit.common.gsm.operator.Optional import Optional
    from codelimit.common.token_matching.predicate.Balanced import Balanced
    from codelimit.common.token_matching.predicate.Keyword import Keyword
    from codelimit.common.token_matching.predicate.Name import Name
    return [
        ("Name Balanced+", lambda: [Name(), OneOrMore(Balanced("(", ")"))], False, False),
        ("[kw] Name Balanced+", lambda: [Optional(Keyword("kw")), Name(), OneOrMore(Balanced("(", ")"))], True, False),
        ("kw Name Balanced+", lambda: [Keyword("kw"), Name(), OneOrMore(Balanced("(", ")"))], True, True),
    ]


def mk_tokens(seq):
    from pygments.token import Keyword, Name, Punctuation, Literal
    from codelimit.common.Location import Location
    from codelimit.common.Token import Token
    # "s(" / "s)": the content token of a literal '(' / ")" - text of a parenthesis, class String: an ordinary
    # token for the header shapes (defect F25: it used to open / close a group)
    tt = {"id": (Name, "f"), "kw": (Keyword, "kw"), "(": (Punctuation, "("), ")": (Punctuation, ")"),
          "{": (Punctuation, "{"), "x": (Literal, "x"), "s(": (Literal.String, "("), "s)": (Literal.String, ")")}
    return [Token(Location(1, i + 1), tt[a][0], tt[a][1]) for i, a in enumerate(seq)]


KIND = {"id": 2, "kw": 1, "(": 3, ")": 3, "{": 3, "x": 0, "s(": 7, "s)": 7}
VAL = {"id": "f", "kw": "kw", "(": "(", ")": ")", "{": "{", "x": "x", "s(": "(", "s)": ")"}


def shape_scan(seq, p, opt_kw, req_kw):
    """reference scan of the shape from position p -> (finish, succeeded)"""
    i = p
    n = len(seq)
    if req_kw:
        if i < n and seq[i] == "kw":
            i += 1
        else:
            return p, False
    elif opt_kw and i < n and seq[i] == "kw":
        i += 1
    if not (i < n and seq[i] == "id"):
        return p, False
    i += 1
    depth = 0
    groups = 0
    while i < n:
        a = seq[i]
        if depth == 0:
            if a != "(":
                break
            depth = 1; groups += 1
        elif a == "(":
            depth += 1
        elif a == ")":
            depth -= 1
        i += 1
    return i, groups > 0


def oracle_shape(seq, ms, opt_kw, req_kw):
    bad = []
    n = len(seq)
    for (s, e, k) in ms:
        if not (0 <= s < e <= n) or k != e - s:
            bad.append(("sound", "bounds/recorded %s" % ((s, e, k),))); continue
        f, ok = shape_scan(seq, s, opt_kw, req_kw)
        if not ok or f != e:
            bad.append(("sound", "match %s; reference scan from %d finishes at %d (%s)" % ((s, e), s, f, ok)))
        # nesting back to zero unless at end of input
        depth = 0
        sub = seq[s:e]
        started = False
        for a in sub:
            if a == "(":
                depth += 1; started = True
            elif a == ")" and started:
                depth -= 1
            if depth < 0:
                bad.append(("balance", "negative nesting inside %s" % ((s, e),)))
        if e < n and depth != 0:
            bad.append(("balance", "match %s ends before the end of input at nesting %d" % ((s, e), depth)))
    for a, b in zip(ms, ms[1:]):
        if not a[1] <= b[0]:
            bad.append(("order", "%s then %s" % (a[:2], b[:2])))
    for p in range(n):
        f, ok = shape_scan(seq, p, opt_kw, req_kw)
        if ok and not any(s <= p < e for (s, e, _) in ms):
            pre = [(s, e) for (s, e, _) in ms if p < s and e < f]
            bad.append(("complete", {"p": p, "finish": f, "preempted_by": pre}))
    return bad


def real_shape(args):
    si, seqs = args
    from codelimit.common.gsm import matcher
    name, mk, opt_kw, req_kw = shapes()[si]
    out = []
    for seq in seqs:
        try:
            ps = matcher.find_all(mk(), mk_tokens(seq))
            out.append("ok %d" % len(ps) + "".join(" %d %d %d" % (p.start, p.end, len(p.tokens)) for p in ps))
        except Exception as e:  # noqa
            out.append("err %d" % engine_real.err_code(e))
    return out


def shape_cases(ctx):
    ln = ctx.pick(6, 7)
    seqs = [list(s) for n in range(1, ln + 1) for s in itertools.product(ALPHA, repeat=n)]
    rnd = ctx.rng("shape")
    for _ in range(ctx.pick(2000, 40000)):
        n = rnd.randint(ln + 1, 14)
        seqs.append([rnd.choice(["id", "kw", "(", "(", ")", ")", "{", "x", "s(", "s)"]) for _ in range(n)])
    return seqs, "header shapes x all token sequences of length <= %d over {identifier, keyword, '(', ')', '{', other} (exhaustive) + random up to length 14 (these also with String tokens whose text is a parenthesis)" % ln


def run_shapes(ctx):
    from concurrent.futures import ProcessPoolExecutor
    seqs, rule = shape_cases(ctx)
    dis, fails = [], []
    evals = 0
    nontrivial = set()
    samples = []
    for si, (name, mk, opt_kw, req_kw) in enumerate(shapes()):
        ser = patterns.expr(mk(), [])[0]
        reqs = ["ftok %s %d %s" % (ser, len(seq), " ".join("%d %d %s" % (KIND[a], len(VAL[a]), " ".join(str(ord(c)) for c in VAL[a])) for a in seq)) for seq in seqs]
        model = common.run_driver_sharded(reqs)
        k = max(200, len(seqs) // 64)
        chunks = [(si, seqs[i:i + k]) for i in range(0, len(seqs), k)]
        with ProcessPoolExecutor(max_workers=16) as ex:
            impl = [x for o in ex.map(real_shape, chunks) for x in o]
        for seq, m, i in zip(seqs, model, impl):
            evals += 1
            inp = {"stream": "shape", "shape": name, "shape_index": si, "tokens": seq}
            if m != i:
                dis.append({"stream": "find_all/" + name, "input": inp, "model": m, "impl": i})
            ms = parse3(i)
            if ms is None:
                fails.append({"input": inp, "observed": i, "required": "no exception", "kind": "error"})
                continue
            if ms:
                nontrivial.add((si, tuple(seq)))
            for kind, detail in oracle_shape(seq, ms, opt_kw, req_kw):
                fails.append({"input": inp, "observed": i, "required": detail, "kind": kind})
        samples.append({"shape": name, "tokens": seqs[len(seqs) // 3], "model": model[len(seqs) // 3], "impl": impl[len(seqs) // 3]})
    return evals, nontrivial, dis, fails, samples, rule


def parse3(reply):
    ws = reply.split()
    if ws[0] != "ok":
        return None
    k = int(ws[1])
    return [(int(ws[2 + 3 * j]), int(ws[3 + 3 * j]), int(ws[4 + 3 * j])) for j in range(k)]


# ------------------------------------------------------------------ check

def correspond(ctx):
    cs, rule1 = cases_id(ctx)
    reqs = ["findall 1 %s %d %s" % (rx.ser(r), len(w), " ".join(map(str, w))) for (r, w) in cs]
    flat = [("findall", r, w) for (r, w) in cs]
    model = common.run_driver_sharded(reqs)
    impl = engine_real.real_engine_many(flat)
    dis, fails = [], []
    nontrivial = set()
    dist = {"matches_per_input": {}, "completeness_preempted": 0}
    for (r, w), m, i in zip(cs, model, impl):
        inp = {"stream": "id", "rx": rx.show(r), "ast": r, "word": w}
        if m != i:
            dis.append({"stream": "find_all/identity", "input": inp, "model": m, "impl": i})
        ms = parse_matches(i)
        if ms:
            nontrivial.add((rx.ser(r), tuple(w)))
        dist["matches_per_input"][len(ms) if ms is not None else -1] = dist["matches_per_input"].get(len(ms) if ms is not None else -1, 0) + 1
        for kind, detail in oracle_id(r, w, i):
            if kind == "complete" and detail["preempted_by"]:
                dist["completeness_preempted"] += 1
            fails.append({"input": inp, "observed": i, "required": detail, "kind": kind})
    ev2, nt2, dis2, fails2, samples2, rule2 = run_shapes(ctx)
    # keep the list short: all non-known failures first
    fails_all = fails + fails2
    fails_all.sort(key=lambda f: (f["kind"] == "complete" and bool(f["required"].get("preempted_by")) if isinstance(f["required"], dict) else False))
    return {
        "evaluations": len(cs) + ev2, "distinct_nontrivial": len(nontrivial) + len(nt2),
        "rule": rule1 + "; " + rule2 + "; non-trivial = distinct inputs on which the real find_all reports at least one match",
        "samples": [{"pattern": rx.show(r), "sequence": w, "model": m, "impl": i} for (r, w), m, i in list(zip(cs, model, impl))[3000:3003]] + samples2,
        "exhaustive": True, "distribution": dist,
        "disagreements": (dis + dis2)[:50], "oracle_failures": fails_all[:400],
    }


def matches_known(k, failure):
    """KF1: an uncovered successful position pre-empted by a reported match that starts later and
    finishes strictly earlier"""
    if k.get("id") != "KF1":
        return False
    req = failure.get("required")
    return failure.get("kind") == "complete" and isinstance(req, dict) and bool(req.get("preempted_by"))


def replay_known(k):
    r = REGRESS[2][0]; w = REGRESS[2][1]
    i = engine_real.real_engine("findall", r, w)
    return any(kind == "complete" and d["preempted_by"] for kind, d in oracle_id(r, w, i))


def search(ctx, hints):
    fails = []
    rnd = ctx.rng("search")
    cs = []
    for r in rx.up_to(4):
        if not rx.nullable(r):
            for w in rx.words((1, 2, 3, 4), 5):
                if w:
                    cs.append(("findall", r, w))
    impl = engine_real.real_engine_many(cs)
    for (_, r, w), i in zip(cs, impl):
        for kind, detail in oracle_id(r, w, i):
            fails.append({"input": {"stream": "id", "rx": rx.show(r), "ast": r, "word": w}, "observed": i, "required": detail, "kind": kind})
    fails.sort(key=lambda f: (len(str(f["input"])),))
    return fails[:200]


def tuple_ast(a):
    return tuple(tuple_ast(x) if isinstance(x, (list, tuple)) else x for x in a)


def replay(payload):
    inp = payload["input"]
    if inp.get("stream") == "shape":
        si = inp["shape_index"]
        i = real_shape((si, [inp["tokens"]]))[0]
        print("shape %s tokens %s -> %s" % (inp["shape"], inp["tokens"], i))
        ms = parse3(i)
        _, _, o, q = shapes()[si]
        bad = [b for b in (oracle_shape(inp["tokens"], ms, o, q) if ms is not None else [("error", i)])
               if not (b[0] == "complete" and b[1]["preempted_by"])]
        return not bad
    r = tuple_ast(inp["ast"])
    i = engine_real.real_engine("findall", r, inp["word"])
    print("pattern %s sequence %s -> %s" % (rx.show(r), inp["word"], i))
    bad = [b for b in oracle_id(r, inp["word"], i) if not (b[0] == "complete" and b[1]["preempted_by"])]
    return not bad
