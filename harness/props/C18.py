"""C18 - rendered report, diff and findings show exactly the stored numbers.

Tie: (1) translator/logic.py regenerates Gen/Logic.lean (delta tests `delta == 0`, findings
threshold / cut / omitted count); Model/Render.lean uses those definitions; (2) real `Report`
objects are built from real `Codebase`s; the overview cells are read from
`ScanResultTable.columns[i]._cells` / `.footer` / `.show_footer`, from the console lines that
`format_text.print_totals` prints, and from the Markdown lines of `format_markdown.print_totals`
(split on `|`), and compared with the model driver (`overview`); the findings lines of
`format_text.print_findings` / `format_markdown.print_findings` (with / without repository) are
parsed and compared with the model driver (`findings`); (3) a share of the cases goes through
the real commands (`report_command`, `findings_command`) on a report written by `ReportWriter`.
Oracle: the property itself, evaluated on the real output against the numbers stored in
`codebase.totals` / `codebase.files` (it says nothing about the figures of a language that only
the current report has: those cells are compared with the model only).

"Stored" is what the report holds BEFORE anything is rendered (a snapshot of the plain numbers); on top of
the single renderings there are
 * STATE PROBES: after current-vs-previous was rendered, both reports must still store the same numbers, the
   PREVIOUS report rendered as the current one (alone, both formats) must show exactly its own numbers, and
   rendering the pair again must give the same cells; a history stream renders a small pool of Report OBJECTS
   in random sequences (overview alone / against another object of the pool / against itself, findings) - every
   rendering is judged against the snapshot taken when the object was built;
 * CONFIGURATION variants: findings, overviews and the commands are repeated with Configuration.exclude set to
   patterns that match the report's own files (directories, extensions, base names, `*`, negation),
   Configuration.repository and Configuration.verbose set - the property quantifies over reports, not over
   the configuration of the process that renders them;
 * console WIDTHS for the text overview (only where rich says the table fits without wrapping).

Round 5:
 * TOTALS-PRESERVING pairs: a previous report with the same five totals as the current one and other per-language
   figures (files moved between languages) - in the pair stream, through report_command and through the CLI entry
   function `codelimit.__main__.report(path, diff, format)` in a fresh interpreter (OBSERVATION POINTS);
 * SIZE x CONFIGURATION: totals with figures 10^0 .. 10^7 per column (Reports whose `codebase.totals` hold them) on
   consoles 40 .. 300 columns wide; the text overview is read back COLUMN BY COLUMN (rich wraps `1200 (+100)` over two
   lines on a narrow console) and must show every language name, figure and annotation completely wherever the console
   is wide enough for every word of the table (`h4_round5.fits_wrapped`); consoles narrower than that are counted
   (`too_narrow`, `too_narrow_truncated`: the unchanged tree cuts cells with an ellipsis there - an observation);
   the same through report_command with COLUMNS = 80 .. 120 on reports with thousands of functions and 10^4 .. 10^7 lines.

Round 6: PATH-VALUED OPTIONS - report_command / findings_command (a share through the CLI entry functions in a fresh
interpreter) run with the process standing at the top / in the parent / in a sibling / inside / at the root of the code
base, PATH relative or absolute, `--diff` given by a relative name that means the file below the CURRENT directory; reports
of the same name with other figures (decoys) lie below the code base root, in both cache directories and at the top, and
another `.codelimit_cache/codelimit.json` lies in the current directory (`lay_out`, `gen_layout`)."""
import contextlib
import io
import os
import re
import shutil
import sys
import tempfile

sys.path.insert(0, os.path.dirname(os.path.dirname(os.path.abspath(__file__))))
sys.path.insert(0, os.path.join(os.path.dirname(os.path.dirname(os.path.dirname(os.path.abspath(__file__)))), "translator"))
import common
import logic
import h4_support as h4
import h4_round5 as r5
import h4_round7 as r7

ID = "C18"
TRUSTED = [
    "translator/logic.py (symbolic tracing of the real functions -> Lean for the delta tests and the findings cut-off)",
    "correspondence harness harness/props/C18.py: reads rich Table internals (`Column._cells`, `Column.footer`, `Table.show_footer`) and parses console lines; rich's layout itself is not modelled",
]
ASSUMPTIONS = [
    "LC_NUMERIC has no thousands separator (C locale): f\"{n:n}\" == str(n); the theorems hold for every locale (parameter `Locale`), the driver and this check use `Locale.C`; the check is skipped with a note when `locale.localeconv()['thousands_sep'] != ''`",
    "language names, file paths and function names contain no `|`, `[`, `:`, line breaks or double blanks (they are Pygments lexer names, relative paths and identifiers); rich markup / Markdown escaping of such characters is outside the property",
    "figures are Python ints; the keys of `codebase.totals` are the `.language` of their values (`Codebase.add_file`)",
]

LANGS = ["Python", "C", "C++", "C#", "Java", "JavaScript", "TypeScript", "Go", "Objective C", "Kotlin", "Lang_x", "zig"]
EXT = {"Python": "py", "C": "c", "C++": "cpp", "C#": "cs", "Java": "java", "JavaScript": "js", "TypeScript": "ts",
       "Go": "go", "Objective C": "m", "Kotlin": "kt", "Lang_x": "x", "zig": "zig"}
BOUNDARY = [14, 15, 16, 29, 30, 31, 32, 59, 60, 61, 62]
WIDTH = 250


def regen(ctx):
    try:
        text = logic.translate(common.REPO)
    except logic.Refuse as e:
        return [str(e)]
    common.write_if_changed(os.path.join(common.LEAN, "CodeLimit", "Gen", "Logic.lean"), text)
    return []


# ------------------------------------------------------------------ building real reports

def build_report(files, repo=False):
    """files = [[path, language, loc, [[name, line, col, end_line, value], ...]], ...] in insertion order"""
    from codelimit.common.Codebase import Codebase
    from codelimit.common.GithubRepository import GithubRepository
    from codelimit.common.Location import Location
    from codelimit.common.Measurement import Measurement
    from codelimit.common.SourceFileEntry import SourceFileEntry
    from codelimit.common.report.Report import Report
    cb = Codebase("/r")
    for path, language, loc, ms in files:
        cb.add_file(SourceFileEntry(path, "0" * 32, language, loc,
                                    [Measurement(n, Location(l, c), Location(el, 1), v) for n, l, c, el, v in ms]))
    cb.aggregate()
    return Report(cb, GithubRepository("o", "n", "b")) if repo else Report(cb)


def stored_totals(report):
    """the numbers stored in the report, in dict order"""
    return [[k, t.language, t.files, t.functions, t.loc, t.hard_to_maintain, t.unmaintainable]
            for k, t in report.codebase.totals.items()]


def stored_units(report):
    return [[path, [[m.unit_name, m.start.line, m.start.column, m.end.line, m.value] for m in e.measurements()]]
            for path, e in report.codebase.files.items()]


CONSOLE_VARIANT = [None]      # kwargs of the console every rendering of this module prints on (r7.console_variants); None = the default
ANSI = re.compile(r"\x1b\[[0-9;?]*[A-Za-z]")


class _PlainText:
    """what a user reads on a terminal: the characters written, without the escape sequences that style them"""

    def __init__(self, buf):
        self.buf = buf

    def getvalue(self):
        return ANSI.sub("", self.buf.getvalue())


@contextlib.contextmanager
def console_variant(kw):
    old = CONSOLE_VARIANT[0]
    CONSOLE_VARIANT[0] = dict(kw) if kw else None
    try:
        yield
    finally:
        CONSOLE_VARIANT[0] = old


def console(width=None):
    from rich.console import Console
    buf = io.StringIO()
    kw = CONSOLE_VARIANT[0]
    if not kw:
        return buf, Console(file=buf, width=width or WIDTH, soft_wrap=True)
    kw = dict(kw)
    env = {k: v for k, v in os.environ.items() if k not in ("LINES", "COLUMNS", "NO_COLOR", "TERM")}
    env["TERM"] = kw.pop("term", "xterm-256color")
    if width:
        kw["width"] = width
    return _PlainText(buf), Console(file=buf, soft_wrap=True, _environ=env, **kw)


# ------------------------------------------------------------------ reading the real overview

def parse_text_table(out):
    """rows / footer from the console lines of the `box.SIMPLE` table (cells are >= 2 blanks apart)"""
    lines = out.splitlines()
    rules = [i for i, l in enumerate(lines) if l.strip() and set(l.strip()) == {"─"}]
    if not rules:
        return None
    end = rules[1] if len(rules) > 1 else len(lines)
    rows = [re.split(r"\s{2,}", l.strip()) for l in lines[rules[0] + 1:end] if l.strip()]
    footer = None
    if len(rules) > 1:
        fl = [l for l in lines[rules[1] + 1:] if l.strip()]
        footer = re.split(r"\s{2,}", fl[0].strip()) if fl else []
    return {"rows": rows, "footer": footer}


def table_cells(table):
    cols = table.columns
    n = len(cols[0]._cells)
    rows = [[str(c._cells[i]) for c in cols] for i in range(n)]
    footer = [str(c.footer) for c in cols[1:]] if table.show_footer else None
    return {"rows": rows, "footer": footer}


def real_overview_text(report, diff, width=None, print_console=True):
    """width given: -> (cells, printed, raw) with printed = None when rich says the table does not fit unwrapped;
    print_console=False: only the cells handed to rich (printed = None)"""
    from codelimit.common.ScanResultTable import ScanResultTable
    from codelimit.common.ScanTotals import ScanTotals
    from codelimit.common.report import format_text
    st = ScanTotals(report.codebase.totals)
    table = ScanResultTable(st, ScanTotals(diff.codebase.totals)) if diff else ScanResultTable(st)
    cells = table_cells(table)
    if not print_console:
        return cells, None, ""
    buf, con = console(width)
    if width is not None:
        from rich.measure import Measurement
        if Measurement.get(con, con.options, table).maximum > width:
            return cells, None, ""
    format_text.print_totals(con, report, diff)
    printed = parse_text_table(buf.getvalue())
    return cells, printed, buf.getvalue()


def parse_md_table(out):
    lines = out.splitlines()
    try:
        start = next(i for i, l in enumerate(lines) if l.startswith("| ---"))
    except StopIteration:
        return None
    rows, footer = [], None
    for l in lines[start + 1:]:
        if not l.strip():
            break
        s = l.strip()
        if s.startswith("|"):
            s = s[1:]
        if s.endswith("|"):
            s = s[:-1]
        cells = [c.strip() for c in s.split("|")]
        if l.startswith("| **Totals**"):
            footer = [_unbold(c) for c in cells[1:]]
        else:
            rows.append(cells)
    return {"rows": rows, "footer": footer}


def _unbold(c):
    return c[2:-2] if c.startswith("**") and c.endswith("**") and len(c) >= 4 else c


def real_overview_md(report, diff):
    from codelimit.common.report import format_markdown
    buf, con = console()
    format_markdown.print_totals(con, report, diff)
    return parse_md_table(buf.getvalue()), buf.getvalue()


# ------------------------------------------------------------------ reading the real findings

TEXT_ROW = re.compile(r"^(.+?):(-?\d+):(-?\d+): (-?\d+) (\S) (.*)$")
TEXT_MORE = re.compile(r"^(-?\d+) more rows, use --full option to get all rows$")
MD_MORE = re.compile(r"^(-?\d+) more rows$")
MD_REPO_ROW = re.compile(r"^\| (\S) \[(.*)\]\(https://github\.com/o/n/blob/b/(.*)#L(-?\d+)-L(-?\d+)\) \| (-?\d+) \| (.*) \|$")


def parse_findings_text(out):
    rows, more, junk = [], None, []
    for l in out.splitlines():
        if not l.strip():
            continue
        m = TEXT_MORE.match(l.strip())
        if m:
            more = int(m.group(1)) if more is None else "twice"
            continue
        m = TEXT_ROW.match(l.rstrip())
        if m:
            rows.append(list(m.groups()))
        else:
            junk.append(l)
    return {"rows": rows, "more": more, "junk": junk}


def parse_findings_md(out, repo):
    rows, more, junk = [], None, []
    lines = out.splitlines()
    for l in lines[2:]:
        if not l.strip():
            continue
        m = MD_MORE.match(l.strip())
        if m:
            more = int(m.group(1)) if more is None else "twice"
            continue
        if repo:
            m = MD_REPO_ROW.match(l.rstrip())
            if m:
                rows.append(list(m.groups()))
            else:
                junk.append(l)
        else:
            s = l.strip()
            if s.startswith("|") and s.endswith("|"):
                cells = [c.strip() for c in s[1:-1].split("|")]
                if len(cells) == 5 and " " in cells[4]:
                    ty, name = cells[4].split(" ", 1)
                    rows.append(cells[:4] + [ty, name])
                    continue
            junk.append(l)
    if len(lines) < 2 or not lines[0].startswith("| **") or not lines[1].startswith("| ---"):
        junk.append("missing header")
    return {"rows": rows, "more": more, "junk": junk}


def real_findings(report, fmt, full):
    from codelimit.common.report import format_markdown, format_text
    buf, con = console()
    if fmt == "text":
        format_text.print_findings(con, report, full)
        return parse_findings_text(buf.getvalue()), buf.getvalue()
    format_markdown.print_findings(report, con, full)
    return parse_findings_md(buf.getvalue(), report.repository is not None), buf.getvalue()


# ------------------------------------------------------------------ the real commands

# PATH-VALUED OPTIONS: where the process stands (cwd) relative to the code base, how the code base path is spelled, and
# the relative name of the comparison report. The command line means: PATH and --diff FILE are resolved like every
# path a program is given - against the current directory. Same-named DECOY reports (with other figures) lie at every
# other place the name could be looked up: below the code base root, in its cache directory, in the cache directory of
# the current directory, at the top.
CWDS = {"top": ("", "svc/api"), "parent": ("svc", "api"), "sibling": ("other/place", "../../svc/api"), "inside": ("svc/api/sub", ".."),
        "root": ("svc/api", ".")}
DIFF_NAMES = ["previous.json", "codelimit-base.json", "reports/base.json", ".codelimit_cache/codelimit.json", "codelimit.json",
              "./previous.json", "../previous.json", ".codelimit_cache/previous.json"]


def gen_layout(rnd, k=None):
    cwds = sorted(CWDS)
    cwd = cwds[k % len(cwds)] if k is not None else rnd.choice(cwds)
    name = DIFF_NAMES[(k // len(cwds)) % len(DIFF_NAMES)] if k is not None else rnd.choice(DIFF_NAMES)
    return {"cwd": cwd, "path": rnd.choice(["relative", "relative", "absolute"]), "diff": name,
            "diff_spelling": rnd.choice(["relative", "relative", "relative", "absolute"])}


def decoy_files(cur_files):
    """a report in which every language of `cur_files` has other figures"""
    out = []
    for i, (path, language, loc, ms) in enumerate(cur_files):
        out.append([path + ".dcy", language, loc + 13 + i, [list(m) for m in ms] + [["decoy%d" % i, 1, 0, 40, 33 + (i % 40)]]])
        if i % 2 == 0:
            out.append([path + ".dcy2", language, 3, []])
    return out or [["only.dcy", "Python", 5, [["decoy", 1, 0, 40, 35]]]]


def lay_out(d, layout, js, pjs, djs):
    """-> (cwd, path argument, diff argument | None, decoys written); the current report goes to <root>/.codelimit_cache/codelimit.json,
    the previous one to <cwd>/<name>"""
    from pathlib import Path
    top = Path(d)
    proj = top / "svc" / "api"
    cwd = top / CWDS[layout["cwd"]][0]
    for x in (proj, cwd):
        x.mkdir(parents=True, exist_ok=True)
    cur_file = proj / ".codelimit_cache" / "codelimit.json"
    cur_file.parent.mkdir(parents=True, exist_ok=True)
    cur_file.write_text(js)
    taken = {os.path.realpath(cur_file)}
    diff_arg = None
    name = layout["diff"]
    if pjs is not None:
        diff_file = cwd / name
        if os.path.realpath(diff_file) in taken:
            name = "previous.json"
            diff_file = cwd / name
        diff_file.parent.mkdir(parents=True, exist_ok=True)
        diff_file.write_text(pjs)
        taken.add(os.path.realpath(diff_file))
        diff_arg = Path(name) if layout.get("diff_spelling") != "absolute" else Path(os.path.abspath(diff_file))
    decoys = 0
    places = [proj / name, proj / ".codelimit_cache" / name, cwd / ".codelimit_cache" / name, top / name, proj / os.path.basename(name),
              proj / ".codelimit_cache" / os.path.basename(name), cwd / ".codelimit_cache" / "codelimit.json", top / ".codelimit_cache" / "codelimit.json"]
    for f in places:
        real = os.path.realpath(f)
        if real in taken or not real.startswith(os.path.realpath(top) + os.sep):
            continue
        os.makedirs(os.path.dirname(real), exist_ok=True)
        with open(real, "w") as fh:
            fh.write(djs)
        taken.add(real)
        decoys += 1
    path_arg = Path(CWDS[layout["cwd"]][1]) if layout["path"] == "relative" else proj
    return str(cwd), path_arg, diff_arg, decoys


def with_commands(cur_files, prev_files, repo, width=None, fresh=False, findings=True, layout=None):
    if layout is None:
        return _with_commands(cur_files, prev_files, repo, width, fresh, findings)
    from codelimit.commands.findings import findings_command
    from codelimit.commands.report import report_command
    from codelimit.common.report.ReportFormat import ReportFormat
    from codelimit.common.report.ReportReader import ReportReader
    from codelimit.common.report.ReportWriter import ReportWriter
    d = tempfile.mkdtemp(prefix="c18_")
    old_cols = os.environ.get("COLUMNS")
    old_cwd = os.getcwd()
    os.environ["COLUMNS"] = str(width or WIDTH)
    try:
        js = ReportWriter(build_report(cur_files, repo)).to_json()
        pjs = ReportWriter(build_report(prev_files, repo)).to_json() if prev_files is not None else None
        djs = ReportWriter(build_report(decoy_files(cur_files), repo)).to_json()
        cwd, path_arg, diff_arg, _n = lay_out(d, layout, js, pjs, djs)
        report = ReportReader.from_json(js)
        diff = ReportReader.from_json(pjs) if pjs is not None else None
        outs = {}
        if fresh:
            for fmt in ("text", "markdown"):
                code, out, err = r5.run_entry({"command": "report", "path": str(path_arg), "diff": str(diff_arg) if diff_arg else None, "format": fmt},
                                              cwd=cwd, columns=width or WIDTH)
                outs[("report", fmt, None)] = out if code == 0 else "EXIT %s\n%s\n%s" % (code, out, err[-800:])
            for fmt, full in (("text", False), ("markdown", True)) if findings else ():
                code, out, err = r5.run_entry({"command": "findings", "path": str(path_arg), "full": full, "format": fmt}, cwd=cwd, columns=width or WIDTH)
                outs[("findings", fmt, full)] = out if code == 0 else "EXIT %s\n%s\n%s" % (code, out, err[-800:])
            return report, diff, outs
        os.chdir(cwd)
        for fmt in (ReportFormat.text, ReportFormat.markdown):
            buf = io.StringIO()
            with contextlib.redirect_stdout(buf):
                report_command(path_arg, fmt, diff_arg)
            outs[("report", fmt.value, None)] = buf.getvalue()
            for full in (False, True) if findings else ():
                buf = io.StringIO()
                with contextlib.redirect_stdout(buf):
                    findings_command(path_arg, full, fmt)
                outs[("findings", fmt.value, full)] = buf.getvalue()
        return report, diff, outs
    finally:
        os.chdir(old_cwd)
        if old_cols is None:
            os.environ.pop("COLUMNS", None)
        else:
            os.environ["COLUMNS"] = old_cols
        shutil.rmtree(d, ignore_errors=True)


def _with_commands(cur_files, prev_files, repo, width=None, fresh=False, findings=True):
    """write the reports with ReportWriter, run report_command / findings_command on them (fresh: the CLI entry functions
    `codelimit.__main__.report / findings` in a fresh interpreter per call) on a console `width` columns wide (COLUMNS);
    -> (report as read back, previous as read back, {(kind, fmt, full): stdout})"""
    from pathlib import Path
    from codelimit.commands.findings import findings_command
    from codelimit.commands.report import report_command
    from codelimit.common.report.ReportFormat import ReportFormat
    from codelimit.common.report.ReportReader import ReportReader
    from codelimit.common.report.ReportWriter import ReportWriter
    d = tempfile.mkdtemp(prefix="c18_")
    old_cols = os.environ.get("COLUMNS")
    os.environ["COLUMNS"] = str(width or WIDTH)
    try:
        cache = Path(d) / ".codelimit_cache"
        cache.mkdir()
        js = ReportWriter(build_report(cur_files, repo)).to_json()
        (cache / "codelimit.json").write_text(js)
        report = ReportReader.from_json(js)
        diff = diff_path = None
        if prev_files is not None:
            pjs = ReportWriter(build_report(prev_files, repo)).to_json()
            diff_path = Path(d) / "previous.json"
            diff_path.write_text(pjs)
            diff = ReportReader.from_json(pjs)
        outs = {}
        if fresh:
            for fmt in ("text", "markdown"):
                code, out, err = r5.run_entry({"command": "report", "path": d, "diff": str(diff_path) if diff_path else None, "format": fmt},
                                              cwd=d, columns=width or WIDTH)
                outs[("report", fmt, None)] = out if code == 0 else "EXIT %s\n%s\n%s" % (code, out, err[-800:])
            for fmt, full in (("text", False), ("markdown", True)) if findings else ():
                code, out, err = r5.run_entry({"command": "findings", "path": d, "full": full, "format": fmt}, cwd=d, columns=width or WIDTH)
                outs[("findings", fmt, full)] = out if code == 0 else "EXIT %s\n%s\n%s" % (code, out, err[-800:])
            return report, diff, outs
        for fmt in (ReportFormat.text, ReportFormat.markdown):
            buf = io.StringIO()
            with contextlib.redirect_stdout(buf):
                report_command(Path(d), fmt, diff_path)
            outs[("report", fmt.value, None)] = buf.getvalue()
            for full in (False, True) if findings else ():
                buf = io.StringIO()
                with contextlib.redirect_stdout(buf):
                    findings_command(Path(d), full, fmt)
                outs[("findings", fmt.value, full)] = buf.getvalue()
        return report, diff, outs
    finally:
        if old_cols is None:
            os.environ.pop("COLUMNS", None)
        else:
            os.environ["COLUMNS"] = old_cols
        shutil.rmtree(d, ignore_errors=True)


def split_report_output(out, fmt):
    """the overview part of print_report's output"""
    if fmt == "markdown":
        i = out.find("### Summary")
        return out if i < 0 else out[:i]
    lines = out.splitlines()
    for i, l in enumerate(lines):
        if l.strip() == "Summary":
            return "\n".join(lines[:i])
    return out


# ------------------------------------------------------------------ model side

def enc_str(s):
    return "%d%s" % (len(s), "".join(" %d" % ord(c) for c in s))


def enc_totals(tot):
    return "%d%s" % (len(tot), "".join(" %s %d %d %d %d %d" % (enc_str(t[1]), t[2], t[3], t[4], t[5], t[6]) for t in tot))


def enc_files(units):
    return "%d%s" % (len(units), "".join(
        " %s %d%s" % (enc_str(p), len(ms), "".join(" %s %d %d %d %d" % (enc_str(n), l, c, el, v) for n, l, c, el, v in ms))
        for p, ms in units))


def overview_request(fmt, cur_tot, prev_tot):
    return "overview %d %s %d %s" % (0 if fmt == "text" else 1, enc_totals(cur_tot), 0 if prev_tot is None else 1,
                                     enc_totals(prev_tot or []))


def findings_request(fmt, repo, full, units):
    return "findings %d %d %s" % (0 if fmt == "text" else 2 if repo else 1, 1 if full else 0, enc_files(units))


class _R:
    def __init__(self, ws):
        self.ws, self.i = ws, 0

    def int(self):
        self.i += 1
        return int(self.ws[self.i - 1])

    def str(self):
        n = self.int()
        return "".join(chr(self.int()) for _ in range(n))

    def cells(self):
        return [self.str() for _ in range(self.int())]

    def rows(self):
        return [self.cells() for _ in range(self.int())]


def dec_overview(reply):
    ws = reply.split()
    if not ws or ws[0] != "ok":
        return {"error": reply}
    r = _R(ws[1:])
    rows = r.rows()
    footer = r.cells() if r.int() == 1 else None
    return {"rows": rows, "footer": footer}


def dec_findings(reply):
    ws = reply.split()
    if not ws or ws[0] != "ok":
        return {"error": reply}
    r = _R(ws[1:])
    rows = r.rows()
    has = r.int()
    k = r.int()
    return {"rows": rows, "more": k if has == 1 else None, "junk": []}


# ------------------------------------------------------------------ the property, directly

def ann(c, p):
    return str(c) if c == p else "%d (%+d)" % (c, c - p)


def expected_overview(cur_tot, prev_tot):
    """cells required by the property; None = not constrained (language absent from the previous report)"""
    order = [t for _, t in sorted(enumerate(cur_tot), key=lambda it: (-it[1][4], it[0]))]
    prev = {t[0]: t for t in (prev_tot or [])}
    rows = []
    for t in order:
        if prev_tot is None:
            rows.append([t[1]] + [str(x) for x in t[2:7]])
        elif t[0] in prev:
            rows.append([t[1]] + [ann(c, p) for c, p in zip(t[2:7], prev[t[0]][2:7])])
        else:
            rows.append([t[1]] + [None] * 5)
    footer = None
    if len(cur_tot) > 1:
        sums = [sum(t[i] for t in cur_tot) for i in range(2, 7)]
        if prev_tot is None:
            footer = [str(x) for x in sums]
        else:
            psums = [sum(t[i] for t in prev_tot) for i in range(2, 7)]
            footer = [ann(c, p) for c, p in zip(sums, psums)]
    return {"rows": rows, "footer": footer}


def meets(observed, required):
    if observed is None or "rows" not in observed:
        return False
    if (observed["footer"] is None) != (required["footer"] is None):
        return False
    if required["footer"] is not None and observed["footer"] != required["footer"]:
        return False
    if len(observed["rows"]) != len(required["rows"]):
        return False
    for o, r in zip(observed["rows"], required["rows"]):
        if len(o) != len(r) or any(y is not None and x != y for x, y in zip(o, r)):
            return False
    return True


def expected_findings(units, full, fmt, repo):
    allu = [(p, m) for p, ms in units for m in ms if m[4] > 30]
    allu = [u for _, u in sorted(enumerate(allu), key=lambda it: (-it[1][1][4], it[0]))]
    total = len(allu)
    shown = allu if full else allu[:10]
    more = total - 10 if (not full and total > 10) else None
    rows = []
    for p, (n, l, c, el, v) in shown:
        if fmt == "text" or not repo:
            rows.append([p, str(l), str(c), str(v), None, n])
        else:
            rows.append([None, n, p, str(l), str(el), str(v), p])
    return {"rows": rows, "more": more}


def findings_meet_statement(observed, units, full, fmt, repo):
    """the findings clause AS STATED, for consoles on which the listing may legitimately be shorter: the rows are the first k
    functions longer than 30 lines, longest first; k = all of them with full output, k <= 10 otherwise; the announced number
    of omitted rows is EXACTLY (stored findings - listed rows), and nothing is announced when nothing is omitted -> reason | None"""
    allrows = expected_findings(units, True, fmt, repo)["rows"]
    if observed.get("junk"):
        return "lines that are neither a finding nor the `more rows` line: %r" % (observed["junk"][:2],)
    rows = observed["rows"]
    if len(rows) > len(allrows):
        return "%d rows listed, %d functions longer than 30 lines stored" % (len(rows), len(allrows))
    for o, r in zip(rows, allrows):
        if len(o) != len(r) or any(y is not None and x != y for x, y in zip(o, r)):
            return "row %r is not the next-longest stored function %r" % (o, r)
    if full and len(rows) != len(allrows):
        return "full output lists %d of the %d stored findings" % (len(rows), len(allrows))
    if not full and len(rows) > 10:
        return "%d rows listed without full output" % len(rows)
    if not full and len(rows) < len(allrows) and len(rows) == 0:
        return "no row listed although %d findings are stored" % len(allrows)
    omitted = len(allrows) - len(rows)
    if observed["more"] != (omitted if omitted > 0 else None):
        return "the report stores %d functions longer than 30 lines, %d are listed, so exactly %d rows are omitted, but the output announces %s more rows" % (
            len(allrows), len(rows), omitted, observed["more"])
    return None


def run_console_variant_case(files, variant, label, cur=None, prev=None):
    """every rendering (findings text / Markdown x full / not full x with / without repository; the overview, with a comparison
    report when `prev` is given) on the console `variant` -> (number of renderings, failures)"""
    fails, n = [], 0
    inp0 = {"stream": "console-variant", "files": files, "console": variant, "console_label": label}
    with console_variant(variant):
        for repo in (False, True):
            report = build_report(files, repo)
            units = stored_units(report)
            for fmt in ("text", "markdown"):
                if fmt == "text" and repo:
                    continue
                for full in (False, True):
                    o, raw = real_findings(report, fmt, full)
                    n += 1
                    why = findings_meet_statement(o, units, full, fmt, repo)
                    if why:
                        fails.append({"input": dict(inp0, fmt=fmt, repo=repo, full=full), "observed": o, "raw": raw[-1500:], "required": why,
                                      "what": "findings on %s: %s" % (label, why)})
        if cur is not None and int(variant.get("width") or 0) >= 200:      # narrower consoles wrap cells (width ladder judges those with fits_wrapped)
            _i, _rq, _o, f = run_overview_case(cur, prev, probes=False)
            n += 2
            for x in f:
                x["input"] = dict(inp0, files=[], cur=cur, prev=prev)
                x["what"] = "overview on %s: %s" % (label, x.get("what"))
            fails += f
    return n, fails


def run_pty_case(files, rows, cols=200, full=False, fmt="text"):
    """`codelimit findings [--full] [--format F]` (CLI entry function, fresh interpreter) in a terminal window of rows x cols
    (pseudo-terminal) on the written report of `files` -> failures"""
    from pathlib import Path
    from codelimit.common.report.ReportReader import ReportReader
    from codelimit.common.report.ReportWriter import ReportWriter
    d = tempfile.mkdtemp(prefix="c18_pty_")
    inp = {"stream": "terminal-window", "files": files, "rows": rows, "cols": cols, "full": full, "fmt": fmt}
    try:
        cache = Path(d) / ".codelimit_cache"
        cache.mkdir()
        js = ReportWriter(build_report(files, False)).to_json()
        (cache / "codelimit.json").write_text(js)
        units = stored_units(ReportReader.from_json(js))
        code, out, err = r7.run_entry_pty({"command": "findings", "path": d, "full": full, "format": fmt}, cwd=d, rows=rows, cols=cols)
        if code != 0:
            return [{"input": inp, "observed": "exit %s: %s" % (code, (out + err)[-600:]), "required": "exit 0", "what": "`codelimit findings` fails in a terminal window"}]
        out = ANSI.sub("", out)
        o = parse_findings_text(out) if fmt == "text" else parse_findings_md(out, False)
        why = findings_meet_statement(o, units, full, fmt, False)
        if why:
            return [{"input": inp, "observed": o, "raw": out[-1500:], "required": why,
                     "what": "`codelimit findings%s --format %s` in a terminal window of %d lines x %d columns: %s" % (" --full" if full else "", fmt, rows, cols, why)}]
        return []
    finally:
        shutil.rmtree(d, ignore_errors=True)


def findings_meet(observed, required):
    if observed.get("junk"):
        return False
    if observed["more"] != required["more"] or len(observed["rows"]) != len(required["rows"]):
        return False
    for o, r in zip(observed["rows"], required["rows"]):
        if len(o) != len(r) or any(y is not None and x != y for x, y in zip(o, r)):
            return False
    return True


# ------------------------------------------------------------------ generators

def gen_measurements(rnd, n, tag):
    ms = []
    line = 1
    for j in range(n):
        r = rnd.random()
        v = rnd.choice(BOUNDARY) if r < 0.5 else rnd.randint(1, 200) if r < 0.95 else rnd.randint(200, 3000000)
        ms.append(["%s_%d" % (tag, j), line, rnd.choice([0, 1, 4, 8]), line + v, v])
        line += v + rnd.randint(0, 3)
    return ms


def gen_codebase(rnd, langs):
    """files of the given languages, interleaved so that the insertion order of the languages varies;
    per-language LOC drawn from few values so that ties are frequent"""
    files = []
    for li, lang in enumerate(langs):
        for k in range(rnd.choice([1, 1, 1, 2, 3])):
            r = rnd.random()
            loc = rnd.choice([0, 50, 100, 100, 100, 250]) if r < 0.7 else rnd.randint(0, 5000) if r < 0.95 else rnd.randint(10 ** 6, 10 ** 10)
            files.append(["d%d/f%d_%d.%s" % (k, li, k, EXT[lang]), lang, loc,
                          gen_measurements(rnd, rnd.choice([0, 1, 2, 3, 6]), "u%d_%d" % (li, k))])
    rnd.shuffle(files)
    return files


def gen_pair(rnd):
    langs = rnd.sample(LANGS, rnd.choice([0, 1, 1, 2, 2, 2, 3, 3, 4, 6]))
    cur = gen_codebase(rnd, langs)
    r = rnd.random()
    if r < 0.2:
        return cur, None, "no-previous"
    if r < 0.3:
        prev = [list(f) for f in cur]
        rnd.shuffle(prev)
        return cur, prev, "equal"
    if r < 0.42 and len(langs) >= 2:
        return cur, moved_between_languages(rnd, cur, langs), "equal-totals"
    prev, kinds = [], set()
    for lang in langs:
        mine = [f for f in cur if f[1] == lang]
        k = rnd.random()
        if k < 0.2:
            kinds.add("added")          # not in the previous report
            continue
        if k < 0.45:
            prev += [list(f) for f in mine]
            kinds.add("same")
            continue
        kinds.add("changed")
        for f in mine:
            f = list(f)
            which = rnd.random()
            if which < 0.35:
                f[2] = max(0, f[2] + rnd.choice([-100, -50, -1, 1, 50, 100]))
            elif which < 0.7:
                f[3] = gen_measurements(rnd, rnd.choice([0, 1, 2, 3, 6]), "p")
            elif which < 0.85:
                continue                # a file less
            prev.append(f)
        if rnd.random() < 0.2:
            prev.append(["extra/%s.%s" % (lang.replace(" ", "_"), EXT[lang]), lang, rnd.choice([0, 10, 100]), gen_measurements(rnd, 2, "e")])
    for lang in LANGS:
        if lang not in langs and rnd.random() < 0.12:
            prev += gen_codebase(rnd, [lang])
            kinds.add("removed")
    rnd.shuffle(prev)
    return cur, prev, "+".join(sorted(kinds)) or "empty"


def moved_between_languages(rnd, cur, langs):
    """a previous report with the SAME five totals as `cur` but other per-language figures: some files carry another
    language of the code base (a file migrated from one language to another with its functions: `git mv cart.js cart.ts`)"""
    prev = [list(f) for f in cur]
    k = rnd.randint(1, max(1, len(prev) // 2))
    for f in rnd.sample(prev, min(k, len(prev))):
        other = rnd.choice([l for l in langs if l != f[1]])
        f[1] = other
        f[0] = f[0].rsplit(".", 1)[0] + "." + EXT[other]
    seen = set()
    for f in prev:                      # paths stay distinct
        while f[0] in seen:
            f[0] = "m/" + f[0]
        seen.add(f[0])
    rnd.shuffle(prev)
    return prev


def gen_equal_totals_pair(rnd):
    langs = rnd.sample(LANGS, rnd.choice([2, 2, 3, 4]))
    cur = gen_codebase(rnd, langs)
    return cur, moved_between_languages(rnd, cur, langs)


HEADERS = ["Language", "Files", "Functions", "Lines of Code", "\u26a0", "\u2716"]


def build_totals_report(tot):
    """a real Report whose codebase.totals hold the given figures ([[language, files, functions, loc, hard, unmaintainable], ...]
    in insertion order): the overview reads nothing else"""
    from codelimit.common.Codebase import Codebase
    from codelimit.common.LanguageTotals import LanguageTotals
    from codelimit.common.report.Report import Report
    cb = Codebase("/r")
    for lang, files, functions, loc, hard, unm in tot:
        t = LanguageTotals(lang)
        t.files, t.functions, t.loc, t.hard_to_maintain, t.unmaintainable = files, functions, loc, hard, unm
        cb.totals[lang] = t
    return Report(cb)


def gen_figure(rnd, mag):
    lo = 10 ** mag if mag else 0
    return rnd.choice([lo, 10 ** (mag + 1) - 1, rnd.randint(lo, 10 ** (mag + 1) - 1)])


def gen_totals_pair(rnd, mags):
    """current / previous totals with figures of the given orders of magnitude per column (files, functions, loc, hard,
    unmaintainable); the previous report differs by amounts of every smaller magnitude, lacks or adds a language sometimes"""
    langs = rnd.sample(LANGS, rnd.choice([1, 2, 3, 3, 4, 6]))
    cur = [[l] + [gen_figure(rnd, max(0, m - rnd.choice([0, 0, 0, 1, 2]))) for m in mags] for l in langs]
    r = rnd.random()
    if r < 0.15:
        return cur, None
    prev = []
    for t in cur:
        if rnd.random() < 0.12:
            continue
        q = [t[0]]
        for x in t[1:]:
            k = rnd.random()
            d = 0 if k < 0.25 else rnd.choice([-1, 1]) * rnd.choice([1, 10 ** rnd.randint(0, max(0, len(str(x)) - 1)), rnd.randint(0, max(1, x))])
            q.append(max(0, x + d))
        prev.append(q)
    if rnd.random() < 0.15:
        prev.append(["Removed"] + [gen_figure(rnd, m) for m in mags])
    rnd.shuffle(prev)
    return cur, prev


def overview_columns(cells):
    """every text of every column of the text overview: header, cells, footer"""
    ncol = len(HEADERS)
    cols = [[HEADERS[j]] + [r[j] for r in cells["rows"]] for j in range(ncol)]
    if cells["footer"] is not None:
        for j in range(1, ncol):
            cols[j].append(cells["footer"][j - 1])
    return cols


def run_width_case(cur_tot, prev_tot, widths, dist):
    """SIZE x CONFIGURATION: figures up to 10^7 on consoles 40..300 wide. Where the console is wide enough to show every
    word of the table (r5.fits_wrapped: rich may wrap `1200 (+100)` over two lines) every figure and every language name
    must be shown completely, in its column; narrower consoles are counted as an observation only.
    -> (input, model requests, observations, failures)"""
    from codelimit.common.report import format_text
    report = build_totals_report(cur_tot)
    diff = build_totals_report(prev_tot) if prev_tot is not None else None
    cur_s, prev_s = stored_totals(report), (stored_totals(diff) if diff is not None else None)
    req = expected_overview(cur_s, prev_s)
    cells, _p, _r = real_overview_text(report, diff, print_console=False)
    inp = {"stream": "widths", "cur_totals": cur_tot, "prev_totals": prev_tot}
    fails = []
    if not meets(cells, req):
        fails.append({"input": inp, "format": "text", "observed": cells, "required": req,
                      "what": "overview does not show the stored figures / annotations / order / totals"})
    md, _raw = real_overview_md(report, diff)
    if not meets(md, req):
        fails.append({"input": inp, "format": "markdown", "observed": md, "required": req,
                      "what": "overview does not show the stored figures / annotations / order / totals"})
    cols = overview_columns(cells) if cells["rows"] else None
    for w in widths:
        buf, con = console(w)
        format_text.print_totals(con, report, diff)
        raw = buf.getvalue()
        if cols is None:
            continue
        if not r5.fits_wrapped(cols, w):
            dist["too_narrow"] = dist.get("too_narrow", 0) + 1
            shown = r5.column_streams(raw)
            if not r5.streams_agree(shown, cells):
                dist["too_narrow_truncated"] = dist.get("too_narrow_truncated", 0) + 1
            continue
        dist["wide_enough"] = dist.get("wide_enough", 0) + 1
        shown = r5.column_streams(raw)
        if not r5.streams_agree(shown, cells):
            fails.append({"input": dict(inp, width=w), "observed": {"columns read from the console": shown and {"body": shown["body"], "footer": shown["footer"]}, "raw": raw},
                          "required": {"columns": r5.cell_streams(cells)},
                          "what": "on a console %d columns wide (wide enough for every word of the table) the text overview does not show every "
                                  "language name and figure completely" % w})
            break
    reqs = [overview_request("text", cur_s, prev_s), overview_request("markdown", cur_s, prev_s)]
    return inp, reqs, [cells, md], fails


def gen_large_pair(rnd, counts=(200, 600, 1500)):
    """real files with large line totals (10^4 .. 10^7 per file) and hundreds to thousands of functions, in 2 .. 4
    languages, and a previous state that differs in every figure: the overview table is wider than 80 columns"""
    langs = rnd.sample(LANGS[:8], rnd.choice([2, 3, 4]))
    def one(scale):
        files = []
        for li, lang in enumerate(langs):
            for k in range(rnd.choice([1, 2, 3])):
                n = rnd.choice(list(counts)) + scale
                ms = [["u%d" % j, j * 2 + 1, 0, j * 2 + 2, rnd.choice([5, 20, 31, 45, 61, 70])] for j in range(n)]
                files.append(["d%d/g%d_%d.%s" % (k, li, k, EXT[lang]), lang, rnd.randint(10 ** 4, 10 ** 7) + scale, ms])
        return files
    return one(0), one(rnd.choice([7, 113]))


def gen_findings(rnd, n_long):
    """files holding `n_long` functions longer than 30 lines (ties frequent) plus shorter ones"""
    nf = rnd.randint(1, 4)
    lens = [[] for _ in range(nf)]
    pool = rnd.choice([[31, 31, 45, 61, 61, 100], [31], list(range(31, 70)), [31, 32, 60, 61, 1000, 10 ** 7]])
    for _ in range(n_long):
        lens[rnd.randrange(nf)].append(rnd.choice(pool))
    for _ in range(rnd.randint(0, 6)):
        lens[rnd.randrange(nf)].append(rnd.choice([1, 15, 29, 30, 30, 0]))
    files = []
    for i, ls in enumerate(lens):
        rnd.shuffle(ls)
        ms, line = [], rnd.randint(1, 50)
        for j, v in enumerate(ls):
            ms.append(["fn%d_%d" % (i, j), line, rnd.choice([0, 1, 4]), line + v, v])
            line += v + 1
        path = "src/m%d/file%d.%s" % (i % 2, i, rnd.choice(["py", "c", "java"]))
        if files and rnd.random() < 0.15:      # CASE TWIN of an earlier file's path
            path = r7.case_twin(rnd.choice(files)[0], rnd) or path
        if any(f[0] == path for f in files):
            path = "src/m%d/file%d.py" % (i % 2, i)
        files.append([path, rnd.choice(LANGS[:5]), sum(ls), ms])
    return files


# ------------------------------------------------------------------ one case = all its renderings

def run_overview_case(cur, prev, probes=True, widths=()):
    """-> (input, requests for the model, observations, oracle failures)"""
    report = build_report(cur)
    diff = build_report(prev) if prev is not None else None
    cur_tot = stored_totals(report)
    prev_tot = stored_totals(diff) if diff is not None else None
    cells, printed, raw_t = real_overview_text(report, diff)
    md, raw_m = real_overview_md(report, diff)
    req = expected_overview(cur_tot, prev_tot)
    inp = {"stream": "overview", "cur": cur, "prev": prev}
    fails = []
    for w in widths:
        _c, pr, raw_w = real_overview_text(report, diff, w)
        if pr is not None and pr != cells:
            fails.append({"input": dict(inp, width=w), "observed": {"console": pr, "raw": raw_w}, "required": {"table cells": cells},
                          "what": "console lines of the text overview on a %d-column console (wide enough for the table) differ from the cells" % w})
    keys_ok = all(t[0] == t[1] for t in cur_tot + (prev_tot or []))
    if not keys_ok:
        fails.append({"input": inp, "observed": "key != language", "required": "codebase.totals keyed by language"})
    if not cur_tot and printed is not None and printed["rows"] == []:
        pass
    if printed != cells:
        fails.append({"input": inp, "observed": {"console": printed, "raw": raw_t}, "required": {"table cells": cells},
                      "what": "console lines of the text overview differ from the cells handed to rich"})
    for name, obs in (("text", cells), ("markdown", md)):
        if not meets(obs, req):
            fails.append({"input": inp, "format": name, "observed": obs, "required": req,
                          "what": "overview does not show the stored figures / annotations / order / totals"})
    if prev is not None and md is not None:
        # identical in both formats: figures of languages present in both reports, and the totals
        prevk = {t[0] for t in prev_tot}
        both = [i for i, r in enumerate(req["rows"]) if r[1] is not None]
        same = md["footer"] == cells["footer"] and len(md["rows"]) == len(cells["rows"]) and \
            all(md["rows"][i] == cells["rows"][i] for i in both)
        if not same:
            fails.append({"input": inp, "observed": {"text": cells, "markdown": md}, "required": "identical cells",
                          "what": "text and Markdown annotate differently"})
    reqs = [overview_request("text", cur_tot, prev_tot), overview_request("markdown", cur_tot, prev_tot)]
    obs = [cells, md]
    if probes and diff is not None:
        # STATE PROBES on the two report objects
        if stored_totals(report) != cur_tot or stored_totals(diff) != prev_tot:
            fails.append({"input": inp, "observed": {"current now stores": stored_totals(report), "previous now stores": stored_totals(diff)},
                          "required": {"current": cur_tot, "previous": prev_tot},
                          "what": "rendering the overview changed the numbers stored in a report"})
        req_prev = expected_overview(prev_tot, None)
        cells_p, _printed, _raw = real_overview_text(diff, None, print_console=False)
        md_p, _raw = real_overview_md(diff, None)
        for name, o in (("text", cells_p), ("markdown", md_p)):
            if not meets(o, req_prev):
                fails.append({"input": dict(inp, probe="previous report rendered as the current one, after current-vs-previous was rendered"),
                              "format": name, "observed": o, "required": req_prev,
                              "what": "the previous report, rendered on its own after it served as comparison, does not show its stored figures"})
        reqs += [overview_request("text", prev_tot, None), overview_request("markdown", prev_tot, None)]
        obs += [cells_p, md_p]
        cells_again, _p, _r = real_overview_text(report, diff, print_console=False)
        if cells_again != cells:
            fails.append({"input": dict(inp, probe="same pair rendered twice"), "observed": {"text": cells_again},
                          "required": {"text": cells}, "what": "rendering the same pair a second time gives other cells"})
    return inp, reqs, obs, fails


def run_findings_case(files, cfg=None, cfg_label=None):
    """cfg: configuration of the rendering process (kwargs of h4.configured); the report is built under the default one"""
    inp0 = {"stream": "findings", "files": files}
    if cfg:
        inp0.update(cfg=cfg, cfg_label=cfg_label)
    reqs, obs, fails, inps = [], [], [], []
    for repo in (False, True):
        report = build_report(files, repo)
        units = stored_units(report)
        for fmt in ("text", "markdown"):
            if fmt == "text" and repo:
                continue
            for full in (False, True):
                with h4.configured(**(cfg or {})):
                    o, raw = real_findings(report, fmt, full)
                inp = dict(inp0, fmt=fmt, repo=repo, full=full)
                req = expected_findings(units, full, fmt, repo)
                if not findings_meet(o, req):
                    fails.append({"input": inp, "observed": o, "required": req, "raw": raw[-2000:],
                                  "what": "findings list is not the functions > 30, longest first, cut at 10 with the exact omitted count"})
                reqs.append(findings_request(fmt, repo, full, units))
                obs.append(o)
                inps.append(inp)
    return inps, reqs, obs, fails


def run_command_case(cur, prev, repo, cfg=None, width=None, fresh=False, findings=True, layout=None):
    """the same through report_command / findings_command on written reports; cfg = configuration of the process
    that writes the reports and runs the commands (the reference numbers come from a build under the default one);
    width: console width (COLUMNS) - the text overview is then read column by column (cells may be wrapped) and judged
    where the console is wide enough for every word; fresh: the CLI entry functions in a fresh interpreter"""
    if cfg:
        with h4.configured(**cfg):
            report, diff, outs = with_commands(cur, prev, repo, width, fresh, findings, layout)
    else:
        report, diff, outs = with_commands(cur, prev, repo, width, fresh, findings, layout)
    cur_tot = stored_totals(build_report(cur, repo))
    prev_tot = stored_totals(build_report(prev, repo)) if prev is not None else None
    units = stored_units(build_report(cur, repo))
    inp = {"stream": "commands", "cur": cur, "prev": prev, "repo": repo}
    if cfg:
        inp["cfg"] = cfg
    if width:
        inp["width"] = width
    if fresh:
        inp["fresh"] = True
    if layout:
        inp["layout"] = layout
    reqs, obs, fails = [], [], []
    req = expected_overview(cur_tot, prev_tot)
    for fmt in ("text", "markdown"):
        part = split_report_output(outs[("report", fmt, None)], fmt)
        if fmt == "text" and width:
            # cells of the table built from the reports as read back, then the console columns against them
            o, _p, _r = real_overview_text(report, diff, print_console=False)
            if o["rows"] and r5.fits_wrapped(overview_columns(o), width):
                shown = r5.column_streams(part)
                if not r5.streams_agree(shown, o):
                    fails.append({"input": dict(inp, fmt=fmt), "observed": {"columns read from the console": shown and {"body": shown["body"], "footer": shown["footer"]}},
                                  "required": {"columns": r5.cell_streams(o)}, "raw": part[-3000:],
                                  "what": "report_command on a console %d columns wide (wide enough for every word of the table): the text overview "
                                          "does not show every language name, figure and annotation of the comparison completely" % width})
        else:
            o = parse_text_table(part) if fmt == "text" else parse_md_table(part)
        if not meets(o, req):
            fails.append({"input": dict(inp, fmt=fmt), "observed": o, "required": req, "raw": part[-3000:],
                          "what": "report_command: overview does not show the stored figures" + (
                              " (PATH and --diff FILE are resolved against the current directory; same-named decoy reports lie below the code base "
                              "root, in the cache directories and at the top: %s)" % layout if layout else "")})
        reqs.append(overview_request(fmt, cur_tot, prev_tot))
        obs.append(o)
        for full in (False, True):
            if ("findings", fmt, full) not in outs:
                continue
            raw = outs[("findings", fmt, full)]
            o = parse_findings_text(raw) if fmt == "text" else parse_findings_md(raw, repo)
            r = expected_findings(units, full, fmt, repo)
            if not findings_meet(o, r):
                fails.append({"input": dict(inp, fmt=fmt, full=full), "observed": o, "required": r, "raw": raw[-2000:],
                              "what": "findings_command: wrong selection / cut / omitted count"})
            reqs.append(findings_request(fmt, repo, full, units))
            obs.append(o)
    return inp, reqs, obs, fails


# ------------------------------------------------------------------ histories over Report objects

def make_pool(rnd):
    """three related code bases (current, previous, a third one with findings) -> (files per object, repo flag per object)"""
    cur, prev, _k = gen_pair(rnd)
    if prev is None:
        prev = [list(f) for f in cur[: len(cur) // 2]]
    third = gen_pair(rnd)[0] + gen_findings(rnd, rnd.choice([0, 3, 10, 11, 25]))
    return [cur, prev, third], [False, rnd.random() < 0.5, rnd.random() < 0.5]


def gen_ops(rnd, n):
    ops = []
    for _ in range(n):
        if rnd.random() < 0.75:
            ops.append(["overview", rnd.choice(["text", "markdown"]), rnd.randrange(3), rnd.choice([None, 0, 1, 2])])
        else:
            ops.append(["findings", rnd.choice(["text", "markdown"]), rnd.randrange(3), rnd.random() < 0.5])
    return ops


def run_history(pool, repos, ops):
    """render the SAME Report objects in sequence; every rendering against the snapshot taken when the object was built.
    -> (requests, observations, decoders, inputs, failures)"""
    objs = [build_report(fs, r) for fs, r in zip(pool, repos)]
    snaps = [(stored_totals(o), stored_units(o)) for o in objs]
    reqs, obs, decs, inps, fails = [], [], [], [], []
    for k, op in enumerate(ops):
        inp = {"stream": "history", "pool": pool, "repos": repos, "ops": ops[:k + 1]}
        if op[0] == "overview":
            _, fmt, i, j = op
            diff = objs[j] if j is not None else None
            if fmt == "text":
                o, printed, raw = real_overview_text(objs[i], diff)
                if printed != o:
                    fails.append({"input": inp, "observed": {"console": printed, "raw": raw}, "required": {"table cells": o},
                                  "what": "console lines of the text overview differ from the cells handed to rich"})
            else:
                o, raw = real_overview_md(objs[i], diff)
            req = expected_overview(snaps[i][0], snaps[j][0] if j is not None else None)
            if not meets(o, req):
                fails.append({"input": inp, "format": fmt, "observed": o, "required": req,
                              "what": "overview of object %d%s (after %d earlier renderings of the same objects) does not show the figures it stored when built"
                                      % (i, "" if j is None else " against object %d" % j, k)})
            reqs.append(overview_request(fmt, snaps[i][0], snaps[j][0] if j is not None else None))
            decs.append(dec_overview)
        else:
            _, fmt, i, full = op
            o, raw = real_findings(objs[i], fmt, full)
            repo = repos[i] and fmt == "markdown"
            req = expected_findings(snaps[i][1], full, fmt, repos[i])
            if not findings_meet(o, req):
                fails.append({"input": inp, "observed": o, "required": req, "raw": raw[-2000:],
                              "what": "findings of object %d after %d earlier renderings" % (i, k)})
            reqs.append(findings_request(fmt, repos[i], full, snaps[i][1]))
            decs.append(dec_findings)
        obs.append(o)
        inps.append(inp)
        if fails:
            break
    for i, o in enumerate(objs):
        if (stored_totals(o), stored_units(o)) != snaps[i] and not fails:
            fails.append({"input": {"stream": "history", "pool": pool, "repos": repos, "ops": ops}, "observed": stored_totals(o), "required": snaps[i][0],
                          "what": "the renderings changed what object %d stores" % i})
    return reqs, obs, decs, inps, fails


def shrink_history(pool, repos, ops):
    """drop operations while the history still fails"""
    def bad(o):
        return bool(run_history(pool, repos, o)[4])
    return h4.ddmin_list(ops, bad, budget_s=3.0)


def locale_ok():
    import locale
    import codelimit.common.Scanner  # noqa: F401  (the CLI imports it: it calls setlocale(LC_ALL, ""))
    return locale.localeconv()["thousands_sep"] == "" and f"{1234567:n}" == "1234567"


REGRESS = [
    # F19: per-language deltas in the text table
    ([["a.py", "Python", 100, [["f", 1, 0, 41, 40]]], ["b.c", "C", 100, []]],
     [["a.py", "Python", 90, []], ["b.c", "C", 100, []]]),
    # language added / removed, tie in LOC
    ([["a.py", "Python", 100, [["f", 1, 0, 41, 40]]], ["b.c", "C", 100, [["g", 1, 0, 71, 70]]]],
     [["x.java", "Java", 7, []], ["b.c", "C", 100, [["g", 1, 0, 71, 70]]]]),
    ([["a.py", "Python", 100, []]], [["a.py", "Python", 100, []]]),
    ([], [["a.py", "Python", 100, []]]),
    ([["a.py", "Python", 100, []]], []),
]


def correspond(ctx):
    if not locale_ok():
        ctx.notes.append("C18 correspondence skipped: LC_NUMERIC groups digits in this environment")
        return {"evaluations": 0, "distinct_nontrivial": 0, "rule": "SKIPPED: locale.localeconv()['thousands_sep'] != '' (the model driver is built for the C locale)",
                "samples": [], "exhaustive": False, "distribution": {}, "disagreements": [], "oracle_failures": []}
    rnd = ctx.rng("pairs")
    dis, fails, samples = [], [], []
    dist = {"pairs": {}, "findings_by_count": {}, "commands": 0}
    nontrivial = set()
    batch = []           # (input, request, observed, decoder, stream)
    n_pairs = ctx.pick(2000, 20000)
    pairs = [(c, p, "regress") for c, p in REGRESS] + [gen_pair(rnd) for _ in range(n_pairs)]
    crnd = ctx.rng("pairs-cfg")
    for pi, (cur, prev, kind) in enumerate(pairs):
        widths = (100, 160, 1000) if pi % 20 == 0 else ()
        if pi % 5 == 4:
            label, cfg = crnd.choice(h4.config_variants([f[0] for f in cur], crnd))
            with h4.configured(**cfg):
                inp, reqs, obs, f = run_overview_case(cur, prev, widths=widths)
            for x in f:
                x["input"] = dict(x["input"], cfg=cfg)
            dist["pairs_configured"] = dist.get("pairs_configured", 0) + 1
        else:
            inp, reqs, obs, f = run_overview_case(cur, prev, widths=widths)
        fails += f
        dist["pairs"][kind] = dist["pairs"].get(kind, 0) + 1
        for fmt, rq, o in zip(("text", "markdown", "text", "markdown"), reqs, obs):
            batch.append((dict(inp, fmt=fmt), rq, o, dec_overview, "overview-" + fmt))
        if len(reqs) > 2:
            dist["previous_rendered_as_current"] = dist.get("previous_rendered_as_current", 0) + 1
        if prev is not None and len({f[1] for f in cur}) > 1:
            nontrivial.add(rq)
    rnd = ctx.rng("findings")
    reps = ctx.pick(10, 100)
    for n_long in list(range(0, 26)) * reps + [40, 100, 251, 400, 1200]:      # "all rows" has no upper bound (seeded change C18-4: a cap at 250)
        files = gen_findings(rnd, n_long)
        inps, reqs, obs, f = run_findings_case(files)
        fails += f
        dist["findings_by_count"][n_long] = dist["findings_by_count"].get(n_long, 0) + 1
        for inp, rq, o in zip(inps, reqs, obs):
            batch.append((inp, rq, o, dec_findings, "findings-%s%s" % (inp["fmt"], "-repo" if inp["repo"] else "")))
        # the same report rendered by a process with another configuration
        if n_long <= 100 and sum(dist["findings_by_count"].values()) % 2 == 0:
            label, cfg = rnd.choice(h4.config_variants([f_[0] for f_ in files], rnd))
            inps, reqs, obs, f = run_findings_case(files, cfg, label)
            fails += f
            dist["findings_configured"] = dist.get("findings_configured", 0) + 1
            kind = "exclude" if "exclude" in cfg and len(cfg) == 1 else "all" if len(cfg) > 1 else list(cfg)[0]
            dist.setdefault("findings_configured_kinds", {})[kind] = dist.setdefault("findings_configured_kinds", {}).get(kind, 0) + 1
            for inp, rq, o in zip(inps, reqs, obs):
                batch.append((inp, rq, o, dec_findings, "findings-configured"))
        if n_long > 10:
            nontrivial.add(reqs[0])
    # ---- CONSOLE VARIANTS: every rendering on recording consoles and on interactive terminals (force_terminal) 5..60 lines high, a few
    # widths, TERM=dumb; judged by the clause as stated (at most ten rows, EXACT number of omitted rows; overview = stored figures)
    rnd = ctx.rng("console-variants")
    variants = r7.console_variants(ctx, widths=ctx.pick((250, 120), (250, 80, 120, 1000)))
    variants += [("interactive dumb terminal 250x%d" % h, {"width": 250, "height": h, "force_terminal": True, "term": "dumb"}) for h in (5, 9)]
    dist["console_variants"] = {}
    n_var = 0
    for n_long in ctx.pick([0, 1, 6, 9, 10, 11, 14, 25], list(range(0, 16)) + [20, 25, 40, 100]):
        for vi, (label, kw) in enumerate(variants):
            files = gen_findings(rnd, n_long)
            cur = prev = None
            if (vi + n_long) % 4 == 0:
                cur, prev, _k = gen_pair(rnd)
            n, f = run_console_variant_case(files, kw, label, cur, prev)
            n_var += n
            if f and sum(1 for x in fails if x["input"].get("stream") == "console-variant") >= 3:
                f = f[:1]
            fails += f
            kind = label.split(" ")[0] + (" dumb" if kw.get("term") == "dumb" else "")
            dist["console_variants"][kind] = dist["console_variants"].get(kind, 0) + n
    # OBSERVATION POINT: `codelimit findings` in a fresh interpreter attached to a pseudo-terminal with a small / large window
    for k, (rows, n_long) in enumerate(ctx.pick([(7, 14), (12, 11), (30, 25), (9, 8)], [(r_, n_) for r_ in (5, 7, 9, 12, 13, 24, 50) for n_ in (0, 8, 11, 14, 25)])):
        f = run_pty_case(gen_findings(rnd, n_long), rows, rnd.choice([100, 200]), full=(k % 4 == 3), fmt="markdown" if k % 5 == 4 else "text")
        fails += f
        n_var += 1
        dist["terminal_window_runs"] = dist.get("terminal_window_runs", 0) + 1
    dist["console_variant_renderings"] = n_var
    rnd = ctx.rng("commands")
    for k in range(ctx.pick(100, 1000)):
        cur, prev, _ = gen_pair(rnd)
        if k % 3 == 0:
            cur = cur + gen_findings(rnd, rnd.choice([0, 9, 10, 11, 12, 25]))
        cfg = None
        if k % 3 == 1:
            cfg = rnd.choice(h4.config_variants([f_[0] for f_ in cur], rnd))[1]
            dist["commands_configured"] = dist.get("commands_configured", 0) + 1
        inp, reqs, obs, f = run_command_case(cur, prev, rnd.random() < 0.5, cfg)
        fails += f
        dist["commands"] += 1
        for i, (rq, o) in enumerate(zip(reqs, obs)):
            batch.append((dict(inp, part=i), rq, o, dec_overview if rq.startswith("overview") else dec_findings, "commands"))
    # ---- totals-preserving pairs through the command (the comparison must not be judged by the totals alone)
    rnd = ctx.rng("equal-totals")
    for k in range(ctx.pick(24, 400)):
        cur, prev = gen_equal_totals_pair(rnd)
        inp, reqs, obs, f = run_command_case(cur, prev, rnd.random() < 0.3, None, rnd.choice([None, None, 120, 160, 200]))
        fails += f
        dist["commands_equal_totals"] = dist.get("commands_equal_totals", 0) + 1
        for i, (rq, o) in enumerate(zip(reqs, obs)):
            batch.append((dict(inp, part=i), rq, o, dec_overview if rq.startswith("overview") else dec_findings, "commands"))
    # ---- path-valued options: cwd x spelling of PATH x relative --diff names, same-named decoys everywhere else
    rnd = ctx.rng("layouts")
    dist["layouts"] = {}
    n_lay = ctx.pick(len(CWDS) * len(DIFF_NAMES), 400)
    for k in range(n_lay):
        cur, prev, _ = gen_pair(rnd)
        if prev is None or k % 4 == 0:
            cur, prev = gen_equal_totals_pair(rnd) if k % 8 == 0 else (cur, [list(f) for f in cur[:-1]] + gen_findings(rnd, 1))
        layout = gen_layout(rnd, k)
        fresh = (k % 13 == 5)
        inp, reqs, obs, f = run_command_case(cur, prev, rnd.random() < 0.3, None, None, fresh=fresh, findings=(k % 5 == 0) and not fresh, layout=layout)
        fails += f
        key = "cwd=%s diff=%s" % (layout["cwd"], layout["diff"])
        dist["layouts"][key] = dist["layouts"].get(key, 0) + 1
        if fresh:
            dist["layouts_fresh_process"] = dist.get("layouts_fresh_process", 0) + 1
        for i, (rq, o) in enumerate(zip(reqs, obs)):
            batch.append((dict(inp, part=i), rq, o, dec_overview if rq.startswith("overview") else dec_findings, "commands-layout"))
    # ---- the CLI entry functions in a fresh interpreter: --diff / --format / --full, console widths
    rnd = ctx.rng("fresh-process")
    for k in range(ctx.pick(3, 40)):
        if k % 2 == 0:
            cur, prev = gen_equal_totals_pair(rnd)
        else:
            cur, prev, _ = gen_pair(rnd)
            cur = cur + gen_findings(rnd, rnd.choice([0, 10, 11, 25]))
        inp, reqs, obs, f = run_command_case(cur, prev, rnd.random() < 0.5, None, rnd.choice([80, 100, 160, 250]), fresh=True, findings=ctx.thorough)
        fails += f
        dist["fresh_process_runs"] = dist.get("fresh_process_runs", 0) + 1
        for i, (rq, o) in enumerate(zip(reqs, obs)):
            batch.append((dict(inp, part=i), rq, o, dec_overview if rq.startswith("overview") else dec_findings, "commands-fresh-process"))
    # ---- SIZE x CONFIGURATION: figures 10^0 .. 10^7 on consoles 40 .. 300 columns wide
    rnd = ctx.rng("widths")
    W = r5.rungs(ctx.pick([40, 60, 80, 100, 120, 160, 200, 300], list(range(40, 131, 5)) + [160, 200, 250, 300, 1000]), 30, 2000)
    for k in range(ctx.pick(96, 1600)):
        m = k % 8
        mags = [m] * 5 if k % 3 == 0 else [rnd.randint(0, 7) for _ in range(5)]
        cur_t, prev_t = gen_totals_pair(rnd, mags)
        inp, reqs, obs, f = run_width_case(cur_t, prev_t, W, dist)
        fails += f
        dist["width_cases"] = dist.get("width_cases", 0) + 1
        for fmt, rq, o in zip(("text", "markdown"), reqs, obs):
            batch.append((dict(inp, fmt=fmt), rq, o, dec_overview, "widths-" + fmt))
    # the same through report_command: large line totals and thousands of functions from real files, COLUMNS = 80 ...
    for k in range(ctx.pick(4, 60)):
        cur, prev = gen_large_pair(rnd, ctx.pick([150, 400, 1200], [200, 600, 1500, 5000]))
        inp, reqs, obs, f = run_command_case(cur, prev, False, None, rnd.choice([80, 80, 100, 120]), findings=False)
        fails += f
        dist["commands_large_figures"] = dist.get("commands_large_figures", 0) + 1
        for i, (rq, o) in enumerate(zip(reqs, obs)):
            if rq.startswith("overview"):
                batch.append(({"stream": "commands", "large": True, "width": inp.get("width"), "part": i, "cur": "see the oracle failure / regenerate with the seed"},
                              rq, o, dec_overview, "commands-large"))
    dist["console_widths"] = W if len(W) < 24 else "%d widths %d..%d" % (len(W), W[0], W[-1])
    rnd = ctx.rng("histories")
    for k in range(ctx.pick(150, 2000)):
        pool, repos = make_pool(rnd)
        ops = gen_ops(rnd, rnd.randint(3, 8))
        reqs, obs, decs, inps, f = run_history(pool, repos, ops)
        if f:
            small = shrink_history(pool, repos, ops)
            f2 = run_history(pool, repos, small)[4]
            f = f2 or f
        fails += f
        dist["histories"] = dist.get("histories", 0) + 1
        dist["history_renderings"] = dist.get("history_renderings", 0) + len(reqs)
        for inp, rq, o, dec in zip(inps, reqs, obs, decs):
            batch.append(({"stream": "history", "ops": inp["ops"], "pool": "see the oracle failure / regenerate with the seed"} if len(str(inp)) > 4000 else inp,
                          rq, o, dec, "history"))
    if not h4.configuration_is_default():
        dis.append({"stream": "configured", "input": {"stream": "configured"}, "model": "default configuration restored", "impl": "configuration left modified"})
    fails.sort(key=lambda x: len(str(x["input"])))
    replies = common.run_driver_sharded([b[1] for b in batch])
    for (inp, rq, o, dec, stream), reply in zip(batch, replies):
        m = dec(reply)
        oo = o if o is None or "junk" not in o else {"rows": o["rows"], "more": o["more"], "junk": o["junk"]}
        if m != oo:
            dis.append({"stream": stream, "input": inp, "model": m, "impl": oo})
        elif len(samples) < 6 and (len(samples) % 2 == 0) == rq.startswith("overview") and len(rq) < 600:
            samples.append({"stream": stream, "request": rq, "model": m, "impl": oo})
    return {
        "evaluations": len(batch) + dist.get("console_variant_renderings", 0), "distinct_nontrivial": len(nontrivial),
        "rule": ("%d report pairs (0..6 of 12 languages, LOC ties frequent, previous report: none / equal / languages added, "
                 "removed, changed, unchanged, insertion orders shuffled) x text (table cells AND console lines) and Markdown; "
                 "%d codebases with 0..25, 40, 100 functions longer than 30 (ties frequent, boundary lengths 29..32, 59..62) x "
                 "text / Markdown / Markdown with repository x full / not; %d pairs through ReportWriter + report_command / "
                 "findings_command; after every pair: stored numbers unchanged, the previous report rendered as current (text cells, "
                 "Markdown), the pair's cells computed again; every 5th pair, every 2nd findings code base (once more) and every 3rd command run under a "
                 "configuration variant (Configuration.exclude = a directory / extension / base name / full path of the report's files, `*`, "
                 "`*` + negation; repository; verbose; all); every 20th pair also on consoles 100 / 160 / 1000 wide where the table fits; "
                 "%d histories of 3..8 renderings over a pool of three Report objects (overview alone / against another / against itself, "
                 "findings) judged against the snapshot taken when the objects were built; "
                 "round 5: about a tenth of the pairs, %d further command runs and every second of %d runs of the CLI entry functions report / findings in a fresh interpreter have a previous "
                 "report with the SAME five totals and other per-language figures (files moved between languages); %d totals pairs with figures of "
                 "10^0..10^7 per column (all columns of one magnitude, or mixed) rendered as text on consoles %s wide and read back column by column (wrapped "
                 "cells joined): complete wherever the console is wide enough for every word of the table; %d report_command runs on reports with "
                 "thousands of functions and 10^4..10^7 lines at COLUMNS 80..120; widths also get the rungs of integer literals new in the source under check; "
                 "round 6: %d report_command / findings_command runs (some through the CLI entry functions in a fresh interpreter) with the process standing at the "
                 "top / in the parent / in a sibling / inside / at the root of the code base, PATH relative or absolute, --diff given by a relative name (%s) "
                 "meaning the file below the current directory, while same-named reports with other figures lie below the code base root, in the cache "
                 "directories and at the top, and another `.codelimit_cache/codelimit.json` lies in the current directory; "
                 "round 7: console variants - %d renderings (findings text / Markdown / Markdown with repository x full / not, "
                 "for 0..25 findings around the cut-off; every fourth also the overview of a pair) on recording consoles, on non-terminals with a height, and on "
                 "interactive terminals (force_terminal, TERM=xterm-256color, also TERM=dumb) 5..60 lines high and 120 / 250 (thorough 80..1000) columns wide, escape "
                 "sequences removed, and `codelimit findings` through the CLI entry function in a fresh interpreter whose stdout is a pseudo-terminal with a window of 7..30 (thorough 5..50) lines, "
                 "judged by the clause as stated (the first k <= 10 longest functions, the announced number = stored - listed EXACTLY); "
                 "non-trivial = distinct diffs with >= 2 current languages, and codebases with more than 10 findings"
                 % (len(pairs), len(dist["findings_by_count"]) and sum(dist["findings_by_count"].values()), dist["commands"], dist.get("histories", 0),
                    dist.get("commands_equal_totals", 0), dist.get("fresh_process_runs", 0), dist.get("width_cases", 0), dist.get("console_widths"),
                    dist.get("commands_large_figures", 0), sum(dist.get("layouts", {}).values()), ", ".join(DIFF_NAMES), dist.get("console_variant_renderings", 0))),
        "samples": samples, "exhaustive": False, "distribution": dist,
        "disagreements": dis[:50], "oracle_failures": fails[:50],
        "generated_hashes": {"Gen/Logic.lean": _sha(os.path.join(common.LEAN, "CodeLimit", "Gen", "Logic.lean"))},
    }


def _sha(path):
    import hashlib
    try:
        return hashlib.sha256(open(path, "rb").read()).hexdigest()[:16]
    except OSError:
        return None


def search(ctx, hints):
    """oracle only, more inputs; smallest failing inputs first"""
    if not locale_ok():
        return []
    fails = []
    for cur, prev in REGRESS:
        fails += run_overview_case(cur, prev)[3]
    rnd = ctx.rng("search")
    for _ in range(ctx.pick(1500, 6000)):
        cur, prev, _k = gen_pair(rnd)
        fails += run_overview_case(cur, prev)[3]
    for n_long in list(range(0, 26)) * 4:
        files = gen_findings(rnd, n_long)
        fails += run_findings_case(files)[3]
        label, cfg = rnd.choice(h4.config_variants([f_[0] for f_ in files], rnd))
        fails += run_findings_case(files, cfg, label)[3]
    for _ in range(ctx.pick(100, 500)):
        pool, repos = make_pool(rnd)
        fails += run_history(pool, repos, gen_ops(rnd, 6))[4]
    fails.sort(key=lambda f: len(str(f["input"])))
    return fails[:20]


def replay(payload):
    inp = payload["input"]
    def cfg_of(i):
        c = dict(i.get("cfg") or {})
        if c.get("repository") is not None:
            c["repository"] = tuple(c["repository"])
        return c
    if inp["stream"] == "widths":
        f = run_width_case(inp["cur_totals"], inp["prev_totals"], [inp["width"]] if "width" in inp else [40, 60, 80, 100, 120, 160, 200, 300], {})[3]
    elif inp["stream"] == "commands" and not isinstance(inp.get("cur"), list):
        print("summary only")
        return True
    elif inp["stream"] == "overview":
        with h4.configured(**cfg_of(inp)):
            f = run_overview_case(inp["cur"], inp["prev"], widths=[inp["width"]] if "width" in inp else ())[3]
    elif inp["stream"] == "terminal-window":
        f = run_pty_case(inp["files"], inp["rows"], inp["cols"], inp["full"], inp["fmt"])
    elif inp["stream"] == "console-variant":
        f = run_console_variant_case(inp["files"], inp["console"], inp.get("console_label", "console"), inp.get("cur"), inp.get("prev"))[1]
    elif inp["stream"] == "findings":
        f = run_findings_case(inp["files"], cfg_of(inp) or None, inp.get("cfg_label"))[3]
    elif inp["stream"] == "history":
        if not isinstance(inp.get("pool"), list):
            print("summary only")
            return True
        f = run_history(inp["pool"], inp["repos"], inp["ops"])[4]
    else:
        f = run_command_case(inp["cur"], inp["prev"], inp["repo"], cfg_of(inp) or None, inp.get("width"), bool(inp.get("fresh")), layout=inp.get("layout"))[3]
    for x in f[:3]:
        print("still fails: %s\n observed %s\n required %s" % (x.get("what"), x.get("observed"), x.get("required")))
    return not f
