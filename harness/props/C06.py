"""C06 - analysis is deterministic, order-independent and isolated per file.

Theorems (Props/C06.lean): the engine's results do not depend on the set-iteration order nor on
the value of the global state-id counter (also for the stateful token predicates, up to
get_headers), and the model is a pure function of (language, content), so nothing analysed
before can matter. The runtime counterpart - real hash randomisation, the process-wide
State._id counter and compiled-pattern state surviving between files - is tied by running the
real analysis in fresh interpreters under different PYTHONHASHSEEDs, on permuted file orders
with malformed files interleaved, and comparing every per-file result with the model's; and by
scanning the same tree twice."""
import json
import os
import shutil
import subprocess
import sys
import tempfile

sys.path.insert(0, os.path.dirname(os.path.dirname(os.path.abspath(__file__))))
import common
import scan_real as sr
import scan_streams
from props import C15

ID = "C06"
TRUSTED = [
    "correspondence harness (harness/props/C06.py, c06_worker.py)",
    "translator/patterns.py (shipped header patterns -> Gen/Languages.lean)",
    "modelled, not verified (partial): real hash randomisation and process state are represented in the theorems as arbitrary iteration orders / id bases; the link is this run (fresh interpreters x hash seeds x file orders)",
]
ASSUMPTIONS = ["Python set iteration yields every element exactly once in some order (IsOrder)"]
regen = C15.regen


def files(ctx):
    n = ctx.pick(4, 30)
    out = [(l, t) for (l, t, _) in scan_streams.canonical(ctx, n, "c06")]
    out += scan_streams.soups(ctx, ctx.pick(30, 300), "c06soup")
    out += [("JavaScript", "const f = (cb = () => 0) => {\n}\n"), ("Python", "def f("), ("Java", "class A { void f() throws X, Y { new B() { void g() { } }; } }\n")]
    cor = [(l, t) for (l, t) in scan_streams.corpus_cases() if len(t) < 15000]
    out += cor[:: max(1, len(cor) // ctx.pick(10, 60))]
    return [(l, t) for (l, t) in out if "\r" not in t]


def run_worker(cases, hashseed):
    env = dict(os.environ, PYTHONHASHSEED=str(hashseed))
    p = subprocess.run([sys.executable, os.path.join(common.VERIF, "harness", "c06_worker.py")], input=json.dumps(cases),
                       capture_output=True, text=True, env=env, timeout=900)
    if p.returncode != 0:
        return None, p.stderr[-500:]
    return json.loads(p.stdout)["results"], None


def scan_tree_twice(ctx, fs):
    """scans of the same tree in fresh processes under several hash seeds (no cache): the reports
    may differ only in uuid, timestamp and the order of files, and every file's entry must be the
    analysis of that file alone (= the model's result for its language and content). The tree has
    an order-sensitive exclusion list (a negated gitignore pattern) and byte-identical files of
    different languages, so that neither set-iteration order nor sharing between files goes unnoticed;
    every run but the first also walks the directories in a different (seed-determined) order
    (harness/c06_scan.py wraps os.walk in the scanning interpreter)."""
    root = tempfile.mkdtemp(prefix="c06_")
    try:
        placed = {}
        for i, (lang, code) in enumerate(fs[:25]):
            rel = os.path.join("d%d" % (i % 3), "f%02d.%s" % (i, sr.EXT[lang]))
            placed[rel] = (lang, code)
        twin = "int sum(int n) {\n  int s = 0;\n  list_for_each(p) {\n    s += 1;\n  }\n  return s;\n}\n"
        placed[os.path.join("twins", "sum.c")] = ("C", twin)
        placed[os.path.join("twins", "sum.cpp")] = ("C++", twin)
        js = "function f(a) {\n  return a;\n}\n"
        placed[os.path.join("twins", "same.js")] = ("JavaScript", js)
        placed[os.path.join("twins", "same.ts")] = ("TypeScript", js)
        placed[os.path.join("gen", "keep.py")] = ("Python", "def keep():\n    return 1\n")
        placed[os.path.join("gen", "drop.py")] = ("Python", "def drop():\n    return 2\n")
        # files whose language follows from the FULL name (no extension) next to extension-less files
        # that are no source files, and a file that is not valid UTF-8 next to a UTF-8 file with
        # non-ASCII identifiers: a per-extension lexer cache or a sticky decoding fallback (seeded
        # changes C06-3, C06-4) makes the result depend on which of them is visited first
        build = "def rule(name):\n    x = name\n    return x\n"
        placed[os.path.join("tools", "BUILD")] = ("Python", build)
        placed[os.path.join("tools", "SConstruct")] = ("Python", build)
        placed[os.path.join("enc", "unicode.py")] = ("Python", "def gr\u00f6\u00dfe(werte):\n    s = '\u00e9\u00e8'\n    return werte\n")
        raw = {os.path.join("enc", "legacy.py"): b"# caf\xe9 \xff\ndef alt(a):\n    return a\n",
               os.path.join("enc2", "legacy2.c"): b"int alt2(int a) {\n  return a; /* \xe9\xff */\n}\n"}
        placed[os.path.join("enc", "legacy.py")] = ("Python", raw[os.path.join("enc", "legacy.py")].decode("latin-1"))
        placed[os.path.join("enc2", "legacy2.c")] = ("C", raw[os.path.join("enc2", "legacy2.c")].decode("latin-1"))
        placed[os.path.join("enc2", "unicode2.c")] = ("C", "int \u00fcber(int a) {\n  return a;\n}\n")
        others = {os.path.join("tools", "LICENSE"): "Permission is hereby granted (free)\n", os.path.join("tools", "Makefile"): "all:\n\techo def f\n",
                  os.path.join("tools", "README"): "def not_code(): pass\n", "LICENSE": "text\n"}
        for rel, (lang, code) in placed.items():
            os.makedirs(os.path.join(root, os.path.dirname(rel)), exist_ok=True)
            with open(os.path.join(root, rel), "wb") as f:
                f.write(raw[rel] if rel in raw else code.encode("utf-8"))
        for rel, text in others.items():
            os.makedirs(os.path.join(root, os.path.dirname(rel)) if os.path.dirname(rel) else root, exist_ok=True)
            with open(os.path.join(root, rel), "w") as f:
                f.write(text)
        with open(os.path.join(root, ".gitignore"), "w") as f:
            f.write("gen/*\n!gen/keep.py\n*.tmp\n")
        expected_files = sorted(r for r in placed if r != os.path.join("gen", "drop.py"))
        docs = []
        seeds = ctx.pick([1, 5, 12, 77], list(range(1, 25)))
        for k, seed in enumerate(seeds):
            shutil.rmtree(os.path.join(root, ".codelimit_cache"), ignore_errors=True)
            # the first run walks in the file system's order, the others in seed-determined orders
            env = dict(os.environ, PYTHONHASHSEED=str(seed), PYTHONPATH=common.REPO, COLUMNS="200", C06_WALK_SEED=str(0 if k == 0 else seed))
            p = subprocess.run([sys.executable, os.path.join(common.VERIF, "harness", "c06_scan.py"), "scan", root], capture_output=True, text=True, env=env, timeout=300, cwd=root)
            if p.returncode != 0:
                return "scan exited with %s: %s" % (p.returncode, (p.stdout + p.stderr)[-300:])
            d = json.load(open(os.path.join(root, ".codelimit_cache", "codelimit.json")))
            d.pop("uuid", None); d.pop("timestamp", None)
            docs.append(d)

        def canon(d):
            cb = d["codebase"]
            return {"version": d.get("version"), "root": d.get("root"), "totals": cb["totals"],
                    "files": {k: v for k, v in sorted(cb["files"].items())},
                    "tree": {k: {"entries": sorted(v["entries"]), "profile": v["profile"]} for k, v in sorted(cb["tree"].items())}}
        first = canon(docs[0])
        for seed, d in zip(seeds[1:], docs[1:]):
            if canon(d) != first:
                a_, b_ = set(first["files"]), set(canon(d)["files"])
                return "scans of the same tree under PYTHONHASHSEED=%s (file-system walk order) and %s (walk order seed %s) differ beyond uuid/timestamp/file order (files only in one: %s)" % (seeds[0], seed, seed, sorted(a_ ^ b_)[:4])
        if sorted(first["files"]) != expected_files:
            return "scanned files %s, expected %s" % (sorted(first["files"])[:6], expected_files[:6])
        # every entry is the analysis of that file alone
        rels = sorted(first["files"])
        model = sr.model_scan_many([sr.scan_request(*placed[r]) for r in rels])
        for r, m in zip(rels, model):
            dm = sr.decode_scan(m)
            e = first["files"][r]
            got = [(x["unit_name"], x["start"]["line"], x["start"]["column"], x["end"]["line"], x["end"]["column"], x["value"]) for x in e["measurements"]]
            if dm is None or got != dm[0] or e["language"] != placed[r][0] or e["loc"] != dm[1]:
                return "entry of %s in the scan report (%s, %s) is not the analysis of that file alone (%s, %s)" % (r, e["language"], got[:3], placed[r][0], dm and dm[0][:3])
        return None
    finally:
        shutil.rmtree(root, ignore_errors=True)


def correspond(ctx):
    from concurrent.futures import ThreadPoolExecutor
    fs = files(ctx)
    model = sr.model_scan_many([sr.scan_request(l, c) for (l, c) in fs])
    ref = dict(zip(range(len(fs)), model))
    rnd = ctx.rng("orders")
    seeds = ctx.pick([0, 1, 2, 4242], list(range(0, 30)) + [12345, 999983])
    orders = [list(range(len(fs))), list(reversed(range(len(fs))))]
    for _ in range(ctx.pick(1, 8)):
        o = list(range(len(fs))); rnd.shuffle(o); orders.append(o)
    jobs = [(s, o) for s in seeds for o in (orders if ctx.thorough else orders[: 3])]
    if not ctx.thorough:
        jobs = [(s, orders[i % len(orders)]) for i, s in enumerate(seeds)] + [(seeds[0], orders[1]), (seeds[1], orders[2])]
    else:
        jobs = [(s, orders[i % len(orders)]) for i, s in enumerate(seeds)] + [(7, o) for o in orders]

    def one(job):
        s, o = job
        res, err = run_worker([fs[i] for i in o], s)
        return (s, o, res, err)
    with ThreadPoolExecutor(max_workers=16) as ex:
        results = list(ex.map(one, jobs))
    dis, fails = [], []
    evals = 0
    nontrivial = set()
    for (s, o, res, err) in results:
        if res is None:
            fails.append({"input": {"hashseed": s, "order": o[:10]}, "observed": err, "required": "worker completes"}); continue
        for pos, (i, r) in enumerate(zip(o, res)):
            evals += 1
            lang, code = fs[i]
            if r != ref[i]:
                inp = {"language": lang, "code": code, "hashseed": s, "position_in_order": pos,
                       "predecessors": [fs[j] for j in o[max(0, pos - 3):pos]]}
                dis.append({"stream": "scan/%s" % lang, "input": inp, "model": ref[i][:200], "impl": r[:200]})
                fails.append({"input": inp, "observed": r[:200], "required": "the result of analysing this file alone: " + ref[i][:200]})
            if not r.startswith("ok 0 ") and r.startswith("ok"):
                nontrivial.add((i, s))
    t = scan_tree_twice(ctx, fs)
    if t:
        fails.append({"input": {"stream": "tree"}, "observed": t, "required": "reports equal up to uuid, timestamp and file order"})
    return {
        "evaluations": evals + 2, "distinct_nontrivial": len(nontrivial),
        "rule": "%d files (canonical, malformed incl. ones that abort matching midway, corpus) analysed in %d fresh interpreters: PYTHONHASHSEED in %s x file orders (identity, reversed, random permutations); every per-file result compared with the model's single result; plus two subprocess scans of one tree under different hash seeds; non-trivial = distinct (file, hash seed) pairs with at least one function" % (len(fs), len(jobs), seeds if len(seeds) < 8 else "0..29,12345,999983"),
        "samples": [{"hashseed": s, "order": o[:8], "first_result": (res or [""])[0][:60]} for (s, o, res, e) in results[:3]],
        "exhaustive": False, "distribution": {"files": len(fs), "interpreters": len(jobs), "hash_seeds": len(seeds), "orders": len(orders)},
        "disagreements": dis[:30], "oracle_failures": fails[:30],
    }


def search(ctx, hints):
    r = correspond(ctx)
    return r["oracle_failures"][:6]


def replay(payload):
    inp = payload["input"]
    if inp.get("stream") == "tree" or "language" not in inp:
        print("tree/worker level failure: re-run the check"); return False
    cases = [tuple(x) for x in inp.get("predecessors", [])] + [(inp["language"], inp["code"])]
    alone, _ = run_worker([(inp["language"], inp["code"])], 0)
    res, err = run_worker(cases, inp["hashseed"])
    print("alone (seed 0): %s\nafter predecessors (seed %s): %s" % (alone and alone[0][:120], inp["hashseed"], res and res[-1][:120]))
    return res is not None and alone is not None and res[-1] == alone[0]
