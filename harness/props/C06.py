"""C06 - analysis is deterministic, order-independent and isolated per file.

Theorems (Props/C06.lean): the engine's results do not depend on the set-iteration order nor on
the value of the global state-id counter (also for the stateful token predicates, up to
get_headers), and the model is a pure function of (language, content), so nothing analysed
before can matter. The runtime counterpart - real hash randomisation, the process-wide
State._id counter and compiled-pattern state surviving between files - is tied by running the
real analysis in fresh interpreters under different PYTHONHASHSEEDs, on permuted file orders
with malformed files interleaved, and comparing every per-file result with the model's; by
scanning the same tree twice; by a ladder of hash seeds (16+4 / 64+16) over tiny files whose header
line carries every comment-opener neighbourhood of `nocl` (marker_files); and by calling the real
`check_command` with several directory arguments in EVERY order on trees with nested .gitignore
files (check_orders: fresh interpreters, all calls of a tree in one process, first call repeated
at the end), each call judged against the model's analysis of every file alone. Round 5: the tree of the two-scans stream
names files by every extension / whole name Pygments maps to their language and holds byte-identical headers under every
contested name (x.h ...) above, beside and below C and C++ sources (a failure is shrunk to a few files and replayable);
cache_histories: `codelimit scan`, then files rewritten with a kept / back-dated mtime, touched, renamed with the same
bytes, then scans with the cache in place and without: every entry must be the analysis of the file as it is now.
Round 6: name collisions (every sampled file analysed directly after files that declare its function names as macros /
typedefs / functions of other languages); the macro headers of the twins in the tree stream; a size ladder in the cache
histories (functions behind N bytes of generated data rewritten between two scans, N from a geometric ladder + srcdict rungs)."""
import json
import os
import shutil
import subprocess
import sys
import tempfile

sys.path.insert(0, os.path.dirname(os.path.dirname(os.path.abspath(__file__))))
import common
import scan_real as sr
import scan_streams
import select_real as sel
from props import C15

ID = "C06"
TRUSTED = [
    "correspondence harness (harness/props/C06.py, c06_worker.py)",
    "translator/patterns.py (shipped header patterns -> Gen/Languages.lean)",
    "modelled, not verified (partial): real hash randomisation and process state are represented in the theorems as arbitrary iteration orders / id bases; the link is this run (fresh interpreters x hash seeds x file orders)",
]
ASSUMPTIONS = ["Python set iteration yields every element exactly once in some order (IsOrder)"]
regen = C15.regen


def files(ctx):
    n = ctx.pick(4, 30)
    out = [(l, t) for (l, t, _) in scan_streams.canonical(ctx, n, "c06")]
    out += scan_streams.soups(ctx, ctx.pick(30, 300), "c06soup")
    out += [("JavaScript", "const f = (cb = () => 0) => {\n}\n"), ("Python", "def f("), ("Java", "class A { void f() throws X, Y { new B() { void g() { } }; } }\n")]
    cor = [(l, t) for (l, t) in scan_streams.corpus_cases() if len(t) < 15000]
    out += cor[:: max(1, len(cor) // ctx.pick(10, 60))]
    return [(l, t) for (l, t) in out if "\r" not in t]


def run_worker(cases, hashseed):
    env = dict(os.environ, PYTHONHASHSEED=str(hashseed))
    p = subprocess.run([sys.executable, os.path.join(common.VERIF, "harness", "c06_worker.py")], input=json.dumps(cases),
                       capture_output=True, text=True, env=env, timeout=900)
    if p.returncode != 0:
        return None, p.stderr[-500:]
    return json.loads(p.stdout)["results"], None


def tree_files(ctx, fs):
    """the tree of the `tree` stream: {rel path: (language, bytes)} of the files a scan must report, {rel path: bytes}
    of files it must not, and the root .gitignore.  File names: the canonical extension of the language or - for half
    of the generated files - ANY extension / whole file name Pygments maps to that language (harness/gen/names.py:
    `*.h` and `*.idc` for C, `*.hh` `*.hpp` `*.cc` `*.cxx` `*.H` ... for C++, `*.mjs` `*.cjs`, `*.pyi` `*.pyw` `BUILD`
    `SConscript` `BUILD.bazel` ...), so that names claimed by several languages (`*.h`: C for Pygments, used by C++
    projects) sit next to files of the competing language, above and below them in the walk."""
    rnd = ctx.rng("tree-names")
    pools = sel.name_pools()["lang"]
    placed = {}
    for i, (lang, code) in enumerate(fs[:25]):
        alts = [fn for fn, l in pools if l == lang]
        fn = rnd.choice(alts) if alts and rnd.random() < 0.5 else "unit." + sr.EXT[lang]
        rel = os.path.join("d%d" % (i % 3), "f%02d%s" % (i, fn[4:])) if fn.startswith("unit.") else os.path.join("d%d" % (i % 3), "p%02d" % i, fn)
        placed[rel] = (lang, code.encode("utf-8"))
    twin = "int sum(int n) {\n  int s = 0;\n  list_for_each(p) {\n    s += 1;\n  }\n  return s;\n}\n"
    placed[os.path.join("twins", "sum.c")] = ("C", twin.encode())
    placed[os.path.join("twins", "sum.cpp")] = ("C++", twin.encode())
    # every name of the pool that a SECOND lexer claims as well (`x.h`: C / Objective-C, `x.hh`, `x.cp`, `x.sc`) and the
    # header extensions, byte-identical, at three levels: above, beside and below files of the other C-family language
    hdr = "static inline " + twin           # the block-like macro is read differently by the C and the C++ rules
    contested = sorted({fn[4:] for fn, l, others in __import__("gen.names", fromlist=["x"]).language_file_names("unit")
                        if fn.startswith("unit.") and (others or fn[4:] in (".h", ".H", ".hh", ".hpp"))})
    for ext in contested:
        lang = sel.expected_language("shared" + ext)
        if lang is None:
            continue
        for d in ("", "twins", os.path.join("d0", "inc"), os.path.join("zz", "inc")):
            placed[os.path.join(d, "shared" + ext)] = (lang, hdr.encode())
    # the header a project keeps such a macro in: walked before some of its users and after others
    macro_hdr = "#ifndef LIST_H\n#define LIST_H\n#define list_for_each(p) for (p = 0; p < 3; p++)\n#define sum(n) (n)\n#endif\n"
    placed[os.path.join("twins", "list.h")] = ("C", macro_hdr.encode())
    placed[os.path.join("d1", "inc", "list.hpp")] = ("C++", macro_hdr.encode())
    placed["main.cpp"] = ("C++", twin.encode())
    placed[os.path.join("zz", "app.cc")] = ("C++", twin.encode())
    placed[os.path.join("zz", "crc.c")] = ("C", twin.encode())
    js = "function f(a) {\n  return a;\n}\n"
    placed[os.path.join("twins", "same.js")] = ("JavaScript", js.encode())
    placed[os.path.join("twins", "same.ts")] = ("TypeScript", js.encode())
    placed[os.path.join("gen", "keep.py")] = ("Python", b"def keep():\n    return 1\n")
    placed[os.path.join("gen", "drop.py")] = ("Python", b"def drop():\n    return 2\n")
    # files whose language follows from the FULL name (no extension) next to extension-less files
    # that are no source files, and a file that is not valid UTF-8 next to a UTF-8 file with
    # non-ASCII identifiers: a per-extension lexer cache or a sticky decoding fallback (seeded
    # changes C06-3, C06-4) makes the result depend on which of them is visited first
    build = b"def rule(name):\n    x = name\n    return x\n"
    placed[os.path.join("tools", "BUILD")] = ("Python", build)
    placed[os.path.join("tools", "SConstruct")] = ("Python", build)
    placed[os.path.join("enc", "unicode.py")] = ("Python", "def gr\u00f6\u00dfe(werte):\n    s = '\u00e9\u00e8'\n    return werte\n".encode("utf-8"))
    placed[os.path.join("enc", "legacy.py")] = ("Python", b"# caf\xe9 \xff\ndef alt(a):\n    return a\n")
    placed[os.path.join("enc2", "legacy2.c")] = ("C", b"int alt2(int a) {\n  return a; /* \xe9\xff */\n}\n")
    placed[os.path.join("enc2", "unicode2.c")] = ("C", "int \u00fcber(int a) {\n  return a;\n}\n".encode("utf-8"))
    others = {os.path.join("tools", "LICENSE"): b"Permission is hereby granted (free)\n", os.path.join("tools", "Makefile"): b"all:\n\techo def f\n",
              os.path.join("tools", "README"): b"def not_code(): pass\n", "LICENSE": b"text\n"}
    return placed, others, "gen/*\n!gen/keep.py\n*.tmp\n"


def decode_bytes(data):
    try:
        return data.decode("utf-8")
    except UnicodeDecodeError:
        return data.decode("latin-1")


def write_tree(root, placed, others, gitignore):
    for rel, data in list((k, v[1]) for k, v in placed.items()) + list(others.items()):
        os.makedirs(os.path.join(root, os.path.dirname(rel)) if os.path.dirname(rel) else root, exist_ok=True)
        with open(os.path.join(root, rel), "wb") as f:
            f.write(data)
    if gitignore:
        with open(os.path.join(root, ".gitignore"), "w") as f:
            f.write(gitignore)


def cli_scan(root, hashseed, walk_seed, keep_cache=False):
    """`codelimit scan <root>` in a fresh interpreter (harness/c06_scan.py: os.walk order = a function of walk_seed; 0 = the
    file system's) -> (report document without uuid / timestamp, None) | (None, error)"""
    if not keep_cache:
        shutil.rmtree(os.path.join(root, ".codelimit_cache"), ignore_errors=True)
    env = dict(os.environ, PYTHONHASHSEED=str(hashseed), PYTHONPATH=common.REPO, COLUMNS="200", C06_WALK_SEED=str(walk_seed))
    p = subprocess.run([sys.executable, os.path.join(common.VERIF, "harness", "c06_scan.py"), "scan", root], capture_output=True, text=True, env=env, timeout=300, cwd=root)
    if p.returncode != 0:
        return None, "scan exited with %s: %s" % (p.returncode, (p.stdout + p.stderr)[-300:])
    try:
        d = json.load(open(os.path.join(root, ".codelimit_cache", "codelimit.json")))
    except Exception as e:  # noqa: BLE001
        return None, "no readable report after the scan: %r" % (e,)
    d.pop("uuid", None); d.pop("timestamp", None)
    return d, None


def canon_report(d):
    cb = d["codebase"]
    return {"version": d.get("version"), "root": d.get("root"), "totals": cb["totals"],
            "files": {k: v for k, v in sorted(cb["files"].items())},
            "tree": {k: {"entries": sorted(v["entries"]), "profile": v["profile"]} for k, v in sorted(cb["tree"].items())}}


def entry_vs_model(files, report_files):
    """every entry of a report is the analysis of that file alone: language by its name, measurements and loc = the model's
    result for (language, content) -> (rel, message) of the first entry that is not, or None"""
    rels = sorted(report_files)
    model = sr.model_scan_many([sr.scan_request(files[r][0], decode_bytes(files[r][1])) for r in rels], shards=1 if len(rels) < 20 else 16)
    for r, m in zip(rels, model):
        dm = sr.decode_scan(m)
        e = report_files[r]
        got = [(x["unit_name"], x["start"]["line"], x["start"]["column"], x["end"]["line"], x["end"]["column"], x["value"]) for x in e["measurements"]]
        if dm is None or got != dm[0] or e["language"] != files[r][0] or e["loc"] != dm[1]:
            return r, "entry of %s in the scan report (%s, %s) is not the analysis of that file alone (%s, %s)" % (r, e["language"], got[:3], files[r][0], dm and dm[0][:3])
    return None


def run_tree(placed, others, gitignore, runs):
    """scans of one tree in fresh processes, one per (hash seed, walk seed) of `runs`, no cache: -> None | {"what", "file", "runs"}"""
    root = tempfile.mkdtemp(prefix="c06_")
    try:
        write_tree(root, placed, others, gitignore)
        expected_files = sorted(r for r in placed if not (gitignore and r == os.path.join("gen", "drop.py")))
        docs = []
        for (seed, walk) in runs:
            d, err = cli_scan(root, seed, walk)
            if err:
                return {"what": err, "file": None, "runs": [[seed, walk]]}
            docs.append(canon_report(d))
        first = docs[0]
        for (seed, walk), d in zip(runs[1:], docs[1:]):
            if d != first:
                a_, b_ = set(first["files"]), set(d["files"])
                diff = sorted(a_ ^ b_) or [k for k in sorted(a_) if first["files"][k] != d["files"][k]]
                return {"what": "scans of the same tree under PYTHONHASHSEED=%s (walk order: %s) and PYTHONHASHSEED=%s (walk order seed %s) differ beyond uuid/timestamp/file order: %s" % (
                            runs[0][0], "file system" if not runs[0][1] else "seed %s" % runs[0][1], seed, walk,
                            [(k, first["files"].get(k, {}).get("language"), d["files"].get(k, {}).get("language")) for k in diff[:4]] or "totals / folders"),
                        "file": diff[0] if diff else None, "runs": [list(runs[0]), [seed, walk]]}
        if sorted(first["files"]) != expected_files:
            diff = sorted(set(first["files"]) ^ set(expected_files))
            return {"what": "scanned files: unexpected %s, missing %s" % (sorted(set(first["files"]) - set(expected_files))[:4], sorted(set(expected_files) - set(first["files"]))[:4]),
                    "file": diff[0] if diff else None, "runs": [list(runs[-1])]}      # all runs gave the same report: name a run with a seeded walk order
        bad = entry_vs_model(placed, first["files"])
        if bad:
            return {"what": bad[1], "file": bad[0], "runs": [list(runs[-1])]}
        return None
    finally:
        shutil.rmtree(root, ignore_errors=True)


def shrink_tree(placed, others, gitignore, failure):
    """a smaller tree with the same kind of failure: the file the failure names, its directory and the directories above
    it first, then file by file (only ever run after a failure)"""
    rel = failure.get("file")
    runs = [tuple(r) for r in failure["runs"]]
    if len(runs) == 1:
        runs = runs * 1
    if not rel or rel not in placed:
        return placed, others, gitignore, failure
    d = os.path.dirname(rel)
    above = lambda r: os.path.dirname(r) == d or d.startswith(os.path.dirname(r) + os.sep) or os.path.dirname(r) == ""   # noqa: E731
    best = (placed, others, gitignore, failure)
    for cand in ({r: v for r, v in placed.items() if os.path.dirname(r) == d}, {r: v for r, v in placed.items() if above(r)}):
        f = run_tree(cand, {}, None, runs)
        if f:
            best = (cand, {}, None, f)
            break
    cur = dict(best[0])
    if len(cur) <= 40:
        for r in sorted(cur, key=lambda r: -len(cur[r][1])):
            if r == rel or len(cur) <= 1:
                continue
            trial = {k: v for k, v in cur.items() if k != r}
            f = run_tree(trial, {} if best[1] == {} else others, best[2], runs)
            if f and f.get("file") in trial:
                cur = trial
                best = (cur, best[1], best[2], f)
            if len(cur) <= 3:
                break
    return best


def scan_tree_twice(ctx, fs):
    """scans of the same tree in fresh processes under several hash seeds (no cache): the reports
    may differ only in uuid, timestamp and the order of files, and every file's entry must be the
    analysis of that file alone (= the model's result for its language and content). The tree has
    an order-sensitive exclusion list (a negated gitignore pattern) and byte-identical files of
    different languages, so that neither set-iteration order nor sharing between files goes unnoticed;
    every run but the first also walks the directories in a different (seed-determined) order
    (harness/c06_scan.py wraps os.walk in the scanning interpreter). -> None | failure payload"""
    placed, others, gitignore = tree_files(ctx, fs)
    seeds = ctx.pick([1, 5, 12, 77], list(range(1, 25)))
    runs = [(seed, 0 if k == 0 else seed) for k, seed in enumerate(seeds)]      # the first run walks in the file system's order
    f = run_tree(placed, others, gitignore, runs)
    if not f:
        return None
    small, o2, g2, f2 = shrink_tree(placed, others, gitignore, f)
    return {"input": {"stream": "tree", "files": {r: [l, b.decode("latin-1")] for r, (l, b) in small.items()},
                      "other_files": {r: b.decode("latin-1") for r, b in o2.items()}, "gitignore": g2, "runs": [list(r) for r in f2["runs"]]},
            "observed": f2["what"], "required": "reports equal up to uuid, timestamp and file order; every entry = the analysis of that file alone, language by its name"}


# ------------------------------------------------------------------ histories of scans WITH the cache (`codelimit scan` twice)

CACHE_FAMILY = {".c": ".cpp", ".cpp": ".c", ".js": ".ts", ".ts": ".js", ".h": ".hpp", ".hpp": ".h", ".cc": ".c", ".mjs": ".ts"}


def gen_cache_history(rnd, placed):
    """a small tree, scanned by the CLI (the report lands in .codelimit_cache), then changed the way files change between
    two runs - content replaced while the modification time stays / is OLDER than the cached report (restored from a
    backup or another checkout, `cp -p`, `rsync -t`, archives, `touch -d`), content unchanged but touched, renamed with
    the same bytes to the sibling language's extension - and scanned again with the cache in place."""
    small = sorted(r for r, (l, b) in placed.items() if len(b) < 2500 and r != os.path.join("gen", "drop.py"))
    pick = rnd.sample(small, min(len(small), 10))
    files = {r: [placed[r][0], placed[r][1].decode("latin-1")] for r in pick}
    steps = []
    whens = [7200, "keep", 86400 * 400, None, 7200]
    rnd.shuffle(whens)
    used = set()
    for when in whens[:rnd.choice([3, 4])]:
        cands = [(a, b) for a in pick for b in pick if a != b and a not in used and files[a][0] == files[b][0] and files[a][1] != files[b][1]]
        if not cands:
            break
        a, b = rnd.choice(cands)
        used.add(a)
        steps.append(["write", a, files[b][1]] + ([when] if when is not None else []))
    rest = [r for r in pick if r not in used]
    if rest:
        r = rnd.choice(rest)
        steps.append(["touch", r, rnd.choice([7200, 86400 * 400])]); used.add(r)
    movable = [r for r in pick if r not in used and os.path.splitext(r)[1] in CACHE_FAMILY]
    if movable:
        r = rnd.choice(movable)
        steps.append(["move", r, os.path.splitext(r)[0] + "_moved" + CACHE_FAMILY[os.path.splitext(r)[1]]])
    return {"stream": "cache-history", "files": files, "steps": steps}


def cache_history_after(case):
    cur = {r: (v[0], v[1].encode("latin-1")) for r, v in case["files"].items()}
    for st in case["steps"]:
        if st[0] == "write":
            cur[st[1]] = (cur[st[1]][0], st[2].encode("latin-1"))
        elif st[0] == "move":
            cur[st[2]] = (sel.expected_language(os.path.basename(st[2])), cur.pop(st[1])[1])
    return cur


def run_cache_history(case, hashseed=1):
    """-> list of violated clauses"""
    import time
    root = tempfile.mkdtemp(prefix="c06h_")
    bad = []
    try:
        before = {r: (v[0], v[1].encode("latin-1")) for r, v in case["files"].items()}
        write_tree(root, before, {}, None)
        d1, err = cli_scan(root, hashseed, 0)
        if err:
            return ["first scan: " + err]
        for st in case["steps"]:
            p = os.path.join(root, st[1])
            if st[0] == "write":
                old = os.stat(p).st_mtime
                with open(p, "wb") as f:
                    f.write(st[2].encode("latin-1"))
                when = st[3] if len(st) > 3 else None
                if when == "keep":
                    os.utime(p, (old, old))
                elif when is not None:
                    os.utime(p, (time.time() - when, time.time() - when))
            elif st[0] == "touch":
                os.utime(p, (time.time() - st[2], time.time() - st[2]))
            elif st[0] == "move":
                os.rename(p, os.path.join(root, st[2]))
        after = cache_history_after(case)
        d2, err = cli_scan(root, hashseed, 0, keep_cache=True)
        if err:
            return ["second scan (cache of the first in place): " + err]
        c2 = canon_report(d2)
        if sorted(c2["files"]) != sorted(after):
            bad.append("second scan (cache of the first in place): files %s, required %s" % (sorted(c2["files"])[:8], sorted(after)[:8]))
        else:
            import hashlib
            for r in sorted(after):
                if c2["files"][r].get("checksum") != hashlib.md5(after[r][1]).hexdigest():
                    bad.append("second scan (cache of the first in place): checksum of %s is not that of its bytes" % r)
            e = entry_vs_model(after, c2["files"])
            if e:
                bad.append("second scan (cache of the first in place): " + e[1])
        d3, err = cli_scan(root, hashseed + 1, 0, keep_cache=True)
        if err:
            bad.append("third scan: " + err)
        elif canon_report(d3) != c2:
            bad.append("a third scan (cache of the second in place, nothing changed) differs from the second beyond uuid/timestamp/file order")
        d4, err = cli_scan(root, hashseed, 0)
        if err:
            bad.append("scan without cache: " + err)
        elif canon_report(d4) != c2:
            c4 = canon_report(d4)
            diff = sorted(set(c4["files"]) ^ set(c2["files"])) or [k for k in sorted(c4["files"]) if c4["files"][k] != c2["files"][k]]
            bad.append("the scan with the cache in place differs from a scan of the same tree without any cache at %s" % (diff[:4] or "totals / folders"))
    finally:
        shutil.rmtree(root, ignore_errors=True)
    return bad


SIZE_LANGS = [("data.c", "C"), ("table.py", "Python"), ("bundle.js", "JavaScript")]


def sized_source(name, prefix, lengths):
    """a source file whose first `prefix` bytes are generated data (one comment block - amalgamations, embedded resources,
    licence texts) followed by functions u0, u1, ... of exactly the given lengths: the functions start at byte offset `prefix`"""
    if name.endswith(".py"):
        line = "# " + "0x3f, " * 12 + "\n"
        body = line * (prefix // len(line))
        body += "#" + "." * max(0, prefix - len(body) - 2) + "\n" if prefix - len(body) >= 2 else "\n" * (prefix - len(body))
        tail = "\n".join(sel.py_function("u%d" % i, n) for i, n in enumerate(lengths))
    else:
        line = " * " + "0x3f, " * 12 + "\n"
        inner = max(0, prefix - 6)
        body = "/*\n" + line * (inner // len(line))
        body += "." * (prefix - len(body) - 3) + "*/\n"
        head = "function u%d(a)" if name.endswith(".js") else "int u%d(int a)"
        tail = "\n".join(sel.brace_function(head % i, n) for i, n in enumerate(lengths))
    assert len(body) == prefix, (name, prefix, len(body))
    return (body + tail).encode()


def gen_size_history(rnd, k, prefix):
    name, _lang = SIZE_LANGS[k % len(SIZE_LANGS)]
    before = [rnd.choice([3, 6, 12]), rnd.choice([5, 29, 30])]
    after = list(before)
    after[rnd.randrange(2)] = rnd.choice([31, 46, 61, 75])          # the edit lies BEHIND the generated data
    return {"stream": "cache-size-history", "name": "src/" + name, "prefix_bytes": prefix, "before": before, "after": after,
            "mtime": rnd.choice([None, "keep", 7200])}


def run_size_history(case, hashseed=1):
    """`codelimit scan`, the functions behind the first `prefix_bytes` bytes rewritten, scan again with the cache in place,
    scan without cache -> violated clauses. Judged by construction (function lengths), no model run on the big file."""
    import hashlib
    import time
    root = tempfile.mkdtemp(prefix="c06s_")
    bad = []
    rel = case["name"]
    try:
        os.makedirs(os.path.join(root, "src"))
        p = os.path.join(root, rel)
        with open(os.path.join(root, "src", "small.c"), "w") as f:
            f.write("int small(int a) {\n  return a;\n}\n")

        def units(d):
            e = d["codebase"]["files"].get(rel)
            return None if e is None else [[m["unit_name"], m["value"]] for m in e["measurements"]]
        with open(p, "wb") as f:
            f.write(sized_source(rel, case["prefix_bytes"], case["before"]))
        d1, err = cli_scan(root, hashseed, 0)
        if err:
            return ["first scan: " + err]
        want1 = [["u%d" % i, n] for i, n in enumerate(case["before"])]
        if units(d1) != want1:
            bad.append("first scan: functions of %s %s, required %s" % (rel, units(d1), want1))
        old = os.stat(p).st_mtime
        data = sized_source(rel, case["prefix_bytes"], case["after"])
        with open(p, "wb") as f:
            f.write(data)
        if case.get("mtime") == "keep":
            os.utime(p, (old, old))
        elif case.get("mtime"):
            os.utime(p, (time.time() - case["mtime"], time.time() - case["mtime"]))
        d2, err = cli_scan(root, hashseed, 0, keep_cache=True)
        if err:
            return bad + ["second scan (cache of the first in place): " + err]
        want2 = [["u%d" % i, n] for i, n in enumerate(case["after"])]
        if units(d2) != want2:
            bad.append("second scan (cache of the first in place): functions of %s (%d bytes, rewritten from byte %d on) %s, required %s" % (rel, len(data), case["prefix_bytes"], units(d2), want2))
        e = d2["codebase"]["files"].get(rel) or {}
        if e.get("checksum") != hashlib.md5(data).hexdigest():
            bad.append("second scan (cache of the first in place): checksum of %s is not that of its %d bytes" % (rel, len(data)))
        d4, err = cli_scan(root, hashseed, 0)
        if err:
            bad.append("scan without cache: " + err)
        elif canon_report(d4) != canon_report(d2):
            bad.append("the scan with the cache in place differs from a scan of the same tree without any cache (functions of %s: %s / %s)" % (rel, units(d2), units(d4)))
    except Exception as e:  # noqa: BLE001
        bad.append("raised %s: %s" % (type(e).__name__, e))
    finally:
        shutil.rmtree(root, ignore_errors=True)
    return bad


def size_rungs(ctx):
    """offsets of the rewritten region = sizes of the generated data in front of it: a geometric ladder plus n-1, n, n+1, 2n
    for every integer literal of the CURRENT source tree that is not in the pinned one (block sizes, limits)"""
    from gen import srcdict
    base = ctx.pick([10 ** 3, 10 ** 5], [10 ** 2, 10 ** 3, 10 ** 4, 10 ** 5, 10 ** 6, 10 ** 7])
    novel = srcdict.novel_rungs(64, ctx.pick(4 * 2 ** 20, 32 * 2 ** 20))
    if len(novel) > ctx.pick(12, 60):
        novel = novel[-ctx.pick(12, 60):]
    return sorted(set(base + novel)), len(novel)


def cache_histories(ctx, fs):
    from concurrent.futures import ThreadPoolExecutor
    placed, _o, _g = tree_files(ctx, fs)
    rnd = ctx.rng("cache-history")
    cases = [gen_cache_history(rnd, placed) for _ in range(ctx.pick(2, 24))]
    rungs, n_novel = size_rungs(ctx)
    sized = [gen_size_history(rnd, k, n) for k, n in enumerate(rungs)]
    with ThreadPoolExecutor(max_workers=8) as ex:
        res = list(ex.map(run_cache_history, cases))
        sres = list(ex.map(run_size_history, sized))
    fails = [{"input": c, "observed": bad[:4], "required": "the result of a scan depends on the content of the tree only, not on earlier scans (cache) or modification times"}
             for c, bad in zip(cases, res) if bad]
    fails += [{"input": c, "observed": bad[:4], "required": "the result of a scan depends on the content of the tree only (the functions behind the generated data as they are now), not on earlier scans (cache), sizes or modification times"}
              for c, bad in zip(sized, sres) if bad]
    fails.sort(key=lambda f: len(json.dumps(f["input"])))
    stats = {"histories": len(cases) + len(sized), "scans": 4 * len(cases) + 3 * len(sized), "steps": {},
             "size_ladder_offsets_of_the_rewritten_region": rungs, "size_rungs_from_novel_source_integers": n_novel}
    for c in cases:
        for st in c["steps"]:
            k = st[0] + ("+old-mtime" if st[0] == "write" and len(st) > 3 else "")
            stats["steps"][k] = stats["steps"].get(k, 0) + 1
    return fails, stats


# ------------------------------------------------------------------ comment-opener neighbourhood x many hash seeds

MARK_EXTRA = ["", "/", "!", "*", "#", ";", "-", "<", "@", ":", "\t"]


def marker_files(ctx):
    """one tiny file per (language, comment on the header line): the comment is the language's comment
    opener, at most ONE further punctuation character, optional blank, the word `nocl` in some case.
    Whether such a comment is a suppression marker is decided by the model (marker_recognition); the
    real code must decide the same under EVERY hash seed (a table of openers held in a set, a dict
    keyed by opener, ... would make the answer depend on the iteration order)."""
    rnd = ctx.rng("markers")
    out = []
    for lang in sr.LANGS:
        comments = []
        for x in MARK_EXTRA:
            for sp in ("", " "):
                w = rnd.choice(["nocl", "NOCL", "NoCl", "nocl: generated"])
                if lang == "Python":
                    comments.append("#" + x + sp + w)
                else:
                    comments.append("//" + x + sp + w)
                    comments.append("/*" + x + sp + w + " */")
        for c in comments:
            if lang == "Python":
                code = "def keep(a):\n    return a\n\n\ndef f(a):  %s\n    a = a + 1\n    return a\n" % c
            elif lang in ("Java", "C#"):
                code = "class K {\n  int keep(int a) {\n    return a;\n  }\n  int f(int a) {  %s\n    a = a + 1;\n    return a;\n  }\n}\n" % c
            elif lang in ("JavaScript", "TypeScript"):
                code = "function keep(a) {\n  return a;\n}\nfunction f(a) {  %s\n  a = a + 1;\n  return a;\n}\n" % c
            else:
                code = "int keep(int a) {\n  return a;\n}\nint f(int a) {  %s\n  a = a + 1;\n  return a;\n}\n" % c
            out.append((lang, code))
    return out


# ------------------------------------------------------------------ bracket groups in function headers x many hash seeds

HDR_OPEN = {"[": "]", "(": ")", "<": ">", "{": "}"}


def header_groups():
    """bracket groups as headers carry them (type parameter lists, generics, subscripts, attributes, array declarators):
    every outer bracket kind x (no inner group | every inner kind): `[T]`, `[T: (int, str)]`, `<T, K<int, str>>`, `(T: [int, str])`, ..."""
    out = []
    for o in "[(<{":
        out.append(o + "T" + HDR_OPEN[o])
        for i in "[(<{":
            out.append(o + "T: " + i + "int, str" + HDR_OPEN[i] + HDR_OPEN[o])
    return out


def header_shape_file(lang, group, place, multiline):
    """a tiny file with one function `f` whose header carries `group` BEFORE the name, between the name and the parameter
    list (PEP 695 / generics position), inside a parameter's annotation or behind the parameter list, the signature on one
    line or continued over several lines; a plain function in front. Legal or not in the language: the measurements of ANY
    content must not depend on the hash seed."""
    pre = group if place == "pre" else ""
    par = group if place == "param" else ""
    post = group if place == "post" else ""
    front = group + " " if place == "front" else ""
    nl, ind = ("\n        ", "\n") if multiline else (" ", "")
    if lang == "Python":
        sig = "def %sf%s(a: int%s,%sb: str%s)%s:" % (front and "", pre, par, nl, ind, (" -> int" + post) if post else "")
        return ("@d%s\n" % group if front else "") + "def keep(a):\n    return a\n\n\n" + sig + "\n    a = a + 1\n    b = b + a\n    return a\n"
    if lang in ("JavaScript", "TypeScript"):
        sig = "function %sf%s(a%s,%sb%s)%s {" % (front and "", pre, (": T" + par) if par and lang == "TypeScript" else (" = " + par if par else ""), nl, ind, (": T" + post) if post else "")
        return "function keep(a) {\n  return a;\n}\n" + (front + "\n" if front else "") + sig + "\n  a = a + 1;\n  b = b + a;\n  return a;\n}\n"
    sig = "%sint%s f%s(int a%s,%sint b%s)%s {" % (front, "", pre, par, nl, ind, (" " + post) if post else "")
    body = "\n    a = a + 1;\n    b = b + a;\n    return a;\n  }\n"
    if lang in ("Java", "C#"):
        return "class K {\n  int keep(int a) {\n    return a;\n  }\n  " + sig + body + "}\n"
    return "int keep(int a) {\n  return a;\n}\n" + sig + body.replace("\n  }", "\n}")


def header_shape_files(ctx):
    """per language: every bracket group x the generics position, one line and continued; a drawn share of the other
    positions (all of them in the thorough tier)"""
    rnd = ctx.rng("header-shapes")
    out, seen = [], set()
    for lang in sr.LANGS:
        for g in header_groups():
            for place in ("pre", "param", "post", "front"):
                for ml in (False, True):
                    if place != "pre" and not ctx.thorough and rnd.random() >= 0.2:
                        continue
                    code = header_shape_file(lang, g, place, ml)
                    if (lang, code) not in seen:
                        seen.add((lang, code)); out.append((lang, code))
    return out


# ------------------------------------------------------------------ name collisions: a file analysed right after files that
# DECLARE its function names in every other form (function-like / object-like macro, typedef, function or class of another
# language, variable) - whatever the process keeps per identifier (macro tables, symbol caches, "seen" sets) shows

IDENT = __import__("re").compile(r"^[A-Za-z_][A-Za-z0-9_]*$")


def collision_predecessors(names, k):
    """(language, code) of predecessor k for the function names `names`: the names are declared, not used as headers the
    way the follower uses them; every predecessor is a legal file whose own result is compared with the model's too"""
    form = k % 4
    if form == 0:       # a C header with function-like macros
        return ("C", "#ifndef COLLIDE_H\n#define COLLIDE_H\n" + "".join("#define %s(a, b) ((a) + (b))\n" % n for n in names) + "#endif\n")
    if form == 1:       # a C++ header: block-like macros, object-like macros, typedefs
        return ("C++", "#pragma once\n" + "".join("#define %s(it) for (int it = 0; it < 3; it++)\n#define %s_MAX 3\n" % (n, n) for n in names)
                + "".join("typedef int %s_t;\n" % n for n in names))
    if form == 2:       # Python: the names as functions, classes and variables
        return ("Python", "".join("%s = None\n\n\ndef %s(a, b):\n    return a\n\n\n" % (n, n) for n in names))
    return ("JavaScript", "".join("function %s(a) {\n  return a;\n}\nconst %s_ = %s;\n" % (n, n, n) for n in names))


def collision_files(ctx, fs, model):
    """for a sample of files with at least one function: predecessors declaring these function names -> (extra files,
    order: predecessor(s) directly in front of their follower), indices relative to len(fs)"""
    rnd = ctx.rng("collisions")
    cands = []
    for i, m in enumerate(model):
        dm = sr.decode_scan(m) if m.startswith("ok") else None
        names = sorted({u[0] for u in (dm[0] if dm else [])} if dm else [])
        names = [n for n in names if IDENT.match(n)][:6]
        if names and len(fs[i][1]) < 6000:
            cands.append((i, names))
    by_lang = {}
    for i, names in cands:
        by_lang.setdefault(fs[i][0], []).append((i, names))
    picked = []
    per = ctx.pick(3, 20)
    for lang in sorted(by_lang):
        picked += rnd.sample(by_lang[lang], min(per, len(by_lang[lang])))
    extra, order = [], []
    for k, (i, names) in enumerate(picked):
        for form in ({k % 4, 0} if k % 3 else {k % 4}):
            extra.append(collision_predecessors(names, form))
            order.append(len(fs) + len(extra) - 1)
        order.append(i)
    return extra, order, len(picked)


def marker_seeds(ctx):
    """the hash-seed ladder for the (cheap) marker files: 0..15 (0..63) plus a few from the whole range"""
    rnd = ctx.rng("marker-seeds")
    return list(range(ctx.pick(16, 64))) + [rnd.randrange(2 ** 32) for _ in range(ctx.pick(4, 16))]


# ------------------------------------------------------------------ check with several arguments, every order

DIRS = ["app", "lib", "svc", "tools", "core"]
SUBS = ["legacy", "gen", "v1"]
FILE_STEMS = ["main", "util", "api", "old", "schema_gen", "build_gen"]
FILE_EXT = [".py", ".js", ".c", ".ts", ".java"]
LANG_OF_EXT = {".py": "Python", ".js": "JavaScript", ".c": "C", ".ts": "TypeScript", ".java": "Java"}


def gen_order_case(rnd):
    """a tree of 3-4 top-level directories (files with functions of 5..75 lines, names shared between the
    directories; sub-directories), EVERY directory possibly with a `.gitignore` of its own (bare names,
    `*suffix`, `sub/`, negations, anchored `/name` - all drawn from names that occur elsewhere in the tree),
    and possibly a root `.gitignore`. Only the root one counts (C11); the nested ones are legal content."""
    dirs = rnd.sample(DIRS, rnd.choice([3, 3, 4]))
    files = {}        # rel path -> bytes

    pool = [fn for fn, lang in sel.name_pools()["lang"] if lang in LANG_OF_EXT.values()]

    def fill(pre, n):
        for _ in range(n):
            ext = rnd.choice(FILE_EXT)
            name = rnd.choice(FILE_STEMS) + ext
            r = rnd.random()
            if r < 0.25:
                # language by a Pygments extension / WHOLE-name pattern outside the classic pool (x.mjs, x.pyi, x.h, BUILD, SConscript)
                name = sel.pool_stem(rnd, rnd.choice(pool))
                name = rnd.choice(FILE_STEMS) + name[name.index("."):] if "." in name and name.split(".")[0] in sel.STEMS else name
            lengths = [rnd.choice([5, 31, 40, 61, 75]) for _ in range(rnd.choice([1, 1, 2]))]
            files["/".join(pre + [name])] = sel.source_for(ext if r >= 0.25 else name, lengths)
            if r < 0.25 or rnd.random() < 0.1:
                # a name with the same suffix that is NO source file, next to it
                sib = sel.name_pools()["siblings"].get(name) or (["AUTHORS", "LICENSE", "Makefile", "NOTICE"] if "." not in name else [])
                if sib:
                    files["/".join(pre + [rnd.choice(sib)])] = b"def not_code(a):\n" + b"".join(b"    a = a + %d\n" % i for i in range(70))
    for d in dirs:
        fill([d], rnd.choice([1, 2, 3]))
        for s in rnd.sample(SUBS, rnd.choice([0, 1, 1, 2])):
            fill([d, s], rnd.choice([1, 2]))
    names = sorted({c for p in files for c in p.split("/")})
    stems = sorted({"*" + n[i:] for n in names for i in range(len(n)) if n[i] in "._" and "." in n})

    def lines(k):
        out = []
        for _ in range(k):
            r = rnd.random()
            if r < 0.35:
                out.append(rnd.choice(stems or ["*.py"]))
            elif r < 0.6:
                out.append(rnd.choice([n for n in names if "." in n] or ["main.py"]))
            elif r < 0.8:
                out.append(rnd.choice(SUBS) + "/")
            elif r < 0.9:
                out.append("!" + rnd.choice(names))
            else:
                out.append("/" + rnd.choice(names))
        return out
    ignores = {}
    for d in dirs:
        if rnd.random() < 0.7:
            ignores[d] = lines(rnd.choice([1, 2, 3]))
        for p in files:
            c = p.split("/")
            if len(c) == 3 and c[0] == d and rnd.random() < 0.2:
                ignores[d + "/" + c[1]] = lines(1)
    root_ignore = [rnd.choice([n for n in names if "." in n] or ["main.py"])] if rnd.random() < 0.3 else []
    # argument lists: every order of the directories (all 6 for three, a sample for four), every directory alone,
    # the root, and lists mixing a file argument with directories that do not contain it
    import itertools
    perms = [list(p) for p in itertools.permutations(dirs)]
    if len(perms) > 8:
        perms = rnd.sample(perms, 8)
    runs = perms + [list(p) for p in itertools.permutations(dirs, 2)][:6] + [[d] for d in dirs] + [["."]]
    for _ in range(2):
        f = rnd.choice(sorted(files))
        rest = [d for d in dirs if d != f.split("/")[0]]
        mix = rest + [f]
        rnd.shuffle(mix)
        runs.append(mix)
    runs.append(list(runs[0]))          # the first call once more at the end (same process, same arguments)
    return {"stream": "check-orders", "files": {p: b.decode("latin-1") for p, b in files.items()}, "gitignores": ignores,
            "root_gitignore": root_ignore, "runs": runs}


def order_expected(case, model_ms):
    """per argument list: the files `check` must analyse and the lines it must print - from the property
    text (a file's result depends on its language and content only; root exclusions as in C11) and the
    MODEL's measurements of every file alone"""
    out = []
    for args in case["runs"]:
        read, listed = [], {}
        for a in args:
            for p in sorted(case["files"]):
                comps = p.split("/")
                under = (a == "." or p == a or p.startswith(a + "/"))
                if not under or sel.spec_excluded(comps, case["root_gitignore"]) or model_ms.get(p) is None:
                    continue            # outside the argument, excluded at the root, or no source file of a supported language
                read.append(p)
                risks = sorted([m for m in model_ms[p] if m[5] > 30], key=lambda m: -m[5])
                listed[p] = [[p, m[1], m[2], m[5], m[0]] for m in risks]
        code = 1 if any(l[3] > 60 for ls in listed.values() for l in ls) else 0
        out.append({"read": sorted(read), "listed": listed, "code": code})
    return out


def run_check_worker(root, runs, hashseed):
    env = dict(os.environ, PYTHONHASHSEED=str(hashseed), COLUMNS="300")
    p = subprocess.run([sys.executable, os.path.join(common.VERIF, "harness", "c06_worker.py"), "check"],
                       input=json.dumps({"root": root, "runs": runs}), capture_output=True, text=True, env=env, timeout=600)
    if p.returncode != 0:
        return None, p.stderr[-500:]
    return json.loads(p.stdout)["results"], None


def materialize_order_case(case):
    root = os.path.realpath(tempfile.mkdtemp(prefix="c06o_"))
    for p, text in case["files"].items():
        os.makedirs(os.path.join(root, os.path.dirname(p)), exist_ok=True)
        with open(os.path.join(root, p), "wb") as f:
            f.write(text.encode("latin-1"))
    for d, ls in case["gitignores"].items():
        with open(os.path.join(root, d, ".gitignore"), "w") as f:
            f.write("\n".join(ls) + "\n")
    if case["root_gitignore"]:
        with open(os.path.join(root, ".gitignore"), "w") as f:
            f.write("\n".join(case["root_gitignore"]) + "\n")
    return root


def judge_order_case(case, hashseed, only_run=None):
    """-> (failures, number of calls judged)"""
    paths = sorted(p for p in case["files"] if sel.expected_language(os.path.basename(p)) is not None)
    reqs = [sr.scan_request(sel.expected_language(os.path.basename(p)), case["files"][p].encode("latin-1").decode("utf-8")) for p in paths]
    model_ms = {p: (sr.decode_scan(m) or ([], 0))[0] for p, m in zip(paths, sr.model_scan_many(reqs, shards=1))}
    c = case if only_run is None else dict(case, runs=[only_run])
    exp = order_expected(c, model_ms)
    root = materialize_order_case(case)
    try:
        res, err = run_check_worker(root, c["runs"], hashseed)
    finally:
        shutil.rmtree(root, ignore_errors=True)
    small = {k: case[k] for k in ("stream", "files", "gitignores", "root_gitignore")}
    if res is None:
        return [{"input": dict(small, hashseed=hashseed, args=None), "observed": err, "required": "check completes"}], 0
    fails = []
    for k, (args, r, e) in enumerate(zip(c["runs"], res, exp)):
        bad = []
        if r["error"]:
            bad.append("check raised " + r["error"])
        if sorted(r["read"]) != e["read"]:
            bad.append("files analysed: missing %s, unexpected %s" % (sorted(set(e["read"]) - set(r["read"]))[:4], sorted(set(r["read"]) - set(e["read"]))[:4]))
        got = {}
        for l in r["listed"]:
            got.setdefault(l[0], []).append(list(l))
        for p in sorted(set(got) | set(e["listed"])):
            if got.get(p, []) != e["listed"].get(p, []):
                bad.append("listed for %s: %s, required (the analysis of that file alone) %s" % (p, [x[1:] for x in got.get(p, [])][:3], [x[1:] for x in e["listed"].get(p, [])][:3]))
        if not r["error"] and r["files_checked"] != len(e["read"]):
            bad.append("%s files checked, required %d" % (r["files_checked"], len(e["read"])))
        if not r["error"] and r["code"] != e["code"]:
            bad.append("exit code %s, required %d" % (r["code"], e["code"]))
        if bad:
            fails.append({"input": dict(small, hashseed=hashseed, args=args, earlier_calls_in_this_process=c["runs"][:k][-3:]),
                          "observed": {"read": r["read"][:12], "listed": r["listed"][:6], "files_checked": r["files_checked"], "code": r["code"]},
                          "required": bad[:6]})
    return fails, len(res)


def check_orders(ctx):
    rnd = ctx.rng("check-orders")
    cases = [gen_order_case(rnd) for _ in range(ctx.pick(8, 80))]
    seeds = ctx.pick([0, 3], [0, 1, 3, 7])
    jobs = [(c, s) for i, c in enumerate(cases) for s in (seeds if ctx.thorough else [seeds[i % len(seeds)]])]
    from concurrent.futures import ThreadPoolExecutor
    with ThreadPoolExecutor(max_workers=12) as ex:
        res = list(ex.map(lambda j: judge_order_case(*j), jobs))
    fails = [f for fs_, _ in res for f in fs_]
    fails.sort(key=lambda f: len(json.dumps(f["input"])))
    stats = {"trees": len(cases), "interpreters": len(jobs), "check_calls": sum(n for _, n in res),
             "nested_gitignores": sum(len(c["gitignores"]) for c in cases), "root_gitignores": sum(1 for c in cases if c["root_gitignore"]),
             "files_named_from_pygments_pool": sum(1 for c in cases for p in c["files"] if sel.expected_language(os.path.basename(p)) and os.path.splitext(p)[1] not in LANG_OF_EXT),
             "same_suffix_non_source_files": sum(1 for c in cases for p in c["files"] if sel.expected_language(os.path.basename(p)) is None)}
    return fails, stats


def correspond(ctx):
    from concurrent.futures import ThreadPoolExecutor
    fs = files(ctx)
    model = sr.model_scan_many([sr.scan_request(l, c) for (l, c) in fs])
    ref = dict(zip(range(len(fs)), model))
    rnd = ctx.rng("orders")
    seeds = ctx.pick([0, 1, 2, 4242], list(range(0, 30)) + [12345, 999983])
    orders = [list(range(len(fs))), list(reversed(range(len(fs))))]
    for _ in range(ctx.pick(1, 8)):
        o = list(range(len(fs))); rnd.shuffle(o); orders.append(o)
    jobs = [(s, o) for s in seeds for o in (orders if ctx.thorough else orders[: 3])]
    if not ctx.thorough:
        jobs = [(s, orders[i % len(orders)]) for i, s in enumerate(seeds)] + [(seeds[0], orders[1]), (seeds[1], orders[2])]
    else:
        jobs = [(s, orders[i % len(orders)]) for i, s in enumerate(seeds)] + [(7, o) for o in orders]

    # the marker files (tiny) go through MANY hash seeds: appended to `fs`, analysed in their own interpreters
    n_main = len(fs)
    mk = [(l, c) for (l, c) in marker_files(ctx)]
    n_marker_only = len(mk)
    mk += header_shape_files(ctx)       # (round 7) tiny too: through the same ladder of hash seeds
    mk_model = sr.model_scan_many([sr.scan_request(l, c) for (l, c) in mk])
    for i, m in enumerate(mk_model):
        ref[n_main + i] = m
    fs = fs + mk
    mk_order = list(range(n_main, len(fs)))
    mseeds = marker_seeds(ctx)
    mjobs = [(s, mk_order if k % 2 == 0 else list(reversed(mk_order))) for k, s in enumerate(mseeds)]

    # name collisions: predecessors that declare the follower's function names, directly in front of it, one interpreter per hash seed
    cextra, corder, n_coll = collision_files(ctx, fs[:n_main], model)
    base = len(fs)
    for i, m in enumerate(sr.model_scan_many([sr.scan_request(l, c) for (l, c) in cextra], shards=1 if len(cextra) < 20 else 16)):
        ref[base + i] = m
    corder = [j if j < n_main else base + (j - n_main) for j in corder]
    fs = fs + cextra
    cjobs = [(s, corder) for s in ctx.pick([0, 4242], [0, 1, 2, 3, 4242])] if corder else []

    def one(job):
        s, o = job
        res, err = run_worker([fs[i] for i in o], s)
        return (s, o, res, err)
    with ThreadPoolExecutor(max_workers=16) as ex:
        results = list(ex.map(one, jobs + mjobs + cjobs))
    dis, fails = [], []
    evals = 0
    nontrivial = set()
    for (s, o, res, err) in results:
        if res is None:
            fails.append({"input": {"hashseed": s, "order": o[:10]}, "observed": err, "required": "worker completes"}); continue
        for pos, (i, r) in enumerate(zip(o, res)):
            evals += 1
            lang, code = fs[i]
            if r != ref[i]:
                inp = {"language": lang, "code": code, "hashseed": s, "position_in_order": pos,
                       "predecessors": [fs[j] for j in o[max(0, pos - 3):pos]]}
                dis.append({"stream": "scan/%s" % lang, "input": inp, "model": ref[i][:200], "impl": r[:200]})
                fails.append({"input": inp, "observed": r[:200], "required": "the result of analysing this file alone: " + ref[i][:200]})
            if not r.startswith("ok 0 ") and r.startswith("ok"):
                nontrivial.add((i, s))
    # the property itself, without the model: one file, one content -> one result, whatever the hash seed / order / process
    by_file = {}
    for (s, o, res, err) in results:
        for i, r in zip(o, res or []):
            by_file.setdefault(i, {}).setdefault(r, []).append(s)
    n_seed_groups = sum(1 for v in by_file.values() if sum(len(x) for x in v.values()) > 1)
    for i, v in sorted(by_file.items()):
        if len(v) > 1:
            (ra, sa), (rb, sb) = sorted(v.items(), key=lambda kv: (-len(kv[1]), kv[0]))[:2]
            fails.append({"input": {"language": fs[i][0], "code": fs[i][1], "hashseed": sb[0], "position_in_order": 0, "predecessors": [],
                                    "other_hashseeds": sa[:4]},
                          "observed": "PYTHONHASHSEED in %s: %s" % (sb[:6], rb[:200]),
                          "required": "the same result under every hash seed; PYTHONHASHSEED in %s: %s" % (sa[:6], ra[:200])})
    t = scan_tree_twice(ctx, fs)
    if t:
        fails.append(t)
    # the smallest failing files first (the marker files are 7-9 lines)
    fails.sort(key=lambda f: len(json.dumps(f["input"], default=str)))
    ofails, ostats = check_orders(ctx)
    fails = ofails[:10] + fails
    evals += ostats["check_calls"]
    hfails, hstats = cache_histories(ctx, fs[:n_main])
    fails = hfails[:3] + fails
    evals += hstats["scans"]
    return {
        "evaluations": evals + 2, "distinct_nontrivial": len(nontrivial),
        "rule": "%d files (canonical, malformed incl. ones that abort matching midway, corpus) analysed in %d fresh interpreters: PYTHONHASHSEED in %s x file orders (identity, reversed, random permutations); every per-file result compared with the model's single result; plus two subprocess scans of one tree under different hash seeds; non-trivial = distinct (file, hash seed) pairs with at least one function; PLUS %d marker files (per language: comment opener + at most one further punctuation character + `nocl`, on a header line) in %d further interpreters (hash seeds 0..%d and %d drawn from 0..2^32-1) against the model; PLUS check-orders: %d trees with nested .gitignore files, the real check_command called in %d fresh interpreters with the top-level directories as arguments in every order (pairs, single directories, the root, file + directory lists, the first list again at the end of the same process): %d calls, each judged against the model's analysis of every file alone" % (n_main, len(jobs), seeds if len(seeds) < 8 else "0..29,12345,999983", len(mk), len(mjobs), ctx.pick(16, 64) - 1, ctx.pick(4, 16), ostats["trees"], ostats["interpreters"], ostats["check_calls"]) + "; round 7: the marker files include %d HEADER-SHAPE files: per language one function whose header carries a bracket group - every outer kind [ ( < { x (none | every inner kind): `[T]`, `[T: (int, str)]`, `<T: [int, str]>`, ... - between the name and the parameter list (type parameters / generics; all), inside a parameter, behind the parameter list or in front of the header (a share; all in the thorough tier), the signature on one line and continued over several; and every file seen by more than one interpreter (%d) is ALSO judged without the model: the same result under every hash seed" % (len(mk) - n_marker_only, n_seed_groups) + "; the tree of the two-scans stream names half of its generated files by ANY extension / whole file name Pygments maps to the language (x.h, x.idc, x.hh, x.hpp, x.cc, x.mjs, x.pyi, BUILD.bazel, ...) and holds byte-identical headers under every contested name (x.h, x.hh, x.cp, x.H, x.hpp) above, beside and below C and C++ sources; PLUS cache-history: %d histories `codelimit scan` -> files rewritten with a kept / back-dated modification time (2 h, 400 days), touched, renamed with the same bytes to the sibling language -> scan with the cache in place -> again -> scan without cache: every entry = checksum of the bytes + the model's analysis of the file as it is now, all three later reports equal up to uuid/timestamp/order (%d scans); of these, size-ladder histories: a file whose functions lie behind N bytes of generated data (one comment block; C / Python / JavaScript) is scanned, the functions rewritten (one grows past 30 / 60 lines; mtime kept / back-dated / new), scanned with the cache in place and without, for N in %s (geometric ladder + %d rungs n-1, n, n+1, 2n from integer literals new in the source tree), judged by construction: function lengths as they are now, checksum of the bytes, equal to the scan without cache; PLUS name collisions: %d files, each analysed directly after predecessors that declare its function names in other forms (C header with function-like macros, C++ header with block-like / object-like macros and typedefs, Python functions / variables, JavaScript functions), in %d further interpreters, every result against the model's" % (hstats["histories"], hstats["scans"], hstats["size_ladder_offsets_of_the_rewritten_region"], hstats["size_rungs_from_novel_source_integers"], n_coll, len(cjobs)),
        "samples": [{"hashseed": s, "order": o[:8], "first_result": (res or [""])[0][:60]} for (s, o, res, e) in results[:3]],
        "exhaustive": False, "distribution": {"files": n_main, "interpreters": len(jobs), "hash_seeds": len(seeds), "orders": len(orders),
                                              "marker_files": n_marker_only, "header_shape_files": len(mk) - n_marker_only, "files_compared_across_hash_seeds": n_seed_groups, "marker_hash_seeds": len(mseeds), "name_collision_followers": n_coll, "name_collision_predecessor_files": len(cextra), "check_orders": ostats, "cache_history": hstats},
        "disagreements": dis[:30], "oracle_failures": fails[:30],
    }


def search(ctx, hints):
    r = correspond(ctx)
    return r["oracle_failures"][:6]


def replay(payload):
    inp = payload["input"]
    if inp.get("stream") == "check-orders" and inp.get("args"):
        case = dict({k: inp[k] for k in ("stream", "files", "gitignores", "root_gitignore")}, runs=[])
        fails, _ = judge_order_case(case, inp["hashseed"], only_run=inp["args"])
        print("check %s (PYTHONHASHSEED=%s; nested .gitignore files: %s)" % (" ".join(inp["args"]), inp["hashseed"], inp["gitignores"]))
        for f in fails:
            print("observed: %s\nviolated: %s" % (f["observed"], f["required"]))
        return not fails
    if inp.get("stream") == "cache-size-history":
        bad = run_size_history(inp)
        print("codelimit scan, then %s rewritten from byte %d on (functions %s -> %s, mtime: %s), then codelimit scan again (cache in place)" % (
            inp["name"], inp["prefix_bytes"], inp["before"], inp["after"], inp.get("mtime")))
        print("violated: %s" % (bad or "nothing"))
        return not bad
    if inp.get("stream") == "cache-history":
        bad = run_cache_history(inp)
        print("codelimit scan, then %s, then codelimit scan again (cache in place)" % [st[:2] + st[3:] if st[0] == "write" else st for st in inp["steps"]])
        print("violated: %s" % (bad or "nothing"))
        return not bad
    if inp.get("stream") == "tree" and inp.get("files"):
        placed = {r: (v[0], v[1].encode("latin-1")) for r, v in inp["files"].items()}
        f = run_tree(placed, {r: b.encode("latin-1") for r, b in (inp.get("other_files") or {}).items()}, inp.get("gitignore"), [tuple(r) for r in inp["runs"]])
        print("codelimit scan on a tree of %d files %s, runs (PYTHONHASHSEED, walk-order seed; 0 = file system order): %s" % (len(placed), sorted(placed)[:12], inp["runs"]))
        print("violated: %s" % (f["what"] if f else "nothing"))
        return f is None
    if inp.get("stream") == "tree" or "language" not in inp:
        print("tree/worker level failure: re-run the check"); return False
    cases = [tuple(x) for x in inp.get("predecessors", [])] + [(inp["language"], inp["code"])]
    alone, _ = run_worker([(inp["language"], inp["code"])], 0)
    res, err = run_worker(cases, inp["hashseed"])
    print("alone (seed 0): %s\nafter predecessors (seed %s): %s" % (alone and alone[0][:120], inp["hashseed"], res and res[-1][:120]))
    return res is not None and alone is not None and res[-1] == alone[0]
