"""C06 - analysis is deterministic, order-independent and isolated per file.

Theorems (Props/C06.lean): the engine's results do not depend on the set-iteration order nor on
the value of the global state-id counter (also for the stateful token predicates, up to
get_headers), and the model is a pure function of (language, content), so nothing analysed
before can matter. The runtime counterpart - real hash randomisation, the process-wide
State._id counter and compiled-pattern state surviving between files - is tied by running the
real analysis in fresh interpreters under different PYTHONHASHSEEDs, on permuted file orders
with malformed files interleaved, and comparing every per-file result with the model's; by
scanning the same tree twice; by a ladder of hash seeds (16+4 / 64+16) over tiny files whose header
line carries every comment-opener neighbourhood of `nocl` (marker_files); and by calling the real
`check_command` with several directory arguments in EVERY order on trees with nested .gitignore
files (check_orders: fresh interpreters, all calls of a tree in one process, first call repeated
at the end), each call judged against the model's analysis of every file alone."""
import json
import os
import shutil
import subprocess
import sys
import tempfile

sys.path.insert(0, os.path.dirname(os.path.dirname(os.path.abspath(__file__))))
import common
import scan_real as sr
import scan_streams
import select_real as sel
from props import C15

ID = "C06"
TRUSTED = [
    "correspondence harness (harness/props/C06.py, c06_worker.py)",
    "translator/patterns.py (shipped header patterns -> Gen/Languages.lean)",
    "modelled, not verified (partial): real hash randomisation and process state are represented in the theorems as arbitrary iteration orders / id bases; the link is this run (fresh interpreters x hash seeds x file orders)",
]
ASSUMPTIONS = ["Python set iteration yields every element exactly once in some order (IsOrder)"]
regen = C15.regen


def files(ctx):
    n = ctx.pick(4, 30)
    out = [(l, t) for (l, t, _) in scan_streams.canonical(ctx, n, "c06")]
    out += scan_streams.soups(ctx, ctx.pick(30, 300), "c06soup")
    out += [("JavaScript", "const f = (cb = () => 0) => {\n}\n"), ("Python", "def f("), ("Java", "class A { void f() throws X, Y { new B() { void g() { } }; } }\n")]
    cor = [(l, t) for (l, t) in scan_streams.corpus_cases() if len(t) < 15000]
    out += cor[:: max(1, len(cor) // ctx.pick(10, 60))]
    return [(l, t) for (l, t) in out if "\r" not in t]


def run_worker(cases, hashseed):
    env = dict(os.environ, PYTHONHASHSEED=str(hashseed))
    p = subprocess.run([sys.executable, os.path.join(common.VERIF, "harness", "c06_worker.py")], input=json.dumps(cases),
                       capture_output=True, text=True, env=env, timeout=900)
    if p.returncode != 0:
        return None, p.stderr[-500:]
    return json.loads(p.stdout)["results"], None


def scan_tree_twice(ctx, fs):
    """scans of the same tree in fresh processes under several hash seeds (no cache): the reports
    may differ only in uuid, timestamp and the order of files, and every file's entry must be the
    analysis of that file alone (= the model's result for its language and content). The tree has
    an order-sensitive exclusion list (a negated gitignore pattern) and byte-identical files of
    different languages, so that neither set-iteration order nor sharing between files goes unnoticed;
    every run but the first also walks the directories in a different (seed-determined) order
    (harness/c06_scan.py wraps os.walk in the scanning interpreter)."""
    root = tempfile.mkdtemp(prefix="c06_")
    try:
        placed = {}
        for i, (lang, code) in enumerate(fs[:25]):
            rel = os.path.join("d%d" % (i % 3), "f%02d.%s" % (i, sr.EXT[lang]))
            placed[rel] = (lang, code)
        twin = "int sum(int n) {\n  int s = 0;\n  list_for_each(p) {\n    s += 1;\n  }\n  return s;\n}\n"
        placed[os.path.join("twins", "sum.c")] = ("C", twin)
        placed[os.path.join("twins", "sum.cpp")] = ("C++", twin)
        js = "function f(a) {\n  return a;\n}\n"
        placed[os.path.join("twins", "same.js")] = ("JavaScript", js)
        placed[os.path.join("twins", "same.ts")] = ("TypeScript", js)
        placed[os.path.join("gen", "keep.py")] = ("Python", "def keep():\n    return 1\n")
        placed[os.path.join("gen", "drop.py")] = ("Python", "def drop():\n    return 2\n")
        # files whose language follows from the FULL name (no extension) next to extension-less files
        # that are no source files, and a file that is not valid UTF-8 next to a UTF-8 file with
        # non-ASCII identifiers: a per-extension lexer cache or a sticky decoding fallback (seeded
        # changes C06-3, C06-4) makes the result depend on which of them is visited first
        build = "def rule(name):\n    x = name\n    return x\n"
        placed[os.path.join("tools", "BUILD")] = ("Python", build)
        placed[os.path.join("tools", "SConstruct")] = ("Python", build)
        placed[os.path.join("enc", "unicode.py")] = ("Python", "def gr\u00f6\u00dfe(werte):\n    s = '\u00e9\u00e8'\n    return werte\n")
        raw = {os.path.join("enc", "legacy.py"): b"# caf\xe9 \xff\ndef alt(a):\n    return a\n",
               os.path.join("enc2", "legacy2.c"): b"int alt2(int a) {\n  return a; /* \xe9\xff */\n}\n"}
        placed[os.path.join("enc", "legacy.py")] = ("Python", raw[os.path.join("enc", "legacy.py")].decode("latin-1"))
        placed[os.path.join("enc2", "legacy2.c")] = ("C", raw[os.path.join("enc2", "legacy2.c")].decode("latin-1"))
        placed[os.path.join("enc2", "unicode2.c")] = ("C", "int \u00fcber(int a) {\n  return a;\n}\n")
        others = {os.path.join("tools", "LICENSE"): "Permission is hereby granted (free)\n", os.path.join("tools", "Makefile"): "all:\n\techo def f\n",
                  os.path.join("tools", "README"): "def not_code(): pass\n", "LICENSE": "text\n"}
        for rel, (lang, code) in placed.items():
            os.makedirs(os.path.join(root, os.path.dirname(rel)), exist_ok=True)
            with open(os.path.join(root, rel), "wb") as f:
                f.write(raw[rel] if rel in raw else code.encode("utf-8"))
        for rel, text in others.items():
            os.makedirs(os.path.join(root, os.path.dirname(rel)) if os.path.dirname(rel) else root, exist_ok=True)
            with open(os.path.join(root, rel), "w") as f:
                f.write(text)
        with open(os.path.join(root, ".gitignore"), "w") as f:
            f.write("gen/*\n!gen/keep.py\n*.tmp\n")
        expected_files = sorted(r for r in placed if r != os.path.join("gen", "drop.py"))
        docs = []
        seeds = ctx.pick([1, 5, 12, 77], list(range(1, 25)))
        for k, seed in enumerate(seeds):
            shutil.rmtree(os.path.join(root, ".codelimit_cache"), ignore_errors=True)
            # the first run walks in the file system's order, the others in seed-determined orders
            env = dict(os.environ, PYTHONHASHSEED=str(seed), PYTHONPATH=common.REPO, COLUMNS="200", C06_WALK_SEED=str(0 if k == 0 else seed))
            p = subprocess.run([sys.executable, os.path.join(common.VERIF, "harness", "c06_scan.py"), "scan", root], capture_output=True, text=True, env=env, timeout=300, cwd=root)
            if p.returncode != 0:
                return "scan exited with %s: %s" % (p.returncode, (p.stdout + p.stderr)[-300:])
            d = json.load(open(os.path.join(root, ".codelimit_cache", "codelimit.json")))
            d.pop("uuid", None); d.pop("timestamp", None)
            docs.append(d)

        def canon(d):
            cb = d["codebase"]
            return {"version": d.get("version"), "root": d.get("root"), "totals": cb["totals"],
                    "files": {k: v for k, v in sorted(cb["files"].items())},
                    "tree": {k: {"entries": sorted(v["entries"]), "profile": v["profile"]} for k, v in sorted(cb["tree"].items())}}
        first = canon(docs[0])
        for seed, d in zip(seeds[1:], docs[1:]):
            if canon(d) != first:
                a_, b_ = set(first["files"]), set(canon(d)["files"])
                return "scans of the same tree under PYTHONHASHSEED=%s (file-system walk order) and %s (walk order seed %s) differ beyond uuid/timestamp/file order (files only in one: %s)" % (seeds[0], seed, seed, sorted(a_ ^ b_)[:4])
        if sorted(first["files"]) != expected_files:
            return "scanned files %s, expected %s" % (sorted(first["files"])[:6], expected_files[:6])
        # every entry is the analysis of that file alone
        rels = sorted(first["files"])
        model = sr.model_scan_many([sr.scan_request(*placed[r]) for r in rels])
        for r, m in zip(rels, model):
            dm = sr.decode_scan(m)
            e = first["files"][r]
            got = [(x["unit_name"], x["start"]["line"], x["start"]["column"], x["end"]["line"], x["end"]["column"], x["value"]) for x in e["measurements"]]
            if dm is None or got != dm[0] or e["language"] != placed[r][0] or e["loc"] != dm[1]:
                return "entry of %s in the scan report (%s, %s) is not the analysis of that file alone (%s, %s)" % (r, e["language"], got[:3], placed[r][0], dm and dm[0][:3])
        return None
    finally:
        shutil.rmtree(root, ignore_errors=True)


# ------------------------------------------------------------------ comment-opener neighbourhood x many hash seeds

MARK_EXTRA = ["", "/", "!", "*", "#", ";", "-", "<", "@", ":", "\t"]


def marker_files(ctx):
    """one tiny file per (language, comment on the header line): the comment is the language's comment
    opener, at most ONE further punctuation character, optional blank, the word `nocl` in some case.
    Whether such a comment is a suppression marker is decided by the model (marker_recognition); the
    real code must decide the same under EVERY hash seed (a table of openers held in a set, a dict
    keyed by opener, ... would make the answer depend on the iteration order)."""
    rnd = ctx.rng("markers")
    out = []
    for lang in sr.LANGS:
        comments = []
        for x in MARK_EXTRA:
            for sp in ("", " "):
                w = rnd.choice(["nocl", "NOCL", "NoCl", "nocl: generated"])
                if lang == "Python":
                    comments.append("#" + x + sp + w)
                else:
                    comments.append("//" + x + sp + w)
                    comments.append("/*" + x + sp + w + " */")
        for c in comments:
            if lang == "Python":
                code = "def keep(a):\n    return a\n\n\ndef f(a):  %s\n    a = a + 1\n    return a\n" % c
            elif lang in ("Java", "C#"):
                code = "class K {\n  int keep(int a) {\n    return a;\n  }\n  int f(int a) {  %s\n    a = a + 1;\n    return a;\n  }\n}\n" % c
            elif lang in ("JavaScript", "TypeScript"):
                code = "function keep(a) {\n  return a;\n}\nfunction f(a) {  %s\n  a = a + 1;\n  return a;\n}\n" % c
            else:
                code = "int keep(int a) {\n  return a;\n}\nint f(int a) {  %s\n  a = a + 1;\n  return a;\n}\n" % c
            out.append((lang, code))
    return out


def marker_seeds(ctx):
    """the hash-seed ladder for the (cheap) marker files: 0..15 (0..63) plus a few from the whole range"""
    rnd = ctx.rng("marker-seeds")
    return list(range(ctx.pick(16, 64))) + [rnd.randrange(2 ** 32) for _ in range(ctx.pick(4, 16))]


# ------------------------------------------------------------------ check with several arguments, every order

DIRS = ["app", "lib", "svc", "tools", "core"]
SUBS = ["legacy", "gen", "v1"]
FILE_STEMS = ["main", "util", "api", "old", "schema_gen", "build_gen"]
FILE_EXT = [".py", ".js", ".c", ".ts", ".java"]
LANG_OF_EXT = {".py": "Python", ".js": "JavaScript", ".c": "C", ".ts": "TypeScript", ".java": "Java"}


def gen_order_case(rnd):
    """a tree of 3-4 top-level directories (files with functions of 5..75 lines, names shared between the
    directories; sub-directories), EVERY directory possibly with a `.gitignore` of its own (bare names,
    `*suffix`, `sub/`, negations, anchored `/name` - all drawn from names that occur elsewhere in the tree),
    and possibly a root `.gitignore`. Only the root one counts (C11); the nested ones are legal content."""
    dirs = rnd.sample(DIRS, rnd.choice([3, 3, 4]))
    files = {}        # rel path -> bytes

    def fill(pre, n):
        for _ in range(n):
            ext = rnd.choice(FILE_EXT)
            name = rnd.choice(FILE_STEMS) + ext
            lengths = [rnd.choice([5, 31, 40, 61, 75]) for _ in range(rnd.choice([1, 1, 2]))]
            files["/".join(pre + [name])] = sel.source_for(ext, lengths)
    for d in dirs:
        fill([d], rnd.choice([1, 2, 3]))
        for s in rnd.sample(SUBS, rnd.choice([0, 1, 1, 2])):
            fill([d, s], rnd.choice([1, 2]))
    names = sorted({c for p in files for c in p.split("/")})
    stems = sorted({"*" + n[i:] for n in names for i in range(len(n)) if n[i] in "._" and "." in n})

    def lines(k):
        out = []
        for _ in range(k):
            r = rnd.random()
            if r < 0.35:
                out.append(rnd.choice(stems))
            elif r < 0.6:
                out.append(rnd.choice([n for n in names if "." in n]))
            elif r < 0.8:
                out.append(rnd.choice(SUBS) + "/")
            elif r < 0.9:
                out.append("!" + rnd.choice(names))
            else:
                out.append("/" + rnd.choice(names))
        return out
    ignores = {}
    for d in dirs:
        if rnd.random() < 0.7:
            ignores[d] = lines(rnd.choice([1, 2, 3]))
        for p in files:
            c = p.split("/")
            if len(c) == 3 and c[0] == d and rnd.random() < 0.2:
                ignores[d + "/" + c[1]] = lines(1)
    root_ignore = [rnd.choice([n for n in names if "." in n])] if rnd.random() < 0.3 else []
    # argument lists: every order of the directories (all 6 for three, a sample for four), every directory alone,
    # the root, and lists mixing a file argument with directories that do not contain it
    import itertools
    perms = [list(p) for p in itertools.permutations(dirs)]
    if len(perms) > 8:
        perms = rnd.sample(perms, 8)
    runs = perms + [list(p) for p in itertools.permutations(dirs, 2)][:6] + [[d] for d in dirs] + [["."]]
    for _ in range(2):
        f = rnd.choice(sorted(files))
        rest = [d for d in dirs if d != f.split("/")[0]]
        mix = rest + [f]
        rnd.shuffle(mix)
        runs.append(mix)
    runs.append(list(runs[0]))          # the first call once more at the end (same process, same arguments)
    return {"stream": "check-orders", "files": {p: b.decode("latin-1") for p, b in files.items()}, "gitignores": ignores,
            "root_gitignore": root_ignore, "runs": runs}


def order_expected(case, model_ms):
    """per argument list: the files `check` must analyse and the lines it must print - from the property
    text (a file's result depends on its language and content only; root exclusions as in C11) and the
    MODEL's measurements of every file alone"""
    out = []
    for args in case["runs"]:
        read, listed = [], {}
        for a in args:
            for p in sorted(case["files"]):
                comps = p.split("/")
                under = (a == "." or p == a or p.startswith(a + "/"))
                if not under or sel.spec_excluded(comps, case["root_gitignore"]):
                    continue
                read.append(p)
                risks = sorted([m for m in model_ms[p] if m[5] > 30], key=lambda m: -m[5])
                listed[p] = [[p, m[1], m[2], m[5], m[0]] for m in risks]
        code = 1 if any(l[3] > 60 for ls in listed.values() for l in ls) else 0
        out.append({"read": sorted(read), "listed": listed, "code": code})
    return out


def run_check_worker(root, runs, hashseed):
    env = dict(os.environ, PYTHONHASHSEED=str(hashseed), COLUMNS="300")
    p = subprocess.run([sys.executable, os.path.join(common.VERIF, "harness", "c06_worker.py"), "check"],
                       input=json.dumps({"root": root, "runs": runs}), capture_output=True, text=True, env=env, timeout=600)
    if p.returncode != 0:
        return None, p.stderr[-500:]
    return json.loads(p.stdout)["results"], None


def materialize_order_case(case):
    root = os.path.realpath(tempfile.mkdtemp(prefix="c06o_"))
    for p, text in case["files"].items():
        os.makedirs(os.path.join(root, os.path.dirname(p)), exist_ok=True)
        with open(os.path.join(root, p), "wb") as f:
            f.write(text.encode("latin-1"))
    for d, ls in case["gitignores"].items():
        with open(os.path.join(root, d, ".gitignore"), "w") as f:
            f.write("\n".join(ls) + "\n")
    if case["root_gitignore"]:
        with open(os.path.join(root, ".gitignore"), "w") as f:
            f.write("\n".join(case["root_gitignore"]) + "\n")
    return root


def judge_order_case(case, hashseed, only_run=None):
    """-> (failures, number of calls judged)"""
    paths = sorted(case["files"])
    reqs = [sr.scan_request(LANG_OF_EXT[os.path.splitext(p)[1]], case["files"][p].encode("latin-1").decode("utf-8")) for p in paths]
    model_ms = {p: (sr.decode_scan(m) or ([], 0))[0] for p, m in zip(paths, sr.model_scan_many(reqs, shards=1))}
    c = case if only_run is None else dict(case, runs=[only_run])
    exp = order_expected(c, model_ms)
    root = materialize_order_case(case)
    try:
        res, err = run_check_worker(root, c["runs"], hashseed)
    finally:
        shutil.rmtree(root, ignore_errors=True)
    small = {k: case[k] for k in ("stream", "files", "gitignores", "root_gitignore")}
    if res is None:
        return [{"input": dict(small, hashseed=hashseed, args=None), "observed": err, "required": "check completes"}], 0
    fails = []
    for k, (args, r, e) in enumerate(zip(c["runs"], res, exp)):
        bad = []
        if r["error"]:
            bad.append("check raised " + r["error"])
        if sorted(r["read"]) != e["read"]:
            bad.append("files analysed: missing %s, unexpected %s" % (sorted(set(e["read"]) - set(r["read"]))[:4], sorted(set(r["read"]) - set(e["read"]))[:4]))
        got = {}
        for l in r["listed"]:
            got.setdefault(l[0], []).append(list(l))
        for p in sorted(set(got) | set(e["listed"])):
            if got.get(p, []) != e["listed"].get(p, []):
                bad.append("listed for %s: %s, required (the analysis of that file alone) %s" % (p, [x[1:] for x in got.get(p, [])][:3], [x[1:] for x in e["listed"].get(p, [])][:3]))
        if not r["error"] and r["files_checked"] != len(e["read"]):
            bad.append("%s files checked, required %d" % (r["files_checked"], len(e["read"])))
        if not r["error"] and r["code"] != e["code"]:
            bad.append("exit code %s, required %d" % (r["code"], e["code"]))
        if bad:
            fails.append({"input": dict(small, hashseed=hashseed, args=args, earlier_calls_in_this_process=c["runs"][:k][-3:]),
                          "observed": {"read": r["read"][:12], "listed": r["listed"][:6], "files_checked": r["files_checked"], "code": r["code"]},
                          "required": bad[:6]})
    return fails, len(res)


def check_orders(ctx):
    rnd = ctx.rng("check-orders")
    cases = [gen_order_case(rnd) for _ in range(ctx.pick(8, 80))]
    seeds = ctx.pick([0, 3], [0, 1, 3, 7])
    jobs = [(c, s) for i, c in enumerate(cases) for s in (seeds if ctx.thorough else [seeds[i % len(seeds)]])]
    from concurrent.futures import ThreadPoolExecutor
    with ThreadPoolExecutor(max_workers=12) as ex:
        res = list(ex.map(lambda j: judge_order_case(*j), jobs))
    fails = [f for fs_, _ in res for f in fs_]
    fails.sort(key=lambda f: len(json.dumps(f["input"])))
    stats = {"trees": len(cases), "interpreters": len(jobs), "check_calls": sum(n for _, n in res),
             "nested_gitignores": sum(len(c["gitignores"]) for c in cases), "root_gitignores": sum(1 for c in cases if c["root_gitignore"])}
    return fails, stats


def correspond(ctx):
    from concurrent.futures import ThreadPoolExecutor
    fs = files(ctx)
    model = sr.model_scan_many([sr.scan_request(l, c) for (l, c) in fs])
    ref = dict(zip(range(len(fs)), model))
    rnd = ctx.rng("orders")
    seeds = ctx.pick([0, 1, 2, 4242], list(range(0, 30)) + [12345, 999983])
    orders = [list(range(len(fs))), list(reversed(range(len(fs))))]
    for _ in range(ctx.pick(1, 8)):
        o = list(range(len(fs))); rnd.shuffle(o); orders.append(o)
    jobs = [(s, o) for s in seeds for o in (orders if ctx.thorough else orders[: 3])]
    if not ctx.thorough:
        jobs = [(s, orders[i % len(orders)]) for i, s in enumerate(seeds)] + [(seeds[0], orders[1]), (seeds[1], orders[2])]
    else:
        jobs = [(s, orders[i % len(orders)]) for i, s in enumerate(seeds)] + [(7, o) for o in orders]

    # the marker files (tiny) go through MANY hash seeds: appended to `fs`, analysed in their own interpreters
    n_main = len(fs)
    mk = [(l, c) for (l, c) in marker_files(ctx)]
    mk_model = sr.model_scan_many([sr.scan_request(l, c) for (l, c) in mk])
    for i, m in enumerate(mk_model):
        ref[n_main + i] = m
    fs = fs + mk
    mk_order = list(range(n_main, len(fs)))
    mseeds = marker_seeds(ctx)
    mjobs = [(s, mk_order if k % 2 == 0 else list(reversed(mk_order))) for k, s in enumerate(mseeds)]

    def one(job):
        s, o = job
        res, err = run_worker([fs[i] for i in o], s)
        return (s, o, res, err)
    with ThreadPoolExecutor(max_workers=16) as ex:
        results = list(ex.map(one, jobs + mjobs))
    dis, fails = [], []
    evals = 0
    nontrivial = set()
    for (s, o, res, err) in results:
        if res is None:
            fails.append({"input": {"hashseed": s, "order": o[:10]}, "observed": err, "required": "worker completes"}); continue
        for pos, (i, r) in enumerate(zip(o, res)):
            evals += 1
            lang, code = fs[i]
            if r != ref[i]:
                inp = {"language": lang, "code": code, "hashseed": s, "position_in_order": pos,
                       "predecessors": [fs[j] for j in o[max(0, pos - 3):pos]]}
                dis.append({"stream": "scan/%s" % lang, "input": inp, "model": ref[i][:200], "impl": r[:200]})
                fails.append({"input": inp, "observed": r[:200], "required": "the result of analysing this file alone: " + ref[i][:200]})
            if not r.startswith("ok 0 ") and r.startswith("ok"):
                nontrivial.add((i, s))
    t = scan_tree_twice(ctx, fs)
    if t:
        fails.append({"input": {"stream": "tree"}, "observed": t, "required": "reports equal up to uuid, timestamp and file order"})
    # the smallest failing files first (the marker files are 7-9 lines)
    fails.sort(key=lambda f: len(json.dumps(f["input"], default=str)))
    ofails, ostats = check_orders(ctx)
    fails = ofails[:10] + fails
    evals += ostats["check_calls"]
    return {
        "evaluations": evals + 2, "distinct_nontrivial": len(nontrivial),
        "rule": "%d files (canonical, malformed incl. ones that abort matching midway, corpus) analysed in %d fresh interpreters: PYTHONHASHSEED in %s x file orders (identity, reversed, random permutations); every per-file result compared with the model's single result; plus two subprocess scans of one tree under different hash seeds; non-trivial = distinct (file, hash seed) pairs with at least one function; PLUS %d marker files (per language: comment opener + at most one further punctuation character + `nocl`, on a header line) in %d further interpreters (hash seeds 0..%d and %d drawn from 0..2^32-1) against the model; PLUS check-orders: %d trees with nested .gitignore files, the real check_command called in %d fresh interpreters with the top-level directories as arguments in every order (pairs, single directories, the root, file + directory lists, the first list again at the end of the same process): %d calls, each judged against the model's analysis of every file alone" % (n_main, len(jobs), seeds if len(seeds) < 8 else "0..29,12345,999983", len(mk), len(mjobs), ctx.pick(16, 64) - 1, ctx.pick(4, 16), ostats["trees"], ostats["interpreters"], ostats["check_calls"]),
        "samples": [{"hashseed": s, "order": o[:8], "first_result": (res or [""])[0][:60]} for (s, o, res, e) in results[:3]],
        "exhaustive": False, "distribution": {"files": n_main, "interpreters": len(jobs), "hash_seeds": len(seeds), "orders": len(orders),
                                              "marker_files": len(mk), "marker_hash_seeds": len(mseeds), "check_orders": ostats},
        "disagreements": dis[:30], "oracle_failures": fails[:30],
    }


def search(ctx, hints):
    r = correspond(ctx)
    return r["oracle_failures"][:6]


def replay(payload):
    inp = payload["input"]
    if inp.get("stream") == "check-orders" and inp.get("args"):
        case = dict({k: inp[k] for k in ("stream", "files", "gitignores", "root_gitignore")}, runs=[])
        fails, _ = judge_order_case(case, inp["hashseed"], only_run=inp["args"])
        print("check %s (PYTHONHASHSEED=%s; nested .gitignore files: %s)" % (" ".join(inp["args"]), inp["hashseed"], inp["gitignores"]))
        for f in fails:
            print("observed: %s\nviolated: %s" % (f["observed"], f["required"]))
        return not fails
    if inp.get("stream") == "tree" or "language" not in inp:
        print("tree/worker level failure: re-run the check"); return False
    cases = [tuple(x) for x in inp.get("predecessors", [])] + [(inp["language"], inp["code"])]
    alone, _ = run_worker([(inp["language"], inp["code"])], 0)
    res, err = run_worker(cases, inp["hashseed"])
    print("alone (seed 0): %s\nafter predecessors (seed %s): %s" % (alone and alone[0][:120], inp["hashseed"], res and res[-1][:120]))
    return res is not None and alone is not None and res[-1] == alone[0]
