"""C16 - token positions are faithful to the source text.

Tie: Model/Lex.lean (lex, get_newline_indices, location_to_index, filter_tokens) against the
real `lex` with the real Pygments lexers on the same texts (driver op `lexpos`), plus a run-time
check of the lexer contract the theorems assume (tokens tile the text; non-Text tokens are
non-empty). Oracle: the property stated directly on the real output."""
import os
import sys

sys.path.insert(0, os.path.dirname(os.path.dirname(os.path.abspath(__file__))))
import common
import scan_real as sr
import scan_streams

ID = "C16"
SHRINKABLE = True     # replay() re-evaluates the oracle from the input alone
TRUSTED = [
    "correspondence harness harness/props/C16.py",
    "modelled, not verified: the Pygments lexers (parameter `raw`); contract RawOk (contiguous offsets, value = text at offset) and `non-Text tokens are non-empty` checked on every explored text",
]
ASSUMPTIONS = [
    "texts contain no carriage returns (files are read in text mode with universal newlines)",
    "lexer contract RawOk + non-empty non-Text tokens (checked at run time on every input)",
]
EDGE = ["", "x", "x\n", "\n", "\n\n", "x = 1", "x = 1\n\ny = 2", "\tx\t=\t1\n", "s = '''a\nb'''\n", "é = 'ü€😀'\n# ñ\n",
        "/* a\n b */ int x;\n", "f(\n)\n{\n}\n", "x\n\n\n", "  \n  x", "a\\\nb\n", "\"unterminated\n", "`t\n${x}\n`;\n", "#!x\n", "\x0c\n", "x // c"]


def texts(ctx):
    out = []
    for lang in sr.LANGS:
        for t in EDGE:
            out.append((lang, t))
    for (lang, text, _) in scan_streams.canonical(ctx, ctx.pick(25, 300), "c16"):
        out.append((lang, text))
        if text.endswith("\n"):
            out.append((lang, text[:-1]))
    out += scan_streams.soups(ctx, ctx.pick(800, 20000), "c16soup")
    out += scan_streams.corpus_cases()
    rnd = ctx.rng("mut")
    extra = []
    for (lang, text) in out[: ctx.pick(300, 3000)]:
        if text:
            i = rnd.randrange(len(text))
            extra.append((lang, text[:i] + rnd.choice(["\n", "\t", "é", "😀", " ", "\n\n", " ", "\xa0"]) + text[i:]))
    return out + extra


def real_lex(lang, code, fc):
    from codelimit.common.lexer_utils import lex
    toks = lex(sr.lexer_for(lang), code, fc)
    return toks


def line_starts(code):
    st = [0]
    for i, c in enumerate(code):
        if c == "\n":
            st.append(i + 1)
    return st


def oracle(lang, code, fc, toks):
    bad = []
    st = line_starts(code)
    prev = None
    for t in toks:
        l, c = t.location.line, t.location.column
        if not (1 <= l <= len(st)) or c < 1:
            bad.append("position (%d,%d) outside the text" % (l, c)); break
        off = st[l - 1] + c - 1
        if code[off:off + len(t.value)] != t.value:
            bad.append("text at (%d,%d) is %r, token is %r" % (l, c, code[off:off + len(t.value)][:20], t.value[:20])); break
        if "\n" in code[st[l - 1]:off]:
            bad.append("column %d runs past the end of line %d" % (c, l)); break
        if prev is not None and not (prev[1] <= off and prev[0] < off):
            bad.append("token at offset %d not after the previous one (offset %d, end %d)" % (off, prev[0], prev[1])); break
        prev = (off, off + len(t.value))
        if t.is_whitespace():
            bad.append("whitespace token kept at (%d,%d)" % (l, c)); break
        if fc and t.is_comment():
            bad.append("comment token kept although comments were to be filtered"); break
    if not fc:
        # every comment token of the raw stream must be kept
        from pygments.token import Comment
        raw_comments = sum(1 for (_, tt, v) in sr.lexer_for(lang).get_tokens_unprocessed(code) if tt in Comment)
        kept = sum(1 for t in toks if t.is_comment())
        if raw_comments != kept:
            bad.append("%d comment tokens in the text, %d kept" % (raw_comments, kept))
    return bad


def correspond(ctx):
    cases = texts(ctx)
    reqs, flat, contract_bad = [], [], []
    for (lang, code) in cases:
        if "\r" in code:
            continue
        raw, bad = sr.raw_tokens(lang, code)
        if bad:
            contract_bad.append((lang, code, bad))
        elif any(v == "" and sr.kind_of(tt) != 6 for (_, tt, v) in raw):
            contract_bad.append((lang, code, ["empty non-Text token"]))
        enc = sr.encode_raw(raw)
        for fc in (1, 0):
            reqs.append("lexpos %d %s %s" % (fc, sr.sstr(code), enc))
            flat.append((lang, code, fc))
    model = common.run_driver_sharded(reqs)
    dis, fails = [], []
    nontrivial = set()
    dist = {"multi_line_tokens": 0, "no_trailing_newline": 0, "non_ascii": 0, "contract_violations": len(contract_bad), "tokens": 0}
    for (lang, code, fc), m in zip(flat, model):
        toks = real_lex(lang, code, bool(fc))
        i = "ok %d" % len(toks) + "".join(" %d %d %d" % (t.location.line, t.location.column, sr.kind_of(t.token_type)) for t in toks)
        inp = {"language": lang, "code": code, "filter_comments": fc}
        if m != i:
            dis.append({"stream": "lex/%s" % lang, "input": inp, "model": m[:300], "impl": i[:300]})
        for b in oracle(lang, code, bool(fc), toks):
            fails.append({"input": inp, "observed": i[:200], "required": b})
        if toks:
            nontrivial.add((lang, code, fc))
        dist["tokens"] += len(toks)
        if fc:
            dist["multi_line_tokens"] += sum(1 for t in toks if "\n" in t.value)
            dist["no_trailing_newline"] += 0 if code.endswith("\n") else 1
            dist["non_ascii"] += 0 if code.isascii() else 1
    for (lang, code, bad) in contract_bad[:10]:
        fails.append({"input": {"language": lang, "code": code, "filter_comments": 1}, "observed": "lexer contract violated: %s" % bad,
                      "required": "RawOk / non-empty non-Text tokens (assumption of the theorems)", "kind": "contract"})
    return {
        "evaluations": len(flat), "distinct_nontrivial": len(nontrivial),
        "rule": "edge-case texts x 7 lexers, canonical programs with and without trailing newline, malformed stream (prefixes, suffixes, edits, token soups), vendored corpus, random single-character insertions (newline, tab, non-ASCII, astral, NBSP, U+2028); each with comments filtered and kept; non-trivial = distinct (language, text, mode) with at least one kept token",
        "samples": [{"language": l, "code": c[:80], "filter_comments": fc, "model": m[:80]} for (l, c, fc), m in list(zip(flat, model))[40:44]],
        "exhaustive": False, "distribution": dist,
        "disagreements": dis[:50], "oracle_failures": fails[:50],
    }


def search(ctx, hints):
    fails = []
    cases = [(h["language"], h["code"]) for h in hints or [] if h] + texts(ctx)
    for (lang, code) in cases:
        for fc in (True, False):
            toks = real_lex(lang, code, fc)
            for b in oracle(lang, code, fc, toks):
                fails.append({"input": {"language": lang, "code": code, "filter_comments": int(fc)}, "observed": "", "required": b})
        if len(fails) > 40:
            break
    fails.sort(key=lambda f: len(f["input"]["code"]))
    return fails[:10]


def replay(payload):
    inp = payload["input"]
    toks = real_lex(inp["language"], inp["code"], bool(inp["filter_comments"]))
    bad = oracle(inp["language"], inp["code"], bool(inp["filter_comments"]), toks)
    print("%s %r -> %s" % (inp["language"], inp["code"][:60], bad or "ok"))
    return not bad
