"""C16 - token positions are faithful to the source text.

Tie: Model/Lex.lean (lex, get_newline_indices, location_to_index, filter_tokens) against the
real `lex` with the real Pygments lexers on the same texts (driver op `lexpos`), plus a run-time
check of the lexer contract the theorems assume (tokens tile the text; non-Text tokens are
non-empty). Oracle: the property stated directly on the real output."""
import os
import sys

sys.path.insert(0, os.path.dirname(os.path.dirname(os.path.abspath(__file__))))
import common
import scan_real as sr
import scan_streams

ID = "C16"
SHRINKABLE = True     # replay() re-evaluates the oracle from the input alone
TRUSTED = [
    "correspondence harness harness/props/C16.py",
    "modelled, not verified: the Pygments lexers (parameter `raw`); contract RawOk (contiguous offsets, value = text at offset) and `non-Text tokens are non-empty` checked on every explored text",
]
ASSUMPTIONS = [
    "texts contain no carriage returns (files are read in text mode with universal newlines)",
    "lexer contract RawOk + non-empty non-Text tokens (checked at run time on every input)",
]
EDGE = ["", "x", "x\n", "\n", "\n\n", "x = 1", "x = 1\n\ny = 2", "\tx\t=\t1\n", "s = '''a\nb'''\n", "é = 'ü€😀'\n# ñ\n",
        "/* a\n b */ int x;\n", "f(\n)\n{\n}\n", "x\n\n\n", "  \n  x", "a\\\nb\n", "\"unterminated\n", "`t\n${x}\n`;\n", "#!x\n", "\x0c\n", "x // c"]


def texts(ctx):
    out = []
    for lang in sr.LANGS:
        for t in EDGE:
            out.append((lang, t))
    for (lang, text, _) in scan_streams.canonical(ctx, ctx.pick(25, 300), "c16"):
        out.append((lang, text))
        if text.endswith("\n"):
            out.append((lang, text[:-1]))
    out += scan_streams.soups(ctx, ctx.pick(800, 20000), "c16soup")
    out += scan_streams.corpus_cases()
    rnd = ctx.rng("mut")
    extra = []
    for (lang, text) in out[: ctx.pick(300, 3000)]:
        if text:
            i = rnd.randrange(len(text))
            extra.append((lang, text[:i] + rnd.choice(["\n", "\t", "\xe9", "\U0001f600", " ", "\n\n", "\u2028", "\xa0"] + scan_streams.SEPARATORS + [scan_streams.BOM]) + text[i:]))
    # configuration variants of a share of ALL texts: behind a byte order mark, on one line without any newline, both,
    # a blank replaced by a Unicode separator
    extra += scan_streams.decorate(ctx, out, 0.2, "c16decor")
    # the lower rungs of the single-line ladder also go through the model
    extra += [(lang, text) for (lang, text, d) in long_cases(ctx) if d["chars"] <= MODEL_CHARS]
    return out + extra


MODEL_CHARS = 10 ** 4      # longer single lines: direct oracle only (the protocol line of the model grows with every character)


def long_cases(ctx):
    """single-line ladder: 10^2 .. 3.2 * 10^6 characters without a newline (quick: every second rung at the top)"""
    if getattr(ctx, "_c16long", None) is not None:
        return ctx._c16long
    from gen import srcdict
    # + n-1, n, n+1, 2n for every integer that the current source has and the pinned source has not (a size limit, a piece
    # size, a column base introduced by a change becomes a rung; nothing on the pinned tree)
    light = scan_streams.rungs(100, 10 ** 4) + ctx.pick([10 ** 5, 10 ** 6, 3162278], scan_streams.rungs(31623, 3162278)) + srcdict.novel_rungs(100, 10 ** 7)
    heavy = scan_streams.rungs(100, 10 ** 4) + ctx.pick([10 ** 5], scan_streams.rungs(31623, 10 ** 6)) + srcdict.novel_rungs(100, 3 * 10 ** 5)
    ctx._c16long = scan_streams.long_lines(ctx, light, heavy, per_rung=ctx.pick(2, 7), salt="c16long")
    return ctx._c16long


def _long_work(job):
    """(desc, filter_comments) -> (number of tokens, violated clauses); the text is rebuilt in the worker"""
    desc, fc = job
    code = scan_streams.long_text(desc)
    toks = real_lex(desc["language"], code, bool(fc))
    return len(toks), oracle(desc["language"], code, bool(fc), toks)


def long_failures(ctx, dist=None):
    jobs = [(d, fc) for (_, _, d) in long_cases(ctx) if d["chars"] > MODEL_CHARS for fc in (1, 0)]
    jobs.sort(key=lambda j: -j[0]["chars"])
    fails = []
    for (d, fc), (n, bad) in zip(jobs, scan_streams.heavy_map(_long_work, jobs)):
        if dist is not None:
            dist["tokens"] += n
        for b in bad[:1]:
            fails.append({"input": dict(d, filter_comments=fc), "observed": "", "required": b})
    fails.sort(key=lambda f: f["input"]["chars"])
    for f in fails[:2]:
        # smallest size of this shape that still fails (bisection between 0 and the failing rung)
        d, fc = f["input"], f["input"]["filter_comments"]
        small = scan_streams.bisect_size(lambda k, d=d, fc=fc: bool(_long_work((dict(d, chars=k), fc))[1]), 0, d["chars"])
        bad = _long_work((dict(d, chars=small), fc))[1]
        if bad:
            f.update({"input": dict(d, chars=small, found_at_chars=d["chars"]), "required": bad[0]})
    fails.sort(key=lambda f: f["input"]["chars"])
    return len(jobs), fails


def second_call_probe(lang, code, fc):
    """state probe: lex the same text twice with the SAME lexer object; the first result is mutated in between
    (positions, values, the list itself); the second result must be what the first one was"""
    first = real_lex(lang, code, bool(fc))
    snap = [(t.location.line, t.location.column, str(t.token_type), t.value) for t in first]
    for t in first:
        try:
            t.location.line += 1000
            t.location.column = 0
        except AttributeError:
            pass            # immutable locations are fine
        t.value = ""
    del first[:]
    second = real_lex(lang, code, bool(fc))
    snap2 = [(t.location.line, t.location.column, str(t.token_type), t.value) for t in second]
    return [] if snap == snap2 else ["second call of lex on the same lexer object and text differs from the first (first result mutated in between)"]


def real_lex(lang, code, fc):
    from codelimit.common.lexer_utils import lex
    toks = lex(sr.lexer_for(lang), code, fc)
    return toks


def line_starts(code):
    st = [0]
    i = code.find("\n")
    while i >= 0:
        st.append(i + 1)
        i = code.find("\n", i + 1)
    return st


def _is_comment(t):
    """the token's Pygments type is a comment type (decided HERE, not by the Token class under check)"""
    from pygments.token import Comment
    return t.token_type in Comment


def _is_whitespace(t):
    from pygments.token import Text, Whitespace
    return (t.token_type == Text or t.token_type == Whitespace) and (t.value == "" or t.value.isspace())


def oracle(lang, code, fc, toks):
    bad = []
    st = line_starts(code)
    prev = None
    for t in toks:
        l, c = t.location.line, t.location.column
        if not (1 <= l <= len(st)) or c < 1:
            bad.append("position (%d,%d) outside the text" % (l, c)); break
        off = st[l - 1] + c - 1
        if code[off:off + len(t.value)] != t.value:
            bad.append("text at (%d,%d) is %r, token is %r" % (l, c, code[off:off + len(t.value)][:20], t.value[:20])); break
        if l < len(st) and off >= st[l]:       # a newline lies between the start of line l and the reported position
            bad.append("column %d runs past the end of line %d" % (c, l)); break
        if prev is not None and not (prev[1] <= off and prev[0] < off):
            bad.append("token at offset %d not after the previous one (offset %d, end %d)" % (off, prev[0], prev[1])); break
        prev = (off, off + len(t.value))
        if _is_whitespace(t):
            bad.append("whitespace token kept at (%d,%d)" % (l, c)); break
        if fc and _is_comment(t):
            bad.append("comment token %r (%s) kept at (%d,%d) although comments were to be filtered" % (t.value[:20], t.token_type, l, c)); break
    if not fc:
        # every comment token of the raw stream must be kept
        from pygments.token import Comment
        raw_comments = sum(1 for (_, tt, v) in sr.lexer_for(lang).get_tokens_unprocessed(code) if tt in Comment)
        kept = sum(1 for t in toks if _is_comment(t))
        if raw_comments != kept:
            bad.append("%d comment tokens in the text, %d kept" % (raw_comments, kept))
    return bad


def correspond(ctx):
    cases = texts(ctx)
    reqs, flat, contract_bad = [], [], []
    for (lang, code) in cases:
        if "\r" in code:
            continue
        raw, bad = sr.raw_tokens(lang, code)
        if bad:
            contract_bad.append((lang, code, bad))
        elif any(v == "" and sr.kind_of(tt) != 6 for (_, tt, v) in raw):
            contract_bad.append((lang, code, ["empty non-Text token"]))
        enc = sr.encode_raw(raw)
        for fc in (1, 0):
            reqs.append("lexpos %d %s %s" % (fc, sr.sstr(code), enc))
            flat.append((lang, code, fc))
    model = common.run_driver_sharded(reqs)
    dis, fails = [], []
    nontrivial = set()
    dist = {"multi_line_tokens": 0, "no_trailing_newline": 0, "non_ascii": 0, "contract_violations": len(contract_bad), "tokens": 0}
    for (lang, code, fc), m in zip(flat, model):
        toks = real_lex(lang, code, bool(fc))
        i = "ok %d" % len(toks) + "".join(" %d %d %d" % (t.location.line, t.location.column, sr.kind_of(t.token_type)) for t in toks)
        inp = {"language": lang, "code": code, "filter_comments": fc}
        if m != i:
            dis.append({"stream": "lex/%s" % lang, "input": inp, "model": m[:300], "impl": i[:300]})
        for b in oracle(lang, code, bool(fc), toks):
            fails.append({"input": inp, "observed": i[:200], "required": b})
        if toks:
            nontrivial.add((lang, code, fc))
        dist["tokens"] += len(toks)
        if fc:
            dist["multi_line_tokens"] += sum(1 for t in toks if "\n" in t.value)
            dist["no_trailing_newline"] += 0 if code.endswith("\n") else 1
            dist["non_ascii"] += 0 if code.isascii() else 1
    for (lang, code, bad) in contract_bad[:10]:
        fails.append({"input": {"language": lang, "code": code, "filter_comments": 1}, "observed": "lexer contract violated: %s" % bad,
                      "required": "RawOk / non-empty non-Text tokens (assumption of the theorems)", "kind": "contract"})
    dist["long_lines"] = {}
    for (_, _, d) in long_cases(ctx):
        dist["long_lines"][str(d["chars"])] = dist["long_lines"].get(str(d["chars"]), 0) + 1
    dist["byte_order_mark"] = sum(1 for (_, c) in cases if c.startswith(scan_streams.BOM))
    dist["bom_without_newline"] = sum(1 for (_, c) in cases if c.startswith(scan_streams.BOM) and "\n" not in c)
    dist["separator_characters"] = sum(1 for (_, c) in cases if any(ch in c for ch in scan_streams.SEPARATORS))
    nlong, lfails = long_failures(ctx, dist)
    fails += lfails
    probes = 0
    for (lang, code, fc) in flat[:: max(1, len(flat) // ctx.pick(400, 4000))]:
        probes += 1
        for b in second_call_probe(lang, code, fc):
            fails.append({"input": {"language": lang, "code": code, "filter_comments": fc, "probe": "second-call"}, "observed": "", "required": b})
    dist["second_call_probes"] = probes
    return {
        "evaluations": len(flat) + nlong + probes, "distinct_nontrivial": len(nontrivial) + nlong,
        "rule": "token soups and edited programs now also carry comment openers / closers of OTHER languages (<!-- --> # -- % (* {- ; REM =begin ...) at arbitrary places; ladder sizes + n-1, n, n+1, 2n for integers new in the source; comment / white-space kinds judged from the Pygments token type, not by the Token class under check; edge-case texts x 7 lexers, canonical programs with and without trailing newline, malformed stream (prefixes, suffixes, edits, token soups), vendored corpus, random single-character insertions (newline, tab, non-ASCII, astral, NBSP, U+000B U+000C U+001C-E U+0085 U+2028 U+2029, U+FEFF); a share of all texts behind a byte order mark / on one line without any newline / both / with a separator character; single-line ladder 10^2 .. 3.2*10^6 characters (string literal, block comment followed by code, short statements, one-line function; alone with and without final newline, as second line) - up to 10^4 characters against the model, above by the direct oracle only; each with comments filtered and kept; second-call probe on a sample (same lexer object, first result mutated); non-trivial = distinct (language, text, mode) with at least one kept token",
        "samples": [{"language": l, "code": c[:80], "filter_comments": fc, "model": m[:80]} for (l, c, fc), m in list(zip(flat, model))[40:44]],
        "exhaustive": False, "distribution": dist,
        "disagreements": dis[:50], "oracle_failures": fails[:50],
    }


def search(ctx, hints):
    fails = []
    cases = [(h["language"], h["code"]) for h in hints or [] if h and "code" in h] + texts(ctx)
    for (lang, code) in cases:
        for fc in (True, False):
            toks = real_lex(lang, code, fc)
            for b in oracle(lang, code, fc, toks):
                fails.append({"input": {"language": lang, "code": code, "filter_comments": int(fc)}, "observed": "", "required": b})
        if len(fails) > 40:
            break
    fails.sort(key=lambda f: len(f["input"]["code"]))
    return fails[:10] + long_failures(ctx)[1][:3]


def replay(payload):
    inp = payload["input"]
    code = scan_streams.long_text(inp) if inp.get("stream") == "long-line" else inp["code"]
    if inp.get("probe") == "second-call":
        bad = second_call_probe(inp["language"], code, inp["filter_comments"])
    else:
        toks = real_lex(inp["language"], code, bool(inp["filter_comments"]))
        bad = oracle(inp["language"], code, bool(inp["filter_comments"]), toks)
    print("%s %r%s -> %s" % (inp["language"], code[:60], " ... (%d characters)" % len(code) if len(code) > 60 else "", bad or "ok"))
    return not bad
