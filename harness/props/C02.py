"""C02 - length thresholds and the refactoring alarm are applied consistently.

Tie: (1) translator/logic.py regenerates Gen/Logic.lean from the source; Props/C02.lean proves
every generated comparison equal to the category definition; (2) the generated definitions
(compiled into the model driver) are compared with the real functions on every length in a
range (validates the translator); (3) the glue of check_command is compared with Model/Check
on multisets of lengths spread over files (scan_file is replaced by a stub that returns
measurements of the requested lengths); (4) stream `cli-entry`: the CLI entry function
`codelimit.__main__.check` in fresh interpreters on real source files under every configuration
(--quiet, --verbose, .codelimit.yml verbose / exclude, --exclude, file / directory arguments, the
same call twice in one process), stdout+stderr / listing / summary / exit status judged by the
property text; (5) stream `scan-history`: scan, change the tree (copy / rename to the sibling
language, rewrite, delete), scan again with the first report handed back: per-language counters,
findings and `check .` judged by the lengths the files have now - under Configuration.verbose on / off, through
scan_path or scan_codebase, rewritten files partly with an OLD modification time; the LOC-weighted quality profile, lines
of code, average and the root folder's profile are judged too; (6) stream `codebase-growth`: one Codebase filled file by
file, every figure read after a prefix and at the end (query before complete); (7) file names from the Pygments-derived
pools (harness/gen/names.py: BUILD, SConscript, BUILD.bazel, x.hh, x.mjs ... next to same-suffix non-sources AUTHORS,
LICENSE, defs.bazel) in the in-process check stream (all calls in one process; a failure is re-run in a fresh interpreter
to tell whether it needs the history) and in `cli-entry` (file arguments in alphabetical / reverse / random order);
(8) round 6: functions with a `nocl` suppression marker (negative lengths in the inputs of `cli-entry` and `scan-history`): not
analysed, so neither listed nor counted nor a reason for exit status 1; `scan-history` also runs through the command function
scan_command and is then judged on the report `findings` / `report` read back from .codelimit_cache/codelimit.json, and a
share of the histories is totals-preserving (lengths permuted over one language's functions, lines moved within categories)."""
import contextlib
import io
import os
import re
import sys
import tempfile

sys.path.insert(0, os.path.dirname(os.path.dirname(os.path.abspath(__file__))))
sys.path.insert(0, os.path.join(os.path.dirname(os.path.dirname(os.path.dirname(os.path.abspath(__file__)))), "translator"))
import common
import logic

ID = "C02"
TRUSTED = [
    "translator/logic.py (+ symtrace.py, sites.py: symbolic tracing of the real functions -> Lean for the integer decision logic; trusted parts listed in its header); its output is also exercised against the real functions for every length explored",
    "correspondence harness harness/props/C02.py (+ c02_cli_worker.py: fresh interpreters calling codelimit.__main__.check); rich/typer output capture",
]
ASSUMPTIONS = ["function lengths are Python ints (the analysis only produces ints)"]
BOUNDARY = [14, 15, 16, 17, 29, 30, 31, 32, 59, 60, 61, 62]


def regen(ctx):
    try:
        text = logic.translate(common.REPO)
    except logic.Refuse as e:
        return [str(e)]
    common.write_if_changed(os.path.join(common.LEAN, "CodeLimit", "Gen", "Logic.lean"), text)
    return []


def real_classify(L):
    from codelimit.common import utils
    from codelimit.common.CheckResult import CheckResult
    from codelimit.common.Location import Location
    from codelimit.common.Measurement import Measurement
    from codelimit.common.SourceFileEntry import SourceFileEntry
    from codelimit.common.Codebase import Codebase
    from codelimit.common.report.Report import Report
    from codelimit.common.report import format_markdown, format_text
    from rich.console import Console
    m = Measurement("f", Location(1, 1), Location(2, 1), L)
    prof = utils.make_profile([m]); cprof = utils.make_count_profile([m])
    pb = [i for i in range(4) if prof[i] != 0] if L != 0 else None
    cb = cprof.index(1)
    if L == 0:
        pb = [cb]   # a zero-length measurement adds 0 to its bucket: not observable; use the count bucket
    elif len(pb) != 1 or prof[pb[0]] != L:
        return "bad-profile %s" % prof
    style = utils.get_style_for_measurement(L).color.name
    emoji = utils.get_emoji_for_measurement(L)
    unit = utils.format_unit("f", L)
    unit_color = unit.spans[0].style.color.name if unit.spans and hasattr(unit.spans[0].style, "color") else "?"
    for sp in unit.spans:
        if hasattr(sp.style, "color") and sp.style.color is not None:
            unit_color = sp.style.color.name
            break
    cr = CheckResult(); cr.add("p", [m])
    # check lists
    from codelimit.commands import check as checkmod
    lists = 1 if [x for x in [m] if _check_lists(x)] else 0
    cb_ = Codebase("/r"); cb_.add_file(SourceFileEntry("a.py", "c", "Python", L, [m])); cb_.aggregate()
    rep = Report(cb_)
    buf = io.StringIO(); format_text.print_findings(Console(file=buf, width=200), rep, True)
    keeps_t = 1 if buf.getvalue().strip() else 0
    buf = io.StringIO(); format_markdown.print_findings(rep, Console(file=buf, width=200), True)
    md = buf.getvalue()
    rows = [l for l in md.splitlines() if l.startswith("| a.py")]
    keeps_m = 1 if rows else 0
    mdx1 = 1 if rows and "❌" in rows[0] else 0
    from codelimit.common.GithubRepository import GithubRepository
    rep2 = Report(cb_, GithubRepository("o", "n", "b"))
    buf = io.StringIO(); format_markdown.print_findings(rep2, Console(file=buf, width=300), True)
    rows2 = [l for l in buf.getvalue().splitlines() if "github.com" in l]
    mdx2 = 1 if rows2 and "❌" in rows2[0] else 0
    # cross symbols are only observable on listed rows; model value is masked the same way below
    return "ok %d %d %s %s %s %d %d %d %d %d %d %d" % (pb[0], cb, style, emoji, unit_color, cr.hard_to_maintain, cr.unmaintainable,
                                                     lists, keeps_t, keeps_m, mdx1, mdx2)


_RISK_SRC = None


def _check_lists(m):
    """evaluate check_file's own risk filter on one measurement (through the real function)"""
    return bool(_run_check_file([m.value]))


def _run_check_file(lengths):
    from codelimit.commands import check as checkmod
    from codelimit.common.CheckResult import CheckResult
    from codelimit.common.Location import Location
    from codelimit.common.Measurement import Measurement
    ms = [Measurement("f%d" % i, Location(i + 1, 1), Location(i + 1, 9), v) for i, v in enumerate(lengths)]
    saved = (checkmod.scan_file, checkmod.lex, checkmod._read_file) if hasattr(checkmod, "_read_file") else (checkmod.scan_file, checkmod.lex, None)
    checkmod.scan_file = lambda tokens, language: list(ms)
    checkmod.lex = lambda lexer, code, fc=True: []
    if saved[2] is not None:
        checkmod._read_file = lambda path: ""
    try:
        cr = CheckResult()
        checkmod.check_file(_probe_path(), cr)
        return [m.value for (_, risks) in cr.file_list for m in risks]
    finally:
        checkmod.scan_file, checkmod.lex = saved[0], saved[1]
        if saved[2] is not None:
            checkmod._read_file = saved[2]


_probe = None


def _probe_path():
    global _probe
    if _probe is None:
        from pathlib import Path
        d = tempfile.mkdtemp(prefix="c02_")
        _probe = Path(d) / "probe.py"
        _probe.write_text("")
    return _probe


def kept(files, names):
    """the entries of `files` that are source files of a supported language (all, when no names are given)"""
    import select_real as sel
    return [ls for i, ls in enumerate(files) if names is None or sel.expected_language(names[i]) is not None]


def real_check(quiet, files, names=None):
    """run the real check_command on one temp file per entry; scan_file is stubbed to return
    measurements of the given lengths -> reply in the model driver's format. With `names`, entry i is the file
    <tmp>/f<i>/<names[i]> (its own directory, so that whole-file-name patterns such as BUILD or SConscript apply);
    entries whose name is no source file of a supported language must not be analysed and are left out of the reply"""
    import typer
    import shutil
    import select_real as sel
    from pathlib import Path
    from codelimit.commands import check as checkmod
    from codelimit.common.Location import Location
    from codelimit.common.Measurement import Measurement
    d = tempfile.mkdtemp(prefix="c02_")
    paths = []
    by_path = {}
    for i, ls in enumerate(files):
        if names is None:
            p = Path(d) / ("f%03d.py" % i)
        else:
            os.mkdir(os.path.join(d, "f%03d" % i))
            p = Path(d) / ("f%03d" % i) / names[i]
        p.write_text("")
        paths.append(p)
        by_path[str(p)] = [Measurement("u%d" % j, Location(j + 1, 1), Location(j + 1, 9), v) for j, v in enumerate(ls)]
    current = {}
    saved = (checkmod.scan_file, checkmod.lex, getattr(checkmod, "_read_file", None), checkmod.check_file)
    orig_check_file = checkmod.check_file

    def check_file(path, cr):
        current["p"] = str(path)
        return orig_check_file(path, cr)
    checkmod.check_file = check_file
    checkmod.scan_file = lambda tokens, language: list(by_path[current["p"]])
    checkmod.lex = lambda lexer, code, fc=True: []
    if saved[2] is not None:
        checkmod._read_file = lambda path: ""
    buf = io.StringIO()
    code = None
    try:
        with contextlib.redirect_stdout(buf):
            try:
                checkmod.check_command(paths, quiet)
            except typer.Exit as e:
                code = e.exit_code
    finally:
        checkmod.scan_file, checkmod.lex, checkmod.check_file = saved[0], saved[1], saved[3]
        if saved[2] is not None:
            checkmod._read_file = saved[2]
        shutil.rmtree(d, ignore_errors=True)
    out = buf.getvalue()
    printed = 1 if out.strip() else 0
    listed = [[] for _ in files]
    for line in out.splitlines():
        m = re.match(r".*f(\d\d\d)(?:\.py|/[^/:]+):\d+:\d+: (\d+) \S+ u\d+\s*$", line)
        if m:
            listed[int(m.group(1))].append(int(m.group(2)))
    if names is not None:
        stray = [names[i] for i, l in enumerate(listed) if l and sel.expected_language(names[i]) is None]
        if stray:
            return "bad functions listed for %s, which is no source file of a supported language" % stray[:3]
        listed = [l for i, l in enumerate(listed) if sel.expected_language(names[i]) is not None]
        files = kept(files, names)
    says = 1 if "functions need refactoring" in out.replace("\n", " ") else 0
    cm = re.search(r"(\d+) functions need", out.replace("\n", " "))
    count = int(cm.group(1)) if cm else sum(len(l) for l in listed) if not printed or not says else -1
    return "ok %s %d %d %d %d%s" % (code, printed, says, count if says else sum(len(l) for l in listed), len(files),
                                   "".join(" %d%s" % (len(l), "".join(" %d" % v for v in l)) for l in listed))


def mask_model_classify(reply):
    """crosses are observable only on rows that are listed; the model's `says`-independent fields
    are compared as is"""
    ws = reply.split()
    if ws[0] != "ok":
        return reply
    # fields: pb cb style emoji unit hard unm lists keepsT keepsM mdx1 mdx2
    if ws[10] == "0":
        ws[11] = "0"; ws[12] = "0"
    return " ".join(ws)


def mask_model_check(reply):
    ws = reply.split()
    if ws[0] != "ok":
        return reply
    # when nothing is printed, the listed lines are not observable
    return reply


def gen_files(rnd):
    nf = rnd.randint(1, 5)
    files = []
    for _ in range(nf):
        n = rnd.choice([0, 1, 2, 3, 5, 8])
        ls = []
        for _ in range(n):
            r = rnd.random()
            if r < 0.45:
                ls.append(rnd.choice(BOUNDARY))
            elif r < 0.9:
                ls.append(rnd.randint(1, 200))
            else:
                ls.append(rnd.randint(200, 100000))
        files.append(ls)
    if len(files) >= 2 and rnd.random() < 0.3:
        files[rnd.randrange(1, len(files))] = list(files[0])      # an identical copy of the first file
    return files


def fresh_real_check(quiet, files, names):
    """real_check on this one input in a FRESH interpreter (does the failure need what earlier calls of this process left behind?)"""
    import json
    import subprocess
    code = ("import sys, json; sys.path.insert(0, %r); from props import C02; a = json.loads(sys.argv[1]); "
            "print('\\n' + C02.real_check(a[0], a[1], a[2]))" % os.path.join(common.VERIF, "harness"))
    try:
        p = subprocess.run([sys.executable, "-c", code, json.dumps([quiet, files, names])], capture_output=True, text=True, timeout=120)
        return (p.stdout.strip().splitlines() or ["no output: " + p.stderr[-200:]])[-1]
    except Exception as e:  # noqa: BLE001
        return "fresh interpreter failed: %r" % (e,)


def gen_names(rnd, files):
    """file names for the entries of a check case: mostly plain `src.py`; a share from the pools derived from Pygments
    (harness/gen/names.py): every extension / WHOLE file name that maps to a supported language (`x.hh`, `x.mjs`, `BUILD`,
    `SConscript`, `BUILD.bazel`, ...), and next to such a file often a name with the SAME suffix that is no source file
    (AUTHORS, LICENSE, Makefile, `defs.bazel`): whatever is decided per suffix instead of per name shows in the listing"""
    import select_real as sel
    pools = sel.name_pools()
    out = []
    for i in range(len(files)):
        r = rnd.random()
        if r < 0.45:
            out.append(rnd.choice(["src.py", "mod.js", "main.c", "api.ts"]))
        elif r < 0.75:
            out.append(sel.pool_stem(rnd, rnd.choice(pools["lang"])[0]))
        else:
            prev = out[-1] if out else "BUILD"
            ext = os.path.splitext(prev)[1]
            sib = pools["siblings"].get(prev) or ([("defs" + ext), ("other" + ext)] if ext else ["AUTHORS", "LICENSE", "Makefile"])
            out.append(rnd.choice(sib))
    if rnd.random() < 0.5:
        rnd.shuffle(out)
    return out


def _correspond_main(ctx):
    Ls = list(range(0, 201)) + [250, 1000, 10 ** 6, 10 ** 12]
    reqs = ["classify 0 %d" % L for L in Ls]
    model = [mask_model_classify(x) for x in common.run_driver(reqs)]
    impl = [real_classify(L) for L in Ls]
    dis, fails = [], []
    nontrivial = set()
    for L, m, i in zip(Ls, model, impl):
        inp = {"stream": "classify", "L": L}
        if m != i:
            dis.append({"stream": "classifiers", "input": inp, "model": m, "impl": i})
        exp = expected_classify(L)
        if i != exp:
            fails.append({"input": inp, "observed": i, "required": exp})
        nontrivial.add(("L", L))
    rnd = ctx.rng("files")
    n = ctx.pick(400, 8000)
    cases = [(rnd.random() < 0.5, gen_files(rnd), None) for _ in range(n)]
    cases += [(True, [[30, 15], [1]], None), (True, [[31]], None), (False, [[]], None), (True, [[61], [60]], None), (True, [[]], None)]
    rn = ctx.rng("file-names")
    for _ in range(ctx.pick(250, 4000)):
        fs = gen_files(rn)
        while len(fs) < 2:
            fs = gen_files(rn)
        fs = [l or [rn.choice(BOUNDARY + [75])] for l in fs]
        cases.append((rn.random() < 0.5, fs, gen_names(rn, fs)))
    n_named = sum(1 for c in cases if c[2] is not None)
    n_name_only = sum(1 for c in cases if c[2] is not None and any(sel_lang(x) and "." not in x for x in c[2]))
    reqs = []
    for q, fs0, nm in cases:
        fs = kept(fs0, nm)
        reqs.append("check %d %d %s" % (1 if q else 0, len(fs), " ".join("%d %s" % (len(l), " ".join(map(str, l))) if l else "0" for l in fs)))
    model2 = common.run_driver(reqs)
    impl2 = [real_check(q, fs, nm) for q, fs, nm in cases]
    earlier_names, fresh_runs = [], 0
    for (q, fs0, nm), m, i in zip(cases, model2, impl2):
        fs = kept(fs0, nm)
        inp = {"stream": "check", "quiet": q, "files": fs0}
        if nm is not None:
            inp["names"] = nm
            if i != expected_check(q, fs) and fresh_runs < 6:
                # state probe: all calls share this process. Does the input fail on its own?
                fresh_runs += 1
                if fresh_real_check(q, fs0, nm) == i:
                    inp["fails_in_a_fresh_process_too"] = True
                else:
                    inp["names_checked_earlier_in_this_process"] = list(earlier_names)
            earlier_names += [x for x in nm if x not in earlier_names]
        mm, ii = m, i
        if m.split()[2:3] == ["0"]:   # nothing printed: only exit code and the printed flag are observable
            mm = " ".join(m.split()[:3]); ii = " ".join(i.split()[:3])
        if mm != ii:
            dis.append({"stream": "check_command", "input": inp, "model": m, "impl": i})
        exp = expected_check(q, fs)
        if (ii if mm is not m else i) != (" ".join(exp.split()[:3]) if mm is not m else exp):
            fails.append({"input": inp, "observed": i, "required": exp})
        if any(v > 30 for l in fs for v in l):
            nontrivial.add(("check", q, tuple(map(tuple, fs)), tuple(nm or ())))
    return {
        "evaluations": len(Ls) + len(cases), "distinct_nontrivial": len(nontrivial),
        "rule": "every length 0..200 plus large values through all classifiers (exhaustive range); %d random multisets of lengths (boundary-biased: 14..17, 29..32, 59..62) over 1..5 files x quiet/not through check_command; non-trivial = distinct lengths, and distinct check inputs with at least one function longer than 30; %d of the check inputs name their files from the Pygments-derived pools (every extension and whole file name of a supported language: x.hh, x.mjs, x.pyi, BUILD, SConscript, BUILD.bazel, ... next to same-suffix names that are no source files: AUTHORS, LICENSE, Makefile, defs.bazel; %d with a language chosen by the whole name), file arguments in generated and shuffled order, all calls in one process: files that are no source files are not analysed, the others are listed as the model says" % (n, n_named, n_name_only),
        "samples": [{"L": L, "model": m, "impl": i} for L, m, i in list(zip(Ls, model, impl))[29:33]] +
                   [{"quiet": q, "files": fs, "model": m, "impl": i} for (q, fs, _nm), m, i in list(zip(cases, model2, impl2))[:3]],
        "exhaustive": False, "distribution": {"lengths": len(Ls), "check_cases": len(cases), "check_cases_with_pool_names": n_named,
                                              "check_cases_with_whole_name_language": n_name_only},
        "disagreements": dis[:50], "oracle_failures": fails[:50],
        "generated_hashes": {"Gen/Logic.lean": _sha(os.path.join(common.LEAN, "CodeLimit", "Gen", "Logic.lean"))},
    }


def sel_lang(name):
    import select_real as sel
    return sel.expected_language(name)


def _sha(path):
    import hashlib
    try:
        return hashlib.sha256(open(path, "rb").read()).hexdigest()[:16]
    except OSError:
        return None


def cat(L):
    return 0 if L <= 15 else 1 if L <= 30 else 2 if L <= 60 else 3


def expected_classify(L):
    c = cat(L)
    color = ["green", "yellow", "dark_orange", "red"][c]
    emoji = ["✓", "✓", "⚠", "✖"][c]
    listed = 1 if L > 30 else 0
    return "ok %d %d %s %s %s %d %d %d %d %d %d %d" % (c, c, color, emoji, color, 1 if c == 2 else 0, 1 if c == 3 else 0,
                                                     listed, listed, listed, 1 if c == 3 else 0, 1 if c == 3 else 0)


def expected_check(quiet, files):
    listed = [sorted([v for v in l if v > 30], reverse=True) for l in files]
    total = sum(len(l) for l in listed)
    exit_code = 1 if any(v > 60 for l in files for v in l) else 0
    printed = 0 if (quiet and total == 0) else 1
    says = 1 if total > 0 else 0
    return "ok %d %d %d %d %d%s" % (exit_code, printed, says, total, len(files),
                                   "".join(" %d%s" % (len(l), "".join(" %d" % v for v in l)) for l in listed))


def search(ctx, hints):
    fails = []
    for L in list(range(0, 400)) + [1000, 10 ** 6]:
        i = real_classify(L)
        if i != expected_classify(L):
            fails.append({"input": {"stream": "classify", "L": L}, "observed": i, "required": expected_classify(L)})
    rnd = ctx.rng("search")
    for k in range(1500):
        q, fs = rnd.random() < 0.5, gen_files(rnd)
        nm = gen_names(rnd, fs) if k % 3 == 2 else None
        i = real_check(q, fs, nm)
        exp = expected_check(q, kept(fs, nm))
        if exp.split()[2] == "0":
            i, exp = " ".join(i.split()[:3]), " ".join(exp.split()[:3])
        if i != exp:
            fails.append({"input": dict({"stream": "check", "quiet": q, "files": fs}, **({"names": nm} if nm else {})), "observed": i, "required": exp})
    fails.sort(key=lambda f: len(str(f["input"])))
    return fails[:20]


def replay(payload):
    inp = payload["input"]
    if inp["stream"] == "cli-entry":
        obs = run_cli_case(inp)
        bad = cli_judge(inp, obs)
        print("codelimit.__main__.check(%s, exclude=%s, quiet=%s, verbose=%s) with .codelimit.yml=%r, function lengths %s" % (
            inp["args"], inp["exclude"], inp["quiet"], inp["verbose"], inp["config"], inp["files"]))
        for o in obs:
            print("exit %s, printed %r" % (o["code"], o["out"][:400]))
        print("violated: %s" % (bad or "nothing"))
        return not bad
    if inp["stream"] == "codebase-growth":
        bad = run_growth_case(inp)
        print("Codebase.add_file for %s, figures read after %s files" % (inp["files"], inp["read_after"]))
        print("violated: %s" % (bad or "nothing"))
        return not bad
    if inp["stream"] == "scan-history":
        bad = run_history_case(inp)
        print("files %s, then %s (%s, Configuration.verbose=%s)" % (inp["files"], inp["steps"], inp.get("entry", "scan_path"), bool(inp.get("verbose"))))
        print("violated: %s" % (bad or "nothing"))
        return not bad
    if inp["stream"] == "classify":
        i = real_classify(inp["L"])
        print("L=%d -> %s (required %s)" % (inp["L"], i, expected_classify(inp["L"])))
        return i == expected_classify(inp["L"])
    if inp.get("names_checked_earlier_in_this_process"):
        h = inp["names_checked_earlier_in_this_process"]
        print("earlier in the same process: check on files named %s" % h)
        real_check(False, [[1]] * len(h), h)
    i = real_check(inp["quiet"], inp["files"], inp.get("names"))
    exp = expected_check(inp["quiet"], kept(inp["files"], inp.get("names")))
    print("check quiet=%s files=%s%s -> %s (required %s)" % (inp["quiet"], inp["files"], " named %s (each in its own directory)" % inp["names"] if inp.get("names") else "", i, exp))
    if exp.split()[2] == "0":
        i, exp = " ".join(i.split()[:3]), " ".join(exp.split()[:3])
    return i == exp


# ------------------------------------------------------------------ stream `cli-entry`: the CLI entry function, fresh processes,
# configuration variants (.codelimit.yml verbose / exclude, --verbose, --exclude, --quiet), real source files

CLI_FILES = ["a.py", "web/b.js", "src/c.c", "src/deep/d.ts", "e.cpp", "lib/f.py", "notes.txt"]
CLI_CLASSES = {"clean": [1, 3, 14, 15, 16, 29, 30], "warn": [31, 32, 45, 59, 60], "alarm": [61, 62, 75, 200]}
CLI_CONFIGS = [None, "verbose: true\n", "verbose: false\n", "exclude:\n- web/\n", "verbose: true\nexclude:\n- '*.c'\n"]
_CLI_LINE = re.compile(r"^(.*?):(\d+):(\d+): (\d+) (\S+) (.*)$")


def cli_source(name, lengths):
    """a source file whose i-th function `u<i>` is exactly lengths[i] lines long (first line known by construction)"""
    import select_real as sel
    lang = sel.expected_language(os.path.basename(name))      # by extension or by the whole name (BUILD, SConscript, x.hh, x.mjs)
    parts = []
    for i, n in enumerate(lengths):
        marked, n = n < 0, abs(n)      # a NEGATIVE length: the function carries a suppression marker (`nocl` comment on its header line) - not analysed
        if lang == "Python":
            t = sel.py_function("u%d" % i, max(n, 2)) if n > 1 else "def u%d(a): return a\n" % i
            mark = "  " + MARKERS_HASH[(i + n) % len(MARKERS_HASH)]
        elif lang in ("JavaScript", "TypeScript"):
            t = sel.brace_function("function u%d(a)" % i, max(n, 2)) if n > 1 else "function u%d(a) { return a; }\n" % i
            mark = " " + MARKERS_SLASH[(i + n) % len(MARKERS_SLASH)]
        elif lang in ("C", "C++"):
            t = sel.brace_function("int u%d(int a)" % i, max(n, 2)) if n > 1 else "int u%d(int a) { return a; }\n" % i
            mark = " " + MARKERS_SLASH[(i + n) % len(MARKERS_SLASH)]
        else:
            t, marked = "text %d\n" % i, False
        if marked:
            head, rest = t.split("\n", 1)
            t = head + mark + "\n" + rest
        parts.append(t)
    return "\n".join(parts)


MARKERS_HASH = ["# nocl", "#nocl", "# NOCL", "# nocl: generated"]
MARKERS_SLASH = ["// nocl", "//nocl", "/* NOCL */", "// NoCL generated code"]
MARKED_LENGTHS = [31, 45, 60, 61, 75, 200]


def live(ls):
    """the lengths of the functions that are analysed (a negative entry = function with a suppression marker)"""
    return [v for v in ls if v >= 0]


def cli_pool_names(rnd):
    """(a file name from the Pygments-derived pool whose language Code Limit supports - whole-name patterns twice as often -,
    names with the same suffix that are no source files)"""
    import select_real as sel
    pools = sel.name_pools()
    cands = [fn for fn, lang in pools["lang"] if lang not in ("Java", "C#")]
    whole = [fn for fn in cands if not fn.startswith("unit.")]
    fn = rnd.choice(whole) if whole and rnd.random() < 0.65 else rnd.choice(cands)
    ext = os.path.splitext(fn)[1]
    sib = list(pools["siblings"].get(fn) or []) or (["defs" + ext, "notes" + ext] if ext and sel.expected_language("defs" + ext) is None else [])
    return sel.pool_stem(rnd, fn), sib


def gen_cli_case(rnd, quiet, verbose_how, cls, form, named=None):
    """verbose_how: none | option | config-true | config-false; cls: clean | warn | alarm; form: files | dot | dirs;
    named: None | sorted | reversed | shuffled - the tree also holds a file whose language follows from a Pygments
    extension / whole-name pattern outside the classic pool (it carries the long function) and same-suffix names that
    are no source files, in one directory; file arguments in alphabetical (pre-commit, shell globs), reverse or random order"""
    names = rnd.sample(CLI_FILES, rnd.choice([1, 2, 3, 4]))
    files = {}
    for n in names:
        files[n] = [rnd.choice(CLI_CLASSES["clean"]) for _ in range(rnd.choice([0, 1, 2, 3]))]
    src = [n for n in names if not n.endswith(".txt")]
    if named:
        fn, sib = cli_pool_names(rnd)
        d = rnd.choice(["", "", "src/", "lib/"])
        files[d + fn] = [rnd.choice(CLI_CLASSES["clean"]) for _ in range(rnd.choice([0, 1]))]
        for x in rnd.sample(sib, min(len(sib), rnd.choice([1, 2, 3]))):
            files[d + x] = [1, 2]
        src = [d + fn] * 3 + src
    if cls != "clean" and not src:
        src = ["a.py"]; files["a.py"] = []
    if cls != "clean":
        files[src[0] if named else rnd.choice(src)].append(rnd.choice(CLI_CLASSES[cls]))
        if rnd.random() < 0.5:
            files[rnd.choice(src)].append(rnd.choice(CLI_CLASSES["warn"]))
    if src and rnd.random() < 0.4:
        # a function longer than 30 / 60 lines with a suppression marker: scan, findings and the counters leave it out, so must check
        files[rnd.choice(src)].append(-rnd.choice(MARKED_LENGTHS))
    for n in files:
        rnd.shuffle(files[n])
    config = {"none": rnd.choice([None, None, "exclude:\n- web/\n"]), "option": rnd.choice([None, "verbose: false\n"]),
              "config-true": rnd.choice(["verbose: true\n", "verbose: true\nexclude:\n- '*.c'\n"]), "config-false": "verbose: false\n"}[verbose_how]
    exclude = [rnd.choice(["lib/", "*.ts", "e.cpp"])] if rnd.random() < 0.2 else []
    if form == "files":
        args = sorted(files)
        if named == "reversed":
            args.reverse()
        elif named != "sorted":
            rnd.shuffle(args)
    elif form == "dot":
        args = ["."]
    else:
        args = sorted({n.split("/")[0] for n in files})
    return {"stream": "cli-entry", "files": files, "config": config, "quiet": quiet, "verbose": verbose_how == "option",
            "exclude": exclude, "args": args, "calls": 2 if rnd.random() < 0.15 else 1}


def cli_expected(case):
    """the property text on this invocation: which files are checked, what is listed, the summary, the exit
    code, and whether anything may be printed at all"""
    import select_real as sel
    pats = list(case["exclude"])
    if case["config"] and "exclude" in case["config"]:
        pats += [l.strip()[2:].strip().strip("'") for l in case["config"].splitlines() if l.strip().startswith("- ")]
    checked = {}
    for a in case["args"]:
        for n in sorted(case["files"]):
            if not (a == "." or n == a or n.startswith(a + "/")) or sel.expected_language(os.path.basename(n)) is None:
                continue
            if sel.spec_excluded(n.split("/"), pats):
                continue
            line, rows = 1, []
            for i, L in enumerate(case["files"][n]):
                rows.append([n, line, L, "u%d" % i])
                line += max(abs(L), 1) + 1
            checked[n] = sorted([r for r in rows if r[2] > 30], key=lambda r: -r[2])
    total = sum(len(v) for v in checked.values())
    code = 1 if any(r[2] > 60 for v in checked.values() for r in v) else 0
    silent = case["quiet"] and total == 0
    return {"checked": checked, "total": total, "code": code, "silent": silent}


def run_cli_case(case):
    """-> list of per-call observations {code, error, out}"""
    import shutil
    import subprocess
    import json as _json
    tmp = os.path.realpath(tempfile.mkdtemp(prefix="c02cli_"))
    root = os.path.join(tmp, "root")
    try:
        for n, lengths in case["files"].items():
            os.makedirs(os.path.dirname(os.path.join(root, n)) or root, exist_ok=True)
            with open(os.path.join(root, n), "w") as f:
                f.write(cli_source(n, lengths))
        os.makedirs(root, exist_ok=True)
        if case["config"] is not None:
            with open(os.path.join(root, ".codelimit.yml"), "w") as f:
                f.write(case["config"])
        call = {"paths": case["args"], "exclude": case["exclude"], "quiet": case["quiet"], "verbose": case["verbose"]}
        job = os.path.join(tmp, "job.json")
        with open(job, "w") as f:
            _json.dump({"root": root, "calls": [call] * case.get("calls", 1)}, f)
        env = dict(os.environ, COLUMNS="300", PYTHONHASHSEED="0")
        env.pop("PYTHONWARNINGS", None)
        env["PYTHONWARNINGS"] = "ignore"
        p = subprocess.run([sys.executable, os.path.join(common.VERIF, "harness", "c02_cli_worker.py"), job],
                           stdout=subprocess.PIPE, stderr=subprocess.STDOUT, text=True, env=env, timeout=300)
        chunks = p.stdout.split("\x1e\x1eC02-CALL-END ")
        obs = []
        for k in range(len(chunks) - 1):
            out = chunks[k] if k == 0 else chunks[k].split("\n", 1)[1] if "\n" in chunks[k] else ""
            meta = _json.loads(chunks[k + 1].split("\n", 1)[0])
            obs.append({"code": meta["code"], "error": meta["error"], "out": out})
        if len(obs) != case.get("calls", 1):
            obs.append({"code": None, "error": "worker exited with %s: %s" % (p.returncode, p.stdout[-400:]), "out": ""})
        return obs
    finally:
        shutil.rmtree(tmp, ignore_errors=True)


def cli_judge(case, obs):
    exp = cli_expected(case)
    bad = []
    for k, o in enumerate(obs):
        tag = "" if k == 0 else "call %d in the same process: " % (k + 1)
        if o["error"]:
            bad.append(tag + "check raised " + o["error"]); continue
        if o["code"] != exp["code"]:
            bad.append(tag + "exit status %s, required %d" % (o["code"], exp["code"]))
        if exp["silent"]:
            if o["out"].strip():
                bad.append(tag + "--quiet and no function longer than 30 lines: nothing may be printed, but the command printed %r" % o["out"][:300])
            continue
        got, count, sparkles = {}, None, False
        for line in o["out"].splitlines():
            m = _CLI_LINE.match(line)
            if m and not line.startswith("["):
                got.setdefault(m.group(1), []).append([m.group(1), int(m.group(2)), int(m.group(4)), m.group(6).rstrip()])   # the column is not C02's business
                continue
            m2 = re.match(r"^(\d+) files checked, (?:(\d+) functions need refactoring|.*Refactoring not necessary)", line)
            if m2:
                files_checked = int(m2.group(1))
                count = int(m2.group(2)) if m2.group(2) else 0
                sparkles = m2.group(2) is None
                if files_checked != len(exp["checked"]):
                    bad.append(tag + "%d files checked, required %d" % (files_checked, len(exp["checked"])))
        want = {n: v for n, v in exp["checked"].items() if v}
        if got != want:
            bad.append(tag + "listed %s, required %s" % ([r for v in got.values() for r in v][:5], [r for v in want.values() for r in v][:5]))
        if count is None:
            bad.append(tag + "no summary line in %r" % o["out"][-200:])
        elif count != exp["total"] or sparkles != (exp["total"] == 0):
            bad.append(tag + "summary counts %d functions, required %d" % (count, exp["total"]))
    return bad


def cli_entry_stream(ctx):
    from concurrent.futures import ThreadPoolExecutor
    rnd = ctx.rng("cli-entry")
    cases = []
    for quiet in (True, False):
        for how in ("none", "option", "config-true", "config-false"):
            for cls in ("clean", "warn", "alarm"):
                for form in ("files", "dot"):
                    cases.append(gen_cli_case(rnd, quiet, how, cls, form))
    for _ in range(ctx.pick(8, 400)):
        cases.append(gen_cli_case(rnd, rnd.random() < 0.7, rnd.choice(["none", "option", "config-true", "config-false"]),
                                  rnd.choice(["clean", "clean", "warn", "alarm"]), rnd.choice(["files", "dot", "dirs"])))
    rn = ctx.rng("cli-entry-names")
    for quiet in (True, False):
        for cls in ("warn", "alarm"):
            for form, named in (("files", "sorted"), ("files", "reversed"), ("dot", "shuffled")):
                cases.append(gen_cli_case(rn, quiet, "none", cls, form, named))
    for _ in range(ctx.pick(4, 200)):
        cases.append(gen_cli_case(rn, rn.random() < 0.5, rn.choice(["none", "option", "config-true"]), rn.choice(["clean", "warn", "alarm"]),
                                  rn.choice(["files", "files", "dot", "dirs"]), rn.choice(["sorted", "reversed", "shuffled"])))
    with ThreadPoolExecutor(max_workers=14) as ex:
        observed = list(ex.map(run_cli_case, cases))
    fails = []
    stats = {"processes": len(cases), "calls": 0, "quiet": 0, "verbose_on": 0, "must_be_silent": 0, "second_call_in_process": 0,
             "with_exclusions": 0, "exit_1": 0, "with_pool_named_file_and_same_suffix_non_sources": 0,
             "with_marked_function_longer_than_30": 0, "with_marked_function_longer_than_60": 0}
    for c, obs in zip(cases, observed):
        stats["with_pool_named_file_and_same_suffix_non_sources"] += 1 if any(
            sel_lang(os.path.basename(n)) is None and not n.endswith(".txt") for n in c["files"]) else 0
        bad = cli_judge(c, obs)
        exp = cli_expected(c)
        stats["with_marked_function_longer_than_30"] += 1 if any(v < -30 for l in c["files"].values() for v in l) else 0
        stats["with_marked_function_longer_than_60"] += 1 if any(v < -60 for l in c["files"].values() for v in l) else 0
        stats["calls"] += len(obs)
        stats["quiet"] += 1 if c["quiet"] else 0
        stats["verbose_on"] += 1 if (c["verbose"] or (c["config"] or "").startswith("verbose: true")) else 0
        stats["must_be_silent"] += 1 if exp["silent"] else 0
        stats["second_call_in_process"] += 1 if c["calls"] > 1 else 0
        stats["with_exclusions"] += 1 if (c["exclude"] or "exclude" in (c["config"] or "")) else 0
        stats["exit_1"] += exp["code"]
        if bad:
            fails.append({"input": c, "observed": [{"code": o["code"], "out": o["out"][:400]} for o in obs], "required": bad[:5]})
    fails.sort(key=lambda f: len(str(f["input"])))
    return fails, stats


# ------------------------------------------------------------------ stream `scan-history`: state probe for the counters. A tree of
# real source files (function lengths known by construction) is scanned, changed (a file copied / renamed to the sibling
# language of the same text: .js <-> .ts, .c <-> .cpp; rewritten; deleted) and scanned AGAIN with the first report handed
# back as cached_report (what `codelimit scan` does on every run but the first). The per-language counters, the findings
# list and `check .` must be those of the files as they are now.

FAMILY = {".js": [".js", ".ts"], ".ts": [".js", ".ts"], ".c": [".c", ".cpp"], ".cpp": [".c", ".cpp"], ".py": [".py"]}
HIST_LANG = {".py": "Python", ".js": "JavaScript", ".ts": "TypeScript", ".c": "C", ".cpp": "C++"}
HIST_DIRS = ["", "web", "src", "src/deep", "lib"]
HIST_STEMS = ["app", "core", "util", "main", "api"]


def gen_history_case(rnd, preserving=None):
    files = {}
    for _ in range(rnd.choice([2, 3, 4, 5])):
        d = rnd.choice(HIST_DIRS)
        name = (d + "/" if d else "") + rnd.choice(HIST_STEMS) + rnd.choice(list(HIST_LANG))
        files[name] = [rnd.choice(BOUNDARY + [3, 45, 75, 120]) for _ in range(rnd.choice([1, 2, 3]))]
        if rnd.random() < 0.2:
            files[name].insert(rnd.randrange(len(files[name]) + 1), -rnd.choice(MARKED_LENGTHS))     # function with a suppression marker
    steps = []
    cur = dict(files)
    entry = rnd.choice(["scan_path", "scan_path", "scan_codebase", "scan_command", "scan_command"])
    if preserving is None:
        preserving = rnd.random() < 0.4
    if preserving:
        # totals-preserving history: every per-language total (files, lines of code, functions, 31..60, > 60) stays as it
        # is while the functions behind the numbers change
        for _ in range(rnd.choice([1, 1, 2])):
            steps += preserving_steps(rnd, cur)
        if steps:
            return {"stream": "scan-history", "files": files, "steps": steps, "verbose": rnd.random() < 0.5, "entry": entry,
                    "totals_preserving": True}
    for _ in range(rnd.choice([1, 2, 2, 3])):
        r = rnd.random()
        names = sorted(cur)
        if r < 0.5 and names:
            src = rnd.choice(names)
            stem, ext = os.path.splitext(src)
            d = rnd.choice(HIST_DIRS) if rnd.random() < 0.3 else os.path.dirname(src)
            dst = (d + "/" if d else "") + os.path.basename(stem) + rnd.choice(FAMILY[ext])
            if dst in cur:
                continue
            op = rnd.choice(["copy", "move"])
            steps.append([op, src, dst]); cur[dst] = list(cur[src])
            if op == "move":
                del cur[src]
        elif r < 0.8 and names:
            dst = rnd.choice(names)
            cur[dst] = [rnd.choice(BOUNDARY + [3, 45, 75]) for _ in range(rnd.choice([0, 1, 2]))]
            # the new content may arrive with an old modification time (backup, `cp -p`, archive, other checkout)
            when = rnd.choice([None, None, "keep", 7200, 86400 * 400])
            steps.append(["write", dst, list(cur[dst])] + ([when] if when is not None else []))
        elif names and len(names) > 1:
            src = rnd.choice(names)
            steps.append(["delete", src]); del cur[src]
    return {"stream": "scan-history", "files": files, "steps": steps, "verbose": rnd.random() < 0.5, "entry": entry}


CAT_RANGE = [(3, 15), (16, 30), (31, 60), (61, 100000)]      # 3: shortest function the history generator writes (a one- or two-line function is not a canonical body)


def preserving_steps(rnd, cur):
    """`write` steps that keep every per-language total: the lengths of one language's functions are permuted over their
    positions (two functions trade places across a threshold, a long function moves to another file), or n lines move from
    one function to another while both stay in their categories (40 -> 35, 61 -> 66). `cur` is updated."""
    by_lang = {}
    for n in sorted(cur):
        for i, v in enumerate(cur[n]):
            if v > 0:
                by_lang.setdefault(HIST_LANG[os.path.splitext(n)[1]], []).append((n, i))
    langs = [l for l, pos in sorted(by_lang.items()) if len(pos) >= 2]
    if not langs:
        return []
    pos = by_lang[rnd.choice(langs)]
    new = {n: list(ls) for n, ls in cur.items()}
    if rnd.random() < 0.6:
        vals = [cur[n][i] for n, i in pos]
        for _ in range(5):
            rnd.shuffle(vals)
            if vals != [cur[n][i] for n, i in pos]:
                break
        for (n, i), v in zip(pos, vals):
            new[n][i] = v
    else:
        (n1, i1), (n2, i2) = rnd.sample(pos, 2)
        v1, v2 = cur[n1][i1], cur[n2][i2]
        room = min(v1 - CAT_RANGE[cat(v1)][0], CAT_RANGE[cat(v2)][1] - v2, 9)
        if room < 1:
            return []
        d = rnd.randint(1, room)
        new[n1][i1], new[n2][i2] = v1 - d, v2 + d
    steps = []
    for n in sorted(new):
        if new[n] != cur[n]:
            when = rnd.choice([None, None, None, "keep"])
            steps.append(["write", n, list(new[n])] + ([when] if when is not None else []))
            cur[n] = new[n]
    return steps


def history_after(case):
    cur = {k: list(v) for k, v in case["files"].items()}
    for st in case["steps"]:
        if st[0] in ("copy", "move"):
            cur[st[2]] = list(cur[st[1]])
            if st[0] == "move":
                del cur[st[1]]
        elif st[0] == "write":
            cur[st[1]] = list(st[2])
        else:
            del cur[st[1]]
    return cur


def counters_expected(files):
    out = {}
    for n, ls in files.items():
        t = out.setdefault(HIST_LANG[os.path.splitext(n)[1]], {"files": 0, "functions": 0, "hard_to_maintain": 0, "unmaintainable": 0})
        t["files"] += 1; t["functions"] += len(live(ls))
        t["hard_to_maintain"] += sum(1 for v in ls if 30 < v <= 60)
        t["unmaintainable"] += sum(1 for v in ls if v > 60)
    return out


def findings_expected(files):
    return sorted((n, "u%d" % i, v) for n, ls in files.items() for i, v in enumerate(ls) if v > 30)


def observe_codebase(cb, aggregate=True):
    from codelimit.common.report.Report import Report
    if aggregate:
        cb.aggregate()
    totals = {l: {"files": t.files, "functions": t.functions, "hard_to_maintain": t.hard_to_maintain, "unmaintainable": t.unmaintainable}
              for l, t in cb.totals.items()}
    units = sorted((u.file, u.measurement.unit_name, u.measurement.value) for u in Report(cb).all_report_units_sorted_by_length_asc(30))
    return totals, units


def profile_expected(files):
    """the LOC-weighted quality profile, the lines of code, the number of functions and the average - from the lengths"""
    ls = [v for l in files.values() for v in live(l)]
    prof = [0, 0, 0, 0]
    for v in ls:
        prof[cat(v)] += v
    return {"profile": prof, "loc": sum(ls), "functions": len(ls), "average": -(-sum(ls) // len(ls)) if ls else 0}


def observe_profile(cb):
    """what the Summary of `codelimit scan` / a report is computed from"""
    from codelimit.common.report.Report import Report
    r = Report(cb)
    return {"profile": list(r.quality_profile()), "loc": cb.total_loc(), "functions": len(cb.all_measurements()), "average": r.get_average()}


def write_files(root, files, only=None):
    for n, ls in files.items():
        if only is not None and n not in only:
            continue
        os.makedirs(os.path.dirname(os.path.join(root, n)) or root, exist_ok=True)
        with open(os.path.join(root, n), "w") as f:
            f.write(cli_source(n, ls))


def run_history_case(case):
    """scan, change the tree, scan again with the first report handed back (as `codelimit scan` does) -> violated clauses"""
    import shutil
    import select_real as sel
    tmp = os.path.realpath(tempfile.mkdtemp(prefix="c02hist_"))
    root = os.path.join(tmp, "root")
    os.makedirs(root)
    cwd = os.getcwd()
    bad = []
    try:
        sel.reset_configuration()
        from codelimit.common.Configuration import Configuration
        Configuration.verbose = bool(case.get("verbose"))        # `codelimit scan --verbose` / `verbose: true` in .codelimit.yml
        how = "%s, Configuration.verbose=%s" % ("scan_command, then the report that findings / report read from .codelimit_cache/codelimit.json"
                                                if case.get("entry") == "scan_command" else case.get("entry", "scan_path"), bool(case.get("verbose")))

        def scan(cached_report=None):
            if case.get("entry") == "scan_command":
                # the command function behind `codelimit scan` (reads and writes .codelimit_cache/codelimit.json itself);
                # observed is what `codelimit findings` / `codelimit report` read afterwards
                from pathlib import Path
                from rich.console import Console
                from codelimit.commands.scan import scan_command
                from codelimit.utils import read_report, make_report_path
                with contextlib.redirect_stdout(io.StringIO()), contextlib.redirect_stderr(io.StringIO()):
                    scan_command(Path(root))
                return read_report(make_report_path(Path(root)), Console(file=io.StringIO())).codebase
            if case.get("entry") == "scan_codebase":         # what scan_command calls (progress table, callbacks)
                from pathlib import Path
                from codelimit.common import Scanner
                with contextlib.redirect_stdout(io.StringIO()), contextlib.redirect_stderr(io.StringIO()):
                    return Scanner.scan_codebase(Path(root), cached_report)
            return sel.run_scan_cb(root, cached_report)[2]
        write_files(root, case["files"])
        os.chdir(tmp)
        cb1 = scan()
        p1 = observe_profile(cb1)                # read BEFORE anything else touches the code base object
        if p1 != profile_expected(case["files"]):
            bad.append("first scan (%s): quality profile / lines of code / functions / average %s, required %s" % (how, p1, profile_expected(case["files"])))
        cached = sel.as_cached_report(cb1)
        t1, u1 = observe_codebase(cb1, aggregate=False)
        if t1 != counters_expected(case["files"]) or u1 != findings_expected(case["files"]):
            bad.append("first scan: counters %s findings %s, required %s %s" % (t1, u1, counters_expected(case["files"]), findings_expected(case["files"])))
        from_file = case.get("entry") == "scan_command"      # a code base read back from the report: aggregated by the reader, folder profiles are not part of the file
        root_profile = list(cb1.tree["./"].profile)
        if not from_file and root_profile != profile_expected(case["files"])["profile"]:
            bad.append("first scan (%s): profile of the root folder %s, required %s" % (how, root_profile, profile_expected(case["files"])["profile"]))
        for st in case["steps"]:
            if st[0] == "copy":
                os.makedirs(os.path.dirname(os.path.join(root, st[2])), exist_ok=True)
                shutil.copyfile(os.path.join(root, st[1]), os.path.join(root, st[2]))
            elif st[0] == "move":
                os.makedirs(os.path.dirname(os.path.join(root, st[2])), exist_ok=True)
                os.rename(os.path.join(root, st[1]), os.path.join(root, st[2]))
            elif st[0] == "write":
                import time
                old = os.stat(os.path.join(root, st[1])).st_mtime
                write_files(root, {st[1]: st[2]})
                when = st[3] if len(st) > 3 else None
                if when == "keep":
                    os.utime(os.path.join(root, st[1]), (old, old))
                elif when is not None:
                    os.utime(os.path.join(root, st[1]), (time.time() - when, time.time() - when))
            else:
                os.unlink(os.path.join(root, st[1]))
        after = history_after(case)
        cb2 = scan(cached)
        p2 = observe_profile(cb2)
        if p2 != profile_expected(after):
            bad.append("second scan (first report handed back; %s): quality profile / lines of code / functions / average %s, required %s" % (how, p2, profile_expected(after)))
        t2, u2 = observe_codebase(cb2, aggregate=not from_file)
        if not from_file and list(cb2.tree["./"].profile) != profile_expected(after)["profile"]:
            bad.append("second scan (%s): profile of the root folder %s, required %s" % (how, list(cb2.tree["./"].profile), profile_expected(after)["profile"]))
        if t2 != counters_expected(after):
            bad.append("second scan (first report handed back; %s): per-language counters %s, required %s" % (how, t2, counters_expected(after)))
        if u2 != findings_expected(after):
            bad.append("second scan (first report handed back; %s): findings %s, required %s" % (how, u2, findings_expected(after)))
        # the check command on the same files must raise the alarm for the same functions
        os.chdir(root)
        r = sel.run_check(["."])
        listed = sorted((l[0], l[4], l[3]) for l in r["listed"])
        if listed != findings_expected(after) or r["code"] != (1 if any(v > 60 for ls in after.values() for v in ls) else 0):
            bad.append("check . lists %s (exit %s), required %s" % (listed, r["code"], findings_expected(after)))
    except Exception as e:
        bad.append("raised %s: %s" % (type(e).__name__, e))
    finally:
        os.chdir(cwd)
        sel.reset_configuration()
        shutil.rmtree(tmp, ignore_errors=True)
    return bad



def scan_history_stream(ctx):
    rnd = ctx.rng("scan-history")
    cases = [gen_history_case(rnd) for _ in range(ctx.pick(30, 300))]
    cases += [gen_history_case(rnd, True) for _ in range(ctx.pick(16, 200))]
    fails = []
    stats = {"histories": len(cases), "steps": {}, "totals_preserving": sum(1 for c in cases if c.get("totals_preserving")),
             "through_scan_command_observed_in_the_written_report": sum(1 for c in cases if c["entry"] == "scan_command"),
             "totals_preserving_through_scan_command": sum(1 for c in cases if c.get("totals_preserving") and c["entry"] == "scan_command"),
             "with_marked_function": sum(1 for c in cases if any(v < 0 for l in c["files"].values() for v in l)), "renamed_to_other_language": 0, "verbose": sum(1 for c in cases if c["verbose"]),
             "through_scan_codebase": sum(1 for c in cases if c["entry"] == "scan_codebase"),
             "rewritten_with_old_mtime": sum(1 for c in cases for st in c["steps"] if st[0] == "write" and len(st) > 3)}
    for c in cases:
        for st in c["steps"]:
            stats["steps"][st[0]] = stats["steps"].get(st[0], 0) + 1
            if st[0] in ("copy", "move") and os.path.splitext(st[1])[1] != os.path.splitext(st[2])[1]:
                stats["renamed_to_other_language"] += 1
        bad = run_history_case(c)
        if bad:
            fails.append({"input": c, "observed": bad[:3], "required": "quality profile, per-language hard-to-maintain / unmaintainable counters, findings (> 30) and check agree with the function lengths of the files as they are now"})
    fails.sort(key=lambda f: len(str(f["input"])))
    return fails, stats


# ------------------------------------------------------------------ stream `codebase-growth`: query before complete. One Codebase
# object is filled file by file (as scan_path does); after EVERY prefix everything the outputs are computed from is read
# (quality profile, lines of code, average, counters, findings) and must be that of the files added so far.

def gen_growth_case(rnd):
    files = []
    for i in range(rnd.choice([2, 3, 4, 6])):
        ext = rnd.choice(list(HIST_LANG))
        files.append(["%s%s%d%s" % (rnd.choice(["", "src/", "src/deep/"]), rnd.choice(HIST_STEMS), i, ext),
                      [rnd.choice(BOUNDARY + [3, 45, 75, 120]) for _ in range(rnd.choice([0, 1, 2, 3]))]])
    reads = sorted(set(rnd.sample(range(1, len(files) + 1), rnd.choice([1, 2]))) | {len(files)})
    return {"stream": "codebase-growth", "files": files, "read_after": reads}


def run_growth_case(case):
    from codelimit.common.Codebase import Codebase
    from codelimit.common.Location import Location
    from codelimit.common.Measurement import Measurement
    from codelimit.common.SourceFileEntry import SourceFileEntry
    bad = []
    try:
        cb = Codebase("/r")
        for k, (name, ls) in enumerate(case["files"]):
            line, ms = 1, []
            for i, v in enumerate(ls):
                ms.append(Measurement("u%d" % i, Location(line, 1), Location(line + v - 1, 2), v)); line += v + 1
            cb.add_file(SourceFileEntry(name, "c%d" % k, HIST_LANG[os.path.splitext(name)[1]], sum(ls), ms))
            if k + 1 in case["read_after"]:
                sofar = {n: l for n, l in case["files"][:k + 1]}
                got = observe_profile(cb)
                if got != profile_expected(sofar):
                    bad.append("after %d of %d files: quality profile / lines of code / functions / average %s, required %s" % (k + 1, len(case["files"]), got, profile_expected(sofar)))
                t, u = observe_codebase(cb, aggregate=False)
                if t != counters_expected(sofar) or u != findings_expected(sofar):
                    bad.append("after %d of %d files: counters %s findings %s, required %s %s" % (k + 1, len(case["files"]), t, u, counters_expected(sofar), findings_expected(sofar)))
    except Exception as e:  # noqa: BLE001
        bad.append("raised %s: %s" % (type(e).__name__, e))
    return bad


def growth_stream(ctx):
    rnd = ctx.rng("codebase-growth")
    cases = [gen_growth_case(rnd) for _ in range(ctx.pick(300, 5000))]
    fails = []
    for c in cases:
        bad = run_growth_case(c)
        if bad:
            fails.append({"input": c, "observed": bad[:3], "required": "every figure is that of the files added so far"})
    fails.sort(key=lambda f: len(str(f["input"])))
    return fails, {"cases": len(cases), "reads_before_complete": sum(len(c["read_after"]) - 1 for c in cases)}


def correspond(ctx):
    """real check_command / CheckResult.report output lines (path as printed from any working directory, position, length, symbol, summary) vs Model/CheckPrint.lean (Props/Gaps.lean part 3)"""
    import gaps_stream
    res = _correspond_main(ctx)
    dis, counts = gaps_stream.for_check(ctx, (3,), ctx.pick(250, 4000), 'print')
    res["disagreements"] = list(res["disagreements"]) + dis
    res["evaluations"] += sum(v.get(k, 0) for v in counts.values() if isinstance(v, dict)
                              for k in ("texts", "byte_files", "check_command_runs", "report_runs", "cases"))
    res["distribution"] = dict(res.get("distribution", {}), gaps=counts)
    cfails, cstats = cli_entry_stream(ctx)
    res["oracle_failures"] = cfails[:10] + list(res["oracle_failures"])
    res["evaluations"] += cstats["calls"]
    res["distribution"]["cli_entry"] = cstats
    res["rule"] += " PLUS cli-entry: the CLI entry function codelimit.__main__.check(paths, exclude, quiet, verbose) in %d fresh interpreters on real source files (functions of exact lengths incl. 15/16, 30/31, 60/61): the full product quiet x (verbose off / --verbose / .codelimit.yml verbose true / false) x (no function > 30 / some in 31..60 / some > 60) x (file arguments / `.`) + random invocations (directory arguments, --exclude, config exclude, the same call twice in one process) + %d invocations on trees with a file named from the Pygments-derived pools (BUILD, BUCK, SConscript, BUILD.bazel, x.hh, x.mjs, ... - it carries the long function) next to same-suffix names that are no source files (AUTHORS, LICENSE, Makefile, defs.bazel), file arguments in alphabetical / reverse / random order, `.` and directory arguments; stdout+stderr, listing, summary and exit status judged by the property text" % (cstats["processes"], cstats["with_pool_named_file_and_same_suffix_non_sources"])
    hfails, hstats = scan_history_stream(ctx)
    res["oracle_failures"] = hfails[:5] + list(res["oracle_failures"])
    res["evaluations"] += hstats["histories"]
    res["distribution"]["scan_history"] = hstats
    res["rule"] += " PLUS scan-history: %d histories scan -> change (copy / rename to the sibling language of the same text, rewrite, delete) -> scan again with the first report handed back: per-language counters, findings and `check .` judged by the lengths the files have now" % hstats["histories"]
    gfails, gstats = growth_stream(ctx)
    res["oracle_failures"] = list(res["oracle_failures"][:8]) + gfails[:3] + list(res["oracle_failures"][8:])
    res["evaluations"] += gstats["cases"]
    res["distribution"]["codebase_growth"] = gstats
    res["rule"] += "; each history runs under Configuration.verbose on or off (%d on) and through scan_path or scan_codebase (%d), rewritten files partly keep / get an OLD modification time (%d), and the LOC-weighted quality profile, lines of code, number of functions, average and the root folder's profile are judged as well, the profile read first; %d histories run through the command function scan_command (which reads and writes .codelimit_cache/codelimit.json itself) and are judged on the report that `findings` / `report` read back from that file; %d histories are totals-preserving (the lengths of one language's functions permuted over their positions / files, or n lines moved between two functions within their categories: every per-language total stays while findings and the profile change; %d of them through scan_command); functions with a `nocl` marker on the header line (any spelling; negative lengths in the inputs) are in %d histories and %d cli-entry invocations (%d with a marked function longer than 60 lines): they are not analysed - not listed, not counted, no exit status 1; PLUS codebase-growth: %d Codebase objects filled file by file, every figure read after a prefix (%d reads before completion) and at the end" % (hstats["verbose"], hstats["through_scan_codebase"], hstats["rewritten_with_old_mtime"], hstats["through_scan_command_observed_in_the_written_report"], hstats["totals_preserving"], hstats["totals_preserving_through_scan_command"], hstats["with_marked_function"], cstats["with_marked_function_longer_than_30"], cstats["with_marked_function_longer_than_60"], gstats["cases"], gstats["reads_before_complete"])
    res["rule"] += " PLUS real check_command / CheckResult.report output lines (path as printed from any working directory, position, length, symbol, summary) vs Model/CheckPrint.lean (Props/Gaps.lean part 3)"
    return res
