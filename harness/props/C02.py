"""C02 - length thresholds and the refactoring alarm are applied consistently.

Tie: (1) translator/logic.py regenerates Gen/Logic.lean from the source; Props/C02.lean proves
every generated comparison equal to the category definition; (2) the generated definitions
(compiled into the model driver) are compared with the real functions on every length in a
range (validates the translator); (3) the glue of check_command is compared with Model/Check
on multisets of lengths spread over files (scan_file is replaced by a stub that returns
measurements of the requested lengths)."""
import contextlib
import io
import os
import re
import sys
import tempfile

sys.path.insert(0, os.path.dirname(os.path.dirname(os.path.abspath(__file__))))
sys.path.insert(0, os.path.join(os.path.dirname(os.path.dirname(os.path.dirname(os.path.abspath(__file__)))), "translator"))
import common
import logic

ID = "C02"
TRUSTED = [
    "translator/logic.py (+ symtrace.py, sites.py: symbolic tracing of the real functions -> Lean for the integer decision logic; trusted parts listed in its header); its output is also exercised against the real functions for every length explored",
    "correspondence harness harness/props/C02.py; rich/typer output capture",
]
ASSUMPTIONS = ["function lengths are Python ints (the analysis only produces ints)"]
BOUNDARY = [14, 15, 16, 17, 29, 30, 31, 32, 59, 60, 61, 62]


def regen(ctx):
    try:
        text = logic.translate(common.REPO)
    except logic.Refuse as e:
        return [str(e)]
    common.write_if_changed(os.path.join(common.LEAN, "CodeLimit", "Gen", "Logic.lean"), text)
    return []


def real_classify(L):
    from codelimit.common import utils
    from codelimit.common.CheckResult import CheckResult
    from codelimit.common.Location import Location
    from codelimit.common.Measurement import Measurement
    from codelimit.common.SourceFileEntry import SourceFileEntry
    from codelimit.common.Codebase import Codebase
    from codelimit.common.report.Report import Report
    from codelimit.common.report import format_markdown, format_text
    from rich.console import Console
    m = Measurement("f", Location(1, 1), Location(2, 1), L)
    prof = utils.make_profile([m]); cprof = utils.make_count_profile([m])
    pb = [i for i in range(4) if prof[i] != 0] if L != 0 else None
    cb = cprof.index(1)
    if L == 0:
        pb = [cb]   # a zero-length measurement adds 0 to its bucket: not observable; use the count bucket
    elif len(pb) != 1 or prof[pb[0]] != L:
        return "bad-profile %s" % prof
    style = utils.get_style_for_measurement(L).color.name
    emoji = utils.get_emoji_for_measurement(L)
    unit = utils.format_unit("f", L)
    unit_color = unit.spans[0].style.color.name if unit.spans and hasattr(unit.spans[0].style, "color") else "?"
    for sp in unit.spans:
        if hasattr(sp.style, "color") and sp.style.color is not None:
            unit_color = sp.style.color.name
            break
    cr = CheckResult(); cr.add("p", [m])
    # check lists
    from codelimit.commands import check as checkmod
    lists = 1 if [x for x in [m] if _check_lists(x)] else 0
    cb_ = Codebase("/r"); cb_.add_file(SourceFileEntry("a.py", "c", "Python", L, [m])); cb_.aggregate()
    rep = Report(cb_)
    buf = io.StringIO(); format_text.print_findings(Console(file=buf, width=200), rep, True)
    keeps_t = 1 if buf.getvalue().strip() else 0
    buf = io.StringIO(); format_markdown.print_findings(rep, Console(file=buf, width=200), True)
    md = buf.getvalue()
    rows = [l for l in md.splitlines() if l.startswith("| a.py")]
    keeps_m = 1 if rows else 0
    mdx1 = 1 if rows and "❌" in rows[0] else 0
    from codelimit.common.GithubRepository import GithubRepository
    rep2 = Report(cb_, GithubRepository("o", "n", "b"))
    buf = io.StringIO(); format_markdown.print_findings(rep2, Console(file=buf, width=300), True)
    rows2 = [l for l in buf.getvalue().splitlines() if "github.com" in l]
    mdx2 = 1 if rows2 and "❌" in rows2[0] else 0
    # cross symbols are only observable on listed rows; model value is masked the same way below
    return "ok %d %d %s %s %s %d %d %d %d %d %d %d" % (pb[0], cb, style, emoji, unit_color, cr.hard_to_maintain, cr.unmaintainable,
                                                     lists, keeps_t, keeps_m, mdx1, mdx2)


_RISK_SRC = None


def _check_lists(m):
    """evaluate check_file's own risk filter on one measurement (through the real function)"""
    return bool(_run_check_file([m.value]))


def _run_check_file(lengths):
    from codelimit.commands import check as checkmod
    from codelimit.common.CheckResult import CheckResult
    from codelimit.common.Location import Location
    from codelimit.common.Measurement import Measurement
    ms = [Measurement("f%d" % i, Location(i + 1, 1), Location(i + 1, 9), v) for i, v in enumerate(lengths)]
    saved = (checkmod.scan_file, checkmod.lex, checkmod._read_file) if hasattr(checkmod, "_read_file") else (checkmod.scan_file, checkmod.lex, None)
    checkmod.scan_file = lambda tokens, language: list(ms)
    checkmod.lex = lambda lexer, code, fc=True: []
    if saved[2] is not None:
        checkmod._read_file = lambda path: ""
    try:
        cr = CheckResult()
        checkmod.check_file(_probe_path(), cr)
        return [m.value for (_, risks) in cr.file_list for m in risks]
    finally:
        checkmod.scan_file, checkmod.lex = saved[0], saved[1]
        if saved[2] is not None:
            checkmod._read_file = saved[2]


_probe = None


def _probe_path():
    global _probe
    if _probe is None:
        from pathlib import Path
        d = tempfile.mkdtemp(prefix="c02_")
        _probe = Path(d) / "probe.py"
        _probe.write_text("")
    return _probe


def real_check(quiet, files):
    """run the real check_command on one temp file per entry; scan_file is stubbed to return
    measurements of the given lengths -> reply in the model driver's format"""
    import typer
    from pathlib import Path
    from codelimit.commands import check as checkmod
    from codelimit.common.Location import Location
    from codelimit.common.Measurement import Measurement
    d = tempfile.mkdtemp(prefix="c02_")
    paths = []
    by_path = {}
    for i, ls in enumerate(files):
        p = Path(d) / ("f%03d.py" % i)
        p.write_text("")
        paths.append(p)
        by_path[str(p)] = [Measurement("u%d" % j, Location(j + 1, 1), Location(j + 1, 9), v) for j, v in enumerate(ls)]
    current = {}
    saved = (checkmod.scan_file, checkmod.lex, getattr(checkmod, "_read_file", None), checkmod.check_file)
    orig_check_file = checkmod.check_file

    def check_file(path, cr):
        current["p"] = str(path)
        return orig_check_file(path, cr)
    checkmod.check_file = check_file
    checkmod.scan_file = lambda tokens, language: list(by_path[current["p"]])
    checkmod.lex = lambda lexer, code, fc=True: []
    if saved[2] is not None:
        checkmod._read_file = lambda path: ""
    buf = io.StringIO()
    code = None
    try:
        with contextlib.redirect_stdout(buf):
            try:
                checkmod.check_command(paths, quiet)
            except typer.Exit as e:
                code = e.exit_code
    finally:
        checkmod.scan_file, checkmod.lex, checkmod.check_file = saved[0], saved[1], saved[3]
        if saved[2] is not None:
            checkmod._read_file = saved[2]
        for p in paths:
            p.unlink()
        os.rmdir(d)
    out = buf.getvalue()
    printed = 1 if out.strip() else 0
    listed = [[] for _ in files]
    for line in out.splitlines():
        m = re.match(r".*f(\d\d\d)\.py:\d+:\d+: (\d+) \S+ u\d+\s*$", line)
        if m:
            listed[int(m.group(1))].append(int(m.group(2)))
    says = 1 if "functions need refactoring" in out.replace("\n", " ") else 0
    cm = re.search(r"(\d+) functions need", out.replace("\n", " "))
    count = int(cm.group(1)) if cm else sum(len(l) for l in listed) if not printed or not says else -1
    return "ok %s %d %d %d %d%s" % (code, printed, says, count if says else sum(len(l) for l in listed), len(files),
                                   "".join(" %d%s" % (len(l), "".join(" %d" % v for v in l)) for l in listed))


def mask_model_classify(reply):
    """crosses are observable only on rows that are listed; the model's `says`-independent fields
    are compared as is"""
    ws = reply.split()
    if ws[0] != "ok":
        return reply
    # fields: pb cb style emoji unit hard unm lists keepsT keepsM mdx1 mdx2
    if ws[10] == "0":
        ws[11] = "0"; ws[12] = "0"
    return " ".join(ws)


def mask_model_check(reply):
    ws = reply.split()
    if ws[0] != "ok":
        return reply
    # when nothing is printed, the listed lines are not observable
    return reply


def gen_files(rnd):
    nf = rnd.randint(1, 5)
    files = []
    for _ in range(nf):
        n = rnd.choice([0, 1, 2, 3, 5, 8])
        ls = []
        for _ in range(n):
            r = rnd.random()
            if r < 0.45:
                ls.append(rnd.choice(BOUNDARY))
            elif r < 0.9:
                ls.append(rnd.randint(1, 200))
            else:
                ls.append(rnd.randint(200, 100000))
        files.append(ls)
    if len(files) >= 2 and rnd.random() < 0.3:
        files[rnd.randrange(1, len(files))] = list(files[0])      # an identical copy of the first file
    return files


def _correspond_main(ctx):
    Ls = list(range(0, 201)) + [250, 1000, 10 ** 6, 10 ** 12]
    reqs = ["classify 0 %d" % L for L in Ls]
    model = [mask_model_classify(x) for x in common.run_driver(reqs)]
    impl = [real_classify(L) for L in Ls]
    dis, fails = [], []
    nontrivial = set()
    for L, m, i in zip(Ls, model, impl):
        inp = {"stream": "classify", "L": L}
        if m != i:
            dis.append({"stream": "classifiers", "input": inp, "model": m, "impl": i})
        exp = expected_classify(L)
        if i != exp:
            fails.append({"input": inp, "observed": i, "required": exp})
        nontrivial.add(("L", L))
    rnd = ctx.rng("files")
    n = ctx.pick(400, 8000)
    cases = [(rnd.random() < 0.5, gen_files(rnd)) for _ in range(n)]
    cases += [(True, [[30, 15], [1]]), (True, [[31]]), (False, [[]]), (True, [[61], [60]]), (True, [[]])]
    reqs = ["check %d %d %s" % (1 if q else 0, len(fs), " ".join("%d %s" % (len(l), " ".join(map(str, l))) if l else "0" for l in fs)) for q, fs in cases]
    model2 = common.run_driver(reqs)
    impl2 = [real_check(q, fs) for q, fs in cases]
    for (q, fs), m, i in zip(cases, model2, impl2):
        inp = {"stream": "check", "quiet": q, "files": fs}
        mm, ii = m, i
        if m.split()[2:3] == ["0"]:   # nothing printed: only exit code and the printed flag are observable
            mm = " ".join(m.split()[:3]); ii = " ".join(i.split()[:3])
        if mm != ii:
            dis.append({"stream": "check_command", "input": inp, "model": m, "impl": i})
        exp = expected_check(q, fs)
        if (ii if mm is not m else i) != (" ".join(exp.split()[:3]) if mm is not m else exp):
            fails.append({"input": inp, "observed": i, "required": exp})
        if any(v > 30 for l in fs for v in l):
            nontrivial.add(("check", q, tuple(map(tuple, fs))))
    return {
        "evaluations": len(Ls) + len(cases), "distinct_nontrivial": len(nontrivial),
        "rule": "every length 0..200 plus large values through all classifiers (exhaustive range); %d random multisets of lengths (boundary-biased: 14..17, 29..32, 59..62) over 1..5 files x quiet/not through check_command; non-trivial = distinct lengths, and distinct check inputs with at least one function longer than 30" % n,
        "samples": [{"L": L, "model": m, "impl": i} for L, m, i in list(zip(Ls, model, impl))[29:33]] +
                   [{"quiet": q, "files": fs, "model": m, "impl": i} for (q, fs), m, i in list(zip(cases, model2, impl2))[:3]],
        "exhaustive": False, "distribution": {"lengths": len(Ls), "check_cases": len(cases)},
        "disagreements": dis[:50], "oracle_failures": fails[:50],
        "generated_hashes": {"Gen/Logic.lean": _sha(os.path.join(common.LEAN, "CodeLimit", "Gen", "Logic.lean"))},
    }


def _sha(path):
    import hashlib
    try:
        return hashlib.sha256(open(path, "rb").read()).hexdigest()[:16]
    except OSError:
        return None


def cat(L):
    return 0 if L <= 15 else 1 if L <= 30 else 2 if L <= 60 else 3


def expected_classify(L):
    c = cat(L)
    color = ["green", "yellow", "dark_orange", "red"][c]
    emoji = ["✓", "✓", "⚠", "✖"][c]
    listed = 1 if L > 30 else 0
    return "ok %d %d %s %s %s %d %d %d %d %d %d %d" % (c, c, color, emoji, color, 1 if c == 2 else 0, 1 if c == 3 else 0,
                                                     listed, listed, listed, 1 if c == 3 else 0, 1 if c == 3 else 0)


def expected_check(quiet, files):
    listed = [sorted([v for v in l if v > 30], reverse=True) for l in files]
    total = sum(len(l) for l in listed)
    exit_code = 1 if any(v > 60 for l in files for v in l) else 0
    printed = 0 if (quiet and total == 0) else 1
    says = 1 if total > 0 else 0
    return "ok %d %d %d %d %d%s" % (exit_code, printed, says, total, len(files),
                                   "".join(" %d%s" % (len(l), "".join(" %d" % v for v in l)) for l in listed))


def search(ctx, hints):
    fails = []
    for L in list(range(0, 400)) + [1000, 10 ** 6]:
        i = real_classify(L)
        if i != expected_classify(L):
            fails.append({"input": {"stream": "classify", "L": L}, "observed": i, "required": expected_classify(L)})
    rnd = ctx.rng("search")
    for _ in range(1500):
        q, fs = rnd.random() < 0.5, gen_files(rnd)
        i = real_check(q, fs)
        exp = expected_check(q, fs)
        if exp.split()[2] == "0":
            i, exp = " ".join(i.split()[:3]), " ".join(exp.split()[:3])
        if i != exp:
            fails.append({"input": {"stream": "check", "quiet": q, "files": fs}, "observed": i, "required": exp})
    fails.sort(key=lambda f: len(str(f["input"])))
    return fails[:20]


def replay(payload):
    inp = payload["input"]
    if inp["stream"] == "classify":
        i = real_classify(inp["L"])
        print("L=%d -> %s (required %s)" % (inp["L"], i, expected_classify(inp["L"])))
        return i == expected_classify(inp["L"])
    i = real_check(inp["quiet"], inp["files"])
    exp = expected_check(inp["quiet"], inp["files"])
    print("check quiet=%s files=%s -> %s (required %s)" % (inp["quiet"], inp["files"], i, exp))
    if exp.split()[2] == "0":
        i, exp = " ".join(i.split()[:3]), " ".join(exp.split()[:3])
    return i == exp


def correspond(ctx):
    """real check_command / CheckResult.report output lines (path as printed from any working directory, position, length, symbol, summary) vs Model/CheckPrint.lean (Props/Gaps.lean part 3)"""
    import gaps_stream
    res = _correspond_main(ctx)
    dis, counts = gaps_stream.for_check(ctx, (3,), ctx.pick(250, 4000), 'print')
    res["disagreements"] = list(res["disagreements"]) + dis
    res["evaluations"] += sum(v.get(k, 0) for v in counts.values() if isinstance(v, dict)
                              for k in ("texts", "byte_files", "check_command_runs", "report_runs", "cases"))
    res["distribution"] = dict(res.get("distribution", {}), gaps=counts)
    res["rule"] += " PLUS real check_command / CheckResult.report output lines (path as printed from any working directory, position, length, symbol, summary) vs Model/CheckPrint.lean (Props/Gaps.lean part 3)"
    return res
