"""C08 - the report document is always valid JSON and round-trips losslessly.

Tie between lean/CodeLimit/Model/Json.lean + Model/Report.lean and the Python code:
 * writer   : real `ReportWriter(report, pretty).to_json()` vs model `report`, character by character,
              on reports whose codebase is built by the REAL `Codebase.add_file` / `aggregate`
 * dumps    : `json.dumps(s)` vs model `dumps` on code-point classes and random strings
 * loads    : `json.loads` vs model `jsonparse` (acceptance and value) on emitted documents, every /
              stratified truncation of them, character mutations, and small random JSON texts
 * reader   : `ReportReader.from_json` / `get_report_version` vs model `read` / `version` on emitted
              documents and single structural faults (member removed / value of another type / tag)
Oracle (the property, directly on the real code): both forms are valid JSON and `json.loads` gives the
same value; reading back gives the same version, uuid, root, repository, files (order, checksum,
language, loc, measurements), totals and folder entries/profiles; writing the re-read report gives the
same document except for the timestamp line.
A separate small stream has strings in which a high surrogate is immediately followed by a low
surrogate: `json.loads(json.dumps(s))` joins them into one astral code point (Python's json behaviour,
theorem `CL.C08.surrogate_pair_not_preserved`); there the model must agree with the real code and the
oracle is the joined string.
The oracle is also evaluated (a) with the READING process configured differently from the writing one
(`Configuration.repository` / `.exclude` / `.verbose` set only while the document is read back and re-written),
(b) as a STATE PROBE: every document is read a second time in the same process after the first result was
modified (uuid, version, repository, a file added, aggregate called again) - what a read yields is determined
by the document alone - and written a second time from the same object, and (c) on SIZE LADDERS (10^2..10^4
files, 10^3..10^6 characters in one string, 10^2..10^5 measurements in one file, nesting depth).
Round 5: (d) COLLECTION SIZES - the members of every collection of the document (measurements of a file, entries of a
folder, files, languages, folders in the root) get their own ladder, plus the rungs n-1, n, n+1, 2n of every integer
literal that is new in the source under check (harness/gen/srcdict.py); (e) VALUE SHAPES - the identifier-like string
fields (uuid, version, timestamp, root, repository, checksum, language, unit name) take every spelling such a field
admits (harness/h4_round5.identifier_shapes: canonical / upper-case / braced / urn: / bare-hex UUIDs, digests, numbers,
versions, dates, refs, whitespace around, novel source literals).

Round 6: DUPLICATED MEMBERS x VERSION STATES (`gen_dup_specs`) - reports in which a file lists the very same measurement
several times (adjacent, apart, three times, first and last, the whole list twice, the same list in two files, all
equal, near-duplicates differing in one component) under every state of the version field (running, absent, empty,
another release, running + suffix, arbitrary text); they go through every comparison of the report stream."""
import json
import os
import sys

sys.path.insert(0, os.path.dirname(os.path.dirname(os.path.abspath(__file__))))
import common
import h4_support as h4
import h4_round5 as r5
import h4_round7 as r7
from gen import srcdict

ID = "C08"
TRUSTED = [
    "correspondence harness harness/props/C08.py (generator quality bounds what it sees)",
    "modelled, not verified: CPython's _json accelerator (dumps with ensure_ascii=True, scanner, scanstring) as transcribed in Model/Json.lean",
    "`build` (Codebase.add_file for every file + aggregate) and `profileOf` (utils.make_profile) are parameters of the reader model (property C07 owns them)",
]
ASSUMPTIONS = [
    "strings are Python str (code points < 0x110000) without a high surrogate immediately followed by a low surrogate (holds for every decoded text and every surrogateescape'd file name)",
    "dict keys of totals/tree/files are pairwise distinct (they are Python dicts)",
    "file paths are normalised relative paths (no empty and no `.` segment), as in C07: on others the real add_file/aggregate raises KeyError/RecursionError, and `build` is a total function in the model",
    "integer fields are Python ints (not bool) of at most 4300 digits (sys.int_max_str_digits); nesting below the recursion limit",
    "floats in foreign documents are accepted like Python but kept as lexemes in the model; the reader model reports `type` where Python either raises TypeError/AttributeError or goes on with an ill-typed report",
    "GithubRepository.tag is not serialised (only tests/regression.py sets it)",
]

# ------------------------------------------------------------------ encodings

def cps(s):
    return [ord(c) for c in s]


def from_cps(l):
    return "".join(map(chr, l))


def enc_str(s):
    return "%d%s" % (len(s), "".join(" %d" % ord(c) for c in s))


def enc_opt(s):
    return "0" if s is None else "1 " + enc_str(s)


def enc_ints(l):
    return "%d%s" % (len(l), "".join(" %d" % x for x in l))


def enc_report(d):
    out = [enc_opt(d["version"]), enc_str(d["uuid"]), enc_str(d["timestamp"]), enc_str(d["root"])]
    r = d["repository"]
    out.append("0" if r is None else "1 %s %s %s %s" % (enc_str(r[0]), enc_str(r[1]), enc_opt(r[2]), enc_opt(r[3])))
    out.append(str(len(d["totals"])))
    for k, t in d["totals"]:
        out.append("%s %d %d %d %d %d" % ((enc_str(k),) + tuple(t)))
    out.append(str(len(d["tree"])))
    for k, (entries, profile) in d["tree"]:
        out.append("%s %d%s %s" % (enc_str(k), len(entries), "".join(" " + enc_str(e) for e in entries), enc_ints(profile)))
    out.append(str(len(d["files"])))
    for k, (checksum, language, loc, profile, ms) in d["files"]:
        out.append("%s %s %s %d %s %d%s" % (enc_str(k), enc_str(checksum), enc_str(language), loc, enc_ints(profile), len(ms),
                                           "".join(" %s %d %d %d %d %d" % ((enc_str(m[0]),) + tuple(m[1:])) for m in ms)))
    return " ".join(out)


class Words:
    def __init__(self, text):
        self.w = text.split()
        self.i = 0

    def word(self):
        self.i += 1
        return self.w[self.i - 1]

    def int(self):
        return int(self.word())

    def many(self, f):
        return [f() for _ in range(self.int())]

    def str(self):
        return "".join(chr(self.int()) for _ in range(self.int()))

    def opt(self):
        return self.str() if self.int() == 1 else None


def dec_report(w):
    d = {"version": w.opt(), "uuid": w.str(), "timestamp": w.str(), "root": w.str()}
    d["repository"] = (w.str(), w.str(), w.opt(), w.opt()) if w.int() == 1 else None
    d["totals"] = w.many(lambda: (w.str(), (w.int(), w.int(), w.int(), w.int(), w.int())))
    d["tree"] = w.many(lambda: (w.str(), (w.many(w.str), w.many(w.int))))
    d["files"] = w.many(lambda: (w.str(), (w.str(), w.str(), w.int(), w.many(w.int),
                                          w.many(lambda: (w.str(), w.int(), w.int(), w.int(), w.int(), w.int())))))
    return d


class Real(str):
    pass


def canon(v):
    """canonical dump of a json.loads result, the model driver's <json> format"""
    if v is None:
        return "n"
    if v is True:
        return "t"
    if v is False:
        return "f"
    if isinstance(v, Real):
        return "r " + enc_str(v)
    if isinstance(v, tuple):
        return "x %d" % v[1]
    if isinstance(v, int):
        return "i %d" % v
    if isinstance(v, str):
        return "s " + enc_str(v)
    if isinstance(v, list):
        return "a %d%s" % (len(v), "".join(" " + canon(x) for x in v))
    if isinstance(v, dict):
        return "o %d%s" % (len(v), "".join(" %s %s" % (enc_str(k), canon(x)) for k, x in v.items()))
    raise TypeError(type(v))


_CONST = {"NaN": 0, "Infinity": 1, "-Infinity": 2}


def real_loads(text):
    try:
        v = json.loads(text, parse_float=Real, parse_constant=lambda n: ("const", _CONST[n]))
    except ValueError:
        return "none"
    except RecursionError:
        return "skip"
    return "ok " + canon(v)


# ------------------------------------------------------------------ real objects

def build_report(spec):
    """the real Report for a spec; the codebase is built by the real add_file / aggregate"""
    from codelimit.common.Codebase import Codebase
    from codelimit.common.GithubRepository import GithubRepository
    from codelimit.common.Location import Location
    from codelimit.common.Measurement import Measurement
    from codelimit.common.SourceFileEntry import SourceFileEntry
    from codelimit.common.report.Report import Report
    cb = Codebase(from_cps(spec["root"]))
    for path, checksum, language, loc, ms in spec["files"]:
        cb.add_file(SourceFileEntry(from_cps(path), from_cps(checksum), from_cps(language), loc,
                                    [Measurement(from_cps(n), Location(sl, sc), Location(el, ec), v) for n, sl, sc, el, ec, v in ms]))
    cb.aggregate()
    repo = None
    if spec["repository"] is not None:
        o, n, b, t = spec["repository"]
        repo = GithubRepository(from_cps(o), from_cps(n), None if b is None else from_cps(b), None if t is None else from_cps(t))
    rep = Report(cb, repo)
    if spec["version"] != "default":
        rep.version = None if spec["version"] is None else from_cps(spec["version"])
    if spec.get("uuid") is not None:
        rep.uuid = from_cps(spec["uuid"])
    if spec.get("timestamp") is not None:
        rep.timestamp = from_cps(spec["timestamp"])
    return rep


def report_data(report):
    """what the writer reads from / the reader puts into a Report, as plain data"""
    cb = report.codebase
    r = report.repository
    return {
        "version": report.version, "uuid": report.uuid, "timestamp": report.timestamp, "root": cb.root,
        "repository": None if r is None else (r.owner, r.name, r.branch, r.tag),
        "totals": [(k, (t.files, t.loc, t.functions, t.hard_to_maintain, t.unmaintainable)) for k, t in cb.totals.items()],
        "tree": [(k, ([e.name for e in f.entries], list(f.profile))) for k, f in cb.tree.items()],
        "files": [(k, (e.checksum(), e.language, e.loc, list(e.profile()),
                       [(m.unit_name, m.start.line, m.start.column, m.end.line, m.end.column, m.value) for m in e.measurements()]))
                  for k, e in cb.files.items()],
    }


def write_real(report, pretty):
    from codelimit.common.report.ReportWriter import ReportWriter
    return ReportWriter(report, pretty_print=pretty).to_json()


def _is_int(x):
    return isinstance(x, int) and not isinstance(x, bool)


def _is_optstr(x):
    return x is None or isinstance(x, str)


def well_typed(d):
    """does a re-read report fit the typed ReportData of the model?"""
    if not (_is_optstr(d["version"]) and isinstance(d["uuid"], str) and isinstance(d["root"], str)):
        return False
    r = d["repository"]
    if r is not None and not (isinstance(r[0], str) and isinstance(r[1], str) and _is_optstr(r[2]) and _is_optstr(r[3])):
        return False
    for _k, (checksum, language, loc, _p, ms) in d["files"]:
        if not (isinstance(checksum, str) and isinstance(language, str) and _is_int(loc)):
            return False
        for m in ms:
            if not (isinstance(m[0], str) and all(_is_int(x) for x in m[1:])):
                return False
    return True


def real_read(text):
    """-> ('noparse',) | ('err', 'key'|'type') | ('ok', data) | ('illtyped', data)"""
    from codelimit.common.report.ReportReader import ReportReader
    try:
        json.loads(text)
    except ValueError:
        return ("noparse",)
    try:
        rep = ReportReader.from_json(text)
    except KeyError:
        return ("err", "key")
    except (TypeError, AttributeError):
        return ("err", "type")
    d = report_data(rep)
    return ("ok", d) if well_typed(d) else ("illtyped", d)


def real_version(text):
    """reply in the model driver's format; absent and null are both Python's None"""
    from codelimit.common.report.ReportReader import ReportReader
    try:
        json.loads(text)
    except ValueError:
        return "noparse"
    try:
        v = ReportReader.get_report_version(text)
    except (TypeError, AttributeError):
        return "err type"
    except KeyError:
        return "err key"
    if v is None:
        return "ok none"
    d = json.loads(text, parse_float=Real, parse_constant=lambda n: ("const", _CONST[n]))
    if repr(json.loads(text)["version"]) != repr(v):
        return "real get_report_version does not return the document's value"
    return "ok " + canon(d["version"])


def read_fields(d):
    """the fields of a re-read report that the reader model determines (no timestamp, totals, tree)"""
    return {"version": d["version"], "uuid": d["uuid"], "root": d["root"], "repository": d["repository"], "files": d["files"]}


# ------------------------------------------------------------------ generators

HI = (0xD800, 0xDBFF)
LO = (0xDC00, 0xDFFF)
SPECIAL = [0x22, 0x5C, 0x2F, 0x0A, 0x0D, 0x09, 0x08, 0x0C, 0x00, 0x1F, 0x20, 0x7F, 0x7E, 0x80, 0x85, 0xA0, 0xFF, 0x2028, 0x2029,
           0xFEFF, 0xFFFF, 0xFFFE, 0x10000, 0x10FFFF, 0xD7FF, 0xE000, 0x1F600, 0x7B, 0x7D, 0x5B, 0x5D, 0x2C, 0x3A, 0x27, 0x75, 0x6E]


def gen_cp(rnd):
    r = rnd.random()
    if r < 0.35:
        return rnd.choice(b"abcxyzABZ019_-. ")
    if r < 0.6:
        return rnd.choice(SPECIAL)
    if r < 0.68:
        return rnd.randint(0, 0x1F)
    if r < 0.76:
        return rnd.randint(0x80, 0x7FF)
    if r < 0.84:
        return rnd.randint(0x800, 0xFFFF)
    if r < 0.92:
        return rnd.randint(0x10000, 0x10FFFF)
    if r < 0.96:
        return rnd.randint(*HI)
    return rnd.randint(*LO)


def has_pair(l):
    return any(HI[0] <= a <= HI[1] and LO[0] <= b <= LO[1] for a, b in zip(l, l[1:]))


def break_pairs(l):
    out = []
    for c in l:
        if out and HI[0] <= out[-1] <= HI[1] and LO[0] <= c <= LO[1]:
            out.append(0x78)
        out.append(c)
    return out


def gen_str(rnd, maxlen=8, pairs=False, nosep=False):
    n = rnd.choice([0, 1, 1, 2, 3, 5, maxlen])
    l = [gen_cp(rnd) for _ in range(n)]
    if nosep:
        l = [c for c in l if c != 0x2F]
    if pairs and rnd.random() < 0.7:
        i = rnd.randint(0, len(l))
        l[i:i] = [rnd.randint(*HI), rnd.randint(*LO)]
    if not pairs:
        l = break_pairs(l)
    return l


def gen_int(rnd, lo=0):
    r = rnd.random()
    if r < 0.6:
        return rnd.randint(lo, 80)
    if r < 0.8:
        return rnd.choice([0, 1, 15, 16, 30, 31, 60, 61, 9, 10, 99, 100])
    if r < 0.9:
        return rnd.randint(0, 10 ** 6)
    if r < 0.95:
        return rnd.randint(10 ** 18, 10 ** 30)
    return -rnd.randint(0, 10 ** 9)


def gen_spec(rnd, pairs=False, nfiles=None):
    segs = [gen_str(rnd, 6, pairs, nosep=True) or [0x61] for _ in range(rnd.randint(2, 6))]
    segs += [cps("src"), cps("a b"), cps('q"uote'), cps("back\\slash")][: rnd.randint(0, 4)]
    langs = [cps("Python"), cps("C++"), gen_str(rnd, 6, pairs), cps("Java")]
    if nfiles is None:
        nfiles = rnd.choice([0, 1, 1, 2, 3, 5, 8])
    files, seen = [], set()
    for _ in range(nfiles):
        depth = rnd.choice([0, 0, 1, 1, 2, 3, 4])
        parts = [rnd.choice(segs) for _ in range(depth)] + [gen_str(rnd, 6, pairs, nosep=True) + cps(rnd.choice([".py", ".c", "", ".j\ns"]))]
        # normalised relative paths only (as in C07): no empty segment, no `.` segment - `build` must be total
        parts = [q if q and q != [0x2E] else [0x78] + q for q in parts]
        path = []
        for i, p in enumerate(parts):
            path += ([0x2F] if i else []) + p
        if not pairs:
            path = break_pairs(path)
        if files and not pairs and rnd.random() < 0.1:     # CASE TWIN of an earlier file's path
            try:
                tw = r7.case_twin(from_cps(rnd.choice(files)[0]), rnd)
            except Exception:   # noqa: BLE001
                tw = None
            if tw is not None:
                path = break_pairs(cps(tw))
        if tuple(path) in seen:
            continue
        seen.add(tuple(path))
        ms = []
        for _ in range(rnd.choice([0, 1, 1, 2, 3, 6])):
            sl = gen_int(rnd)
            ms.append((gen_str(rnd, 10, pairs), sl, gen_int(rnd), sl + gen_int(rnd), gen_int(rnd), gen_int(rnd)))
        checksum = cps("%032x" % rnd.getrandbits(128)) if rnd.random() < 0.7 else gen_str(rnd, 8, pairs)
        files.append((path, checksum, rnd.choice(langs), gen_int(rnd), ms))
    repo = None
    if rnd.random() < 0.5:
        repo = (gen_str(rnd, 6, pairs), gen_str(rnd, 6, pairs), None if rnd.random() < 0.25 else gen_str(rnd, 6, pairs),
                gen_str(rnd, 4, pairs) if rnd.random() < 0.1 else None)
    v = rnd.random()
    spec = {
        "root": gen_str(rnd, 10, pairs) if rnd.random() < 0.7 else cps("/home/u/project"),
        "files": files, "repository": repo,
        "version": "default" if v < 0.5 else None if v < 0.75 else gen_str(rnd, 6, pairs),
        "uuid": gen_str(rnd, 8, pairs) if rnd.random() < 0.4 else None,
        "timestamp": gen_str(rnd, 8, pairs) if rnd.random() < 0.4 else None,
    }
    return spec


def gen_shaped_spec(rnd):
    """a small report whose identifier-like string fields (uuid, version, timestamp, root, repository owner / name /
    branch, checksum, language, unit name) are spelled in the shapes such fields take in the wild (r5.identifier_shapes):
    canonical / upper-case / braced / urn: UUIDs, bare hex digests, numbers, versions, dates, whitespace around, ..."""
    spec = gen_spec(rnd, nfiles=rnd.choice([0, 1, 1, 2]))
    shapes = r5.identifier_shapes(rnd)

    def shape():
        return break_pairs(cps(rnd.choice(shapes)))
    spec["uuid"] = shape()
    if rnd.random() < 0.5:
        spec["version"] = shape()
    if rnd.random() < 0.5:
        spec["timestamp"] = shape()
    if rnd.random() < 0.4:
        spec["root"] = shape()
    if rnd.random() < 0.5:
        spec["repository"] = (shape(), shape(), shape() if rnd.random() < 0.8 else None, None)
    files = []
    for (path, checksum, language, loc, ms) in spec["files"]:
        if rnd.random() < 0.6:
            checksum = shape()
        if rnd.random() < 0.3:
            language = shape()
        ms = [((shape() if rnd.random() < 0.4 else m[0]),) + tuple(m[1:]) for m in ms]
        files.append((path, checksum, language, loc, ms))
    spec["files"] = files
    return spec


DERIVED_FIELDS = 13


def derived_pool(ctx):
    try:
        ws = sorted(set(srcdict.words(False)) | set(srcdict.words(novel_only=True)))
    except Exception:   # noqa: BLE001
        ws = []
    ws = ws or [".git", "/", "."]
    return r7.derived_strings(ws, ctx.pick(("x", "\u00e9"), ("x", "\u00e9", "a/b", " ", "X")))


def derived_spec(pool, k):
    """report number k of the sweep: string field j holds pool[(k + 37 j) mod N] - over k = 0..N-1 every derived string visits
    every string field (root, uuid, timestamp, version, repository owner / name / branch / tag, file name, checksum, language, unit name)"""
    n = len(pool)
    stride = 37
    while n % stride == 0:
        stride += 1
    g = [break_pairs(cps(pool[(k + j * stride) % n])) for j in range(DERIVED_FIELDS)]
    stem = [c for c in g[0] if c != 0x2F] or [0x78]
    folder = [c for c in g[1] if c != 0x2F] or [0x78]
    if folder == [0x2E]:
        folder = [0x78, 0x2E]
    files = [(folder + [0x2F] + stem + cps(".py"), g[2], g[3], 40, [(g[4], 1, 0, 41, 0, 40)])]
    return {"root": g[5], "files": files, "repository": (g[6], g[7], g[8], g[9]), "version": g[10], "uuid": g[11], "timestamp": g[12]}


def shrink_derived(spec, failing):
    """replace field after field by `a` (repository fields, root, uuid, version, timestamp; then drop the file) while it still fails"""
    cur = dict(spec)
    a = cps("a")
    for fld in ("root", "uuid", "timestamp", "version"):
        c = dict(cur, **{fld: a})
        if failing(c):
            cur = c
    c = dict(cur, files=[])
    if failing(c):
        cur = c
    if cur["repository"] is not None:
        for i in range(4):
            r = list(cur["repository"])
            r[i] = a
            c = dict(cur, repository=tuple(r))
            if failing(c):
                cur = c
    return cur


VERSION_STATES = ["default", None, "", "0.9.3", "running-with-suffix", "random"]


def gen_dup_specs(rnd, count):
    """DUPLICATED MEMBERS x VERSION STATES: reports in which a member of a collection occurs more than once - the very
    same measurement (all six components) twice adjacent, twice apart, three times, a whole measurement list repeated,
    the same list in two files, near-duplicates differing in one component - under every state of the version field
    (running version, absent, empty, another release, the running version with a suffix, arbitrary text) and with /
    without repository. -> [(label, spec)]"""
    out = []
    shapes = ["adjacent", "apart", "triple", "list-twice", "two-files", "near", "first-last", "all-equal"]
    k = 0
    while len(out) < count:
        vstate = VERSION_STATES[k % len(VERSION_STATES)]
        shape = shapes[(k // len(VERSION_STATES)) % len(shapes)]
        k += 1
        spec = gen_spec(rnd, nfiles=rnd.choice([1, 2, 3]))
        if not spec["files"]:
            continue
        files = list(spec["files"])
        fi = rnd.randrange(len(files))
        path, checksum, language, loc, ms = files[fi]
        ms = list(ms)
        while len(ms) < 2:
            sl = gen_int(rnd)
            ms.append((gen_str(rnd, 6), sl, gen_int(rnd), sl + gen_int(rnd), gen_int(rnd), gen_int(rnd)))
        m = ms[rnd.randrange(len(ms))]
        if shape == "adjacent":
            i = ms.index(m)
            ms[i:i] = [m]
        elif shape == "apart":
            ms = [m] + [x for x in ms if x != m] + [(cps("between"), 1, 0, 2, 0, 7), m]
        elif shape == "triple":
            ms = [m] + ms + [m, m]
        elif shape == "list-twice":
            ms = ms + ms
        elif shape == "two-files":
            files = [(f[0], f[1], f[2], f[3], list(ms)) for f in files]
        elif shape == "near":
            j = rnd.randrange(6)
            near = tuple((m[0] + [0x78]) if t == 0 and t == j else (m[t] + 1) if t == j else m[t] for t in range(6))
            ms = ms + [near, m]
        elif shape == "first-last":
            ms = [m] + ms + [m]
        else:
            ms = [m] * rnd.choice([2, 3, 5])
        if shape != "two-files":
            files[fi] = (path, checksum, language, loc, ms)
        spec["files"] = files
        if vstate == "default" or vstate is None or vstate == "":
            spec["version"] = vstate if vstate != "" else []
        elif vstate == "0.9.3":
            spec["version"] = cps("%d.%d.%d" % (rnd.randint(0, 3), rnd.randint(0, 20), rnd.randint(0, 9)))
        elif vstate == "running-with-suffix":
            from codelimit.common.report.Report import Report
            spec["version"] = cps(str(Report.VERSION) + rnd.choice([".1", "rc1", " ", "-dev"]))
        else:
            spec["version"] = gen_str(rnd, 6)
        out.append(("%s; version %s" % (shape, vstate), spec))
    return out


def gen_long(rnd, n, nosep=False):
    l = [gen_cp(rnd) for _ in range(n)]
    if nosep:
        l = [c for c in l if c != 0x2F]
    return break_pairs(l)          # AFTER removing separators: deleting a `/` between a high and a low surrogate makes a pair


def spec_has_pair(spec):
    """some string of the report contains an adjacent (high, low) surrogate pair: outside the property (Appendix A)"""
    strs = [spec["root"]] + [x for x in (spec.get("uuid"), spec.get("timestamp")) if isinstance(x, list)]
    if spec.get("repository"):
        strs += [x for x in spec["repository"] if isinstance(x, list)]
    if isinstance(spec.get("version"), list):
        strs.append(spec["version"])
    for f in spec["files"]:
        strs += [f[0], f[1], f[2]] + [m[0] for m in f[4]]
    return any(has_pair(x) for x in strs)


def ladder_specs(ctx):
    """-> [(label, spec)]: one size dimension pushed up a geometric ladder, the others small"""
    rnd = ctx.rng("ladder")
    out = []

    def base(files, **kw):
        s = {"root": cps("/r"), "files": files, "repository": (cps("o"), cps("n"), cps("b"), None) if rnd.random() < 0.5 else None,
             "version": "default", "uuid": None, "timestamp": None}
        s.update(kw)
        return s

    def meas(k):
        return [(cps("f%d" % j) + gen_str(rnd, 3), j * 3 + 1, 0, j * 3 + 2, 1, rnd.choice([1, 15, 16, 30, 31, 60, 61, 100])) for j in range(k)]
    for n in ctx.pick([100, 1000], [100, 1000, 10 ** 4, 10 ** 5]):
        segs = [gen_str(rnd, 4, nosep=True) or [0x61] for _ in range(40)]
        segs = [q if q != [0x2E] else [0x78] for q in segs]
        files, seen = [], set()
        for i in range(n):
            path = break_pairs(rnd.choice(segs) + [0x2F] + rnd.choice(segs) + [0x2F] + cps("f%d" % i) + rnd.choice(segs))
            if tuple(path) in seen:
                continue
            seen.add(tuple(path))
            files.append((path, cps("%032x" % rnd.getrandbits(128)), cps(rnd.choice(["Python", "C", "Java"])), rnd.randint(0, 500), meas(rnd.choice([0, 1, 2]))))
        out.append(("%d files" % n, base(files)))
    fields = ["path", "unit_name", "root", "uuid", "checksum", "language", "owner"]
    for n, where in [(n, w) for n in ctx.pick([10 ** 3, 10 ** 5], [10 ** 3, 10 ** 4, 10 ** 5, 10 ** 6])
                     for w in (fields if n <= 10 ** 3 else rnd.sample(fields, ctx.pick(2, 3)))]:
        long = gen_long(rnd, n, nosep=(where == "path")) or [0x61]
        f = (cps("d/") + (long if where == "path" else cps("x.py")), long if where == "checksum" else cps("00"),
             long if where == "language" else cps("C"), 5,
             [((long if where == "unit_name" else cps("f")), 1, 0, 2, 1, 40)])
        kw = {}
        if where == "root":
            kw["root"] = long
        if where == "uuid":
            kw["uuid"] = long
        s = base([f], **kw)
        if where == "owner":
            s["repository"] = (long, cps("n"), cps("b"), None)
        out.append(("%d characters in the %s" % (n, where), s))
    # the MEMBERS of every collection of the document (measurements of a file, entries of a folder, files, languages,
    # folders): base rungs + n-1, n, n+1, 2n for every integer literal that is new in the source under check
    hi = ctx.pick(10 ** 4, 10 ** 5)
    for n in r5.rungs(ctx.pick([100, 10 ** 4], [100, 10 ** 3, 10 ** 4, 10 ** 5]), 2, ctx.pick(2 * 10 ** 4, 10 ** 5)):
        out.append(("%d measurements in one file" % n, base([(cps("a/b.py"), cps("00"), cps("Python"), n, meas(n))])))
    for n in r5.rungs(ctx.pick([100, 1000], [100, 1000, 10 ** 4, 10 ** 5]), 2, hi):
        fs, seen = [], set()
        for i in range(n):
            # the number ends the name, after a separator no generated string contains: the n paths are pairwise distinct
            path = tuple(break_pairs(cps("d/") + ([c for c in gen_str(rnd, 3, nosep=True) if c != 0x23] if i % 50 == 0 else []) + cps("#f%d" % i)))
            assert path not in seen
            seen.add(path)
            fs.append((list(path), cps("00"), cps("C"), 1, meas(i % 2)))
        out.append(("%d files in one folder" % n, base(fs)))
    for n in r5.rungs(ctx.pick([100, 1000], [100, 1000, 10 ** 4]), 2, hi):
        # exactly n languages, n folders below the root and n files, interleaved
        out.append(("%d languages, %d folders in the root" % (n, n),
                    base([(cps("p%d/f.x" % i), cps("00"), cps("Lang%d" % i), i % 90, meas(i % 2)) for i in range(n)])))
    for n in r5.novel_only(2, hi):
        # exactly n files in all, spread over few folders, one language (only the files collection has n members)
        out.append(("%d files in all" % n, base([(cps("q%d/g%d.c" % (i % 7, i)), cps("00"), cps("C"), 2, []) for i in range(n)])))
    for depth in ctx.pick([50, 150], [50, 150, 300]):
        comps = [rnd.choice(["a", "b", "src"]) for _ in range(depth)]
        files = [(cps("/".join(comps[:d] + ["f.py"])), cps("00"), cps("C"), 1, meas(1)) for d in (depth, depth // 2, 0)]
        out.append(("depth %d" % depth, base(files)))
    return out


def spec_summary(spec):
    return {"root_len": len(spec["root"]), "files": len(spec["files"]), "repository": spec["repository"] is not None,
            "longest_string": max([len(spec["root"])] + [max(len(f[0]), len(f[1]), len(f[2]), max([len(m[0]) for m in f[4]] or [0])) for f in spec["files"]]),
            "measurements": sum(len(f[4]) for f in spec["files"])}


def shrink_big(spec, failing, budget_s=8.0):
    """halve the file list / the measurement lists while the failure stays, then the greedy `shrink_spec`, time-boxed"""
    import time
    t0 = time.time()

    def timed(s):
        if time.time() - t0 > budget_s:
            raise TimeoutError
        return failing(s)
    cur = spec
    progress = True
    while progress and time.time() - t0 < budget_s:
        progress = False
        fs = cur["files"]
        cands = []
        if len(fs) > 4:
            cands += [dict(cur, files=fs[:len(fs) // 2]), dict(cur, files=fs[len(fs) // 2:])]
        for i, f in enumerate(fs[:3]):
            if len(f[4]) > 4:
                for half in (f[4][:len(f[4]) // 2], f[4][len(f[4]) // 2:]):
                    cands.append(dict(cur, files=fs[:i] + [(f[0], f[1], f[2], f[3], half)] + fs[i + 1:]))
        for c in cands:
            try:
                if timed(c):
                    cur = c; progress = True
                    break
            except TimeoutError:
                return cur
            except Exception:   # noqa: BLE001
                continue
    if spec_size(cur) < 20000 and len(cur["files"]) <= 60:
        cur = shrink_spec(cur, timed)
    return cur


# ------------------------------------------------------------------ oracle: the property on the real code

def timestamp_line_split(doc, pretty):
    """(before, after) of the timestamp value in a document written by the writer"""
    key = '"timestamp": '
    i = doc.index(key) + len(key)   # keys before it are "version" and "uuid"; their values are escaped, so a `"` inside them is `\"`
    assert doc[i] == '"'
    j = i + 1
    while doc[j] != '"':
        j += 2 if doc[j] == "\\" else 1
    return doc[:i], doc[j + 1:]


def expected_value(d):
    """`toJson d` of Spec/Report.lean for the data of a real report (member order included)"""
    v = {"version": d["version"], "uuid": d["uuid"], "timestamp": d["timestamp"], "root": d["root"]}
    if d["repository"] is not None:
        v["repository"] = {"owner": d["repository"][0], "name": d["repository"][1], "branch": d["repository"][2]}
    v["codebase"] = {
        "totals": {k: {"files": t[0], "lines_of_code": t[1], "functions": t[2], "hard_to_maintain": t[3], "unmaintainable": t[4]}
                   for k, t in d["totals"]},
        "tree": {k: {"entries": list(f[0]), "profile": list(f[1])} for k, f in d["tree"]},
        "files": {k: {"checksum": f[0], "language": f[1], "loc": f[2], "profile": list(f[3]),
                      "measurements": [{"unit_name": m[0], "start": {"line": m[1], "column": m[2]}, "end": {"line": m[3], "column": m[4]},
                                        "value": m[5]} for m in f[4]]} for k, f in d["files"]},
    }
    return v


def mutate_report(rep):
    """what a program may do to a Report it has read: relabel it, move it to another repository, go on adding files"""
    from codelimit.common.GithubRepository import GithubRepository
    from codelimit.common.SourceFileEntry import SourceFileEntry
    rep.uuid = str(rep.uuid) + "-modified"
    rep.version = "0.0.0-modified"
    rep.timestamp = "modified"
    if rep.repository is None:
        rep.repository = GithubRepository("probe-owner", "probe-name", "probe-branch")
    else:
        rep.repository.branch = "probe-branch"
        rep.repository.owner = "probe-owner"
    rep.codebase.root = str(rep.codebase.root) + "/modified"
    rep.codebase.add_file(SourceFileEntry("zz-probe/extra.py", "00", "Probe", 77, []))
    for e in list(rep.codebase.files.values())[:1]:
        e.loc = 12345 if isinstance(e.loc, int) else 0
    rep.codebase.aggregate()


def oracle_report(spec, read_cfg=None, probes=True):
    """-> list of failed clauses of the property for this report (empty = holds).
    read_cfg: configuration of the process that reads the document back and re-writes it (the report is built and
    written under the default configuration); probes: second read / second write in the same process"""
    bad = []
    try:
        rep = build_report(spec)
    except Exception:   # noqa: BLE001 - add_file/aggregate on a path outside C07's domain
        return []
    d0 = report_data(rep)
    docs = {}
    for pretty in (True, False):
        docs[pretty] = write_real(rep, pretty)
    if probes:
        for pretty in (True, False):
            if write_real(rep, pretty) != docs[pretty]:
                bad.append("%s: writing the same report object a second time gives another document" % ("pretty" if pretty else "compact"))
        if report_data(rep) != d0:
            bad.append("writing the report modified it")
    with h4.configured(**(read_cfg or {})):
        bad += _oracle_read_side(d0, docs, probes)
    return bad


def _oracle_read_side(d0, docs, probes):
    from codelimit.common.report.ReportReader import ReportReader
    bad = []
    vals = {}
    for pretty, doc in docs.items():
        try:
            vals[pretty] = json.loads(doc)
        except ValueError as e:
            bad.append("%s form is not valid JSON: %s" % ("pretty" if pretty else "compact", e))
    if len(vals) == 2 and vals[True] != vals[False]:
        bad.append("pretty and compact forms parse to different values")
    exp = json.dumps(expected_value(d0))
    for pretty, v in vals.items():
        if json.dumps(v) != exp:
            bad.append("the %s document's value is not the report's (some member differs from the in-memory report, or the member order)" % ("pretty" if pretty else "compact"))
    if bad:
        return bad
    for pretty, doc in docs.items():
        form = "pretty" if pretty else "compact"
        try:
            back = ReportReader.from_json(doc)
        except Exception as e:
            bad.append("%s: reading back raises %r" % (form, e))
            continue
        d1 = report_data(back)
        for f in ("version", "uuid", "root"):
            if d1[f] != d0[f]:
                bad.append("%s: %s differs after reading back: %r -> %r" % (form, f, d0[f], d1[f]))
        r0 = d0["repository"]
        if (None if r0 is None else r0[:3]) != (None if d1["repository"] is None else d1["repository"][:3]):
            bad.append("%s: repository differs after reading back" % form)
        if [k for k, _ in d1["files"]] != [k for k, _ in d0["files"]]:
            bad.append("%s: files or their order differ after reading back" % form)
        elif d1["files"] != d0["files"]:
            bad.append("%s: checksum/language/loc/profile/measurements of a file differ after reading back" % form)
        if d1["totals"] != d0["totals"]:
            bad.append("%s: totals differ after reading back" % form)
        if d1["tree"] != d0["tree"]:
            bad.append("%s: folder entries/profiles differ after reading back" % form)
        again = write_real(back, pretty)
        try:
            if timestamp_line_split(again, pretty) != timestamp_line_split(doc, pretty):
                bad.append("%s: writing the re-read report does not reproduce the document (up to the timestamp)" % form)
        except (ValueError, AssertionError, IndexError):
            bad.append("%s: no timestamp line found" % form)
        if probes:
            # STATE PROBE: the caller modifies what it was given, then the same document is read again
            try:
                mutate_report(back)
                back2 = ReportReader.from_json(doc)
            except Exception as e:   # noqa: BLE001
                bad.append("%s: second read of the same document raises %r" % (form, e))
                continue
            if back2 is back or back2.codebase is back.codebase:
                bad.append("%s: the second read of a document returns the object (or codebase) of the first read" % form)
            d2 = report_data(back2)
            for f in ("version", "uuid", "root", "repository", "files", "totals", "tree"):
                a, b = (d1[f], d2[f]) if f != "repository" else ((None if d1[f] is None else d1[f][:3]), (None if d2[f] is None else d2[f][:3]))
                if a != b:
                    bad.append("%s: %s of the second read of the same document differs from the first read (the first result was modified in between): %s -> %s"
                               % (form, f, ascii(a)[:120], ascii(b)[:120]))
    return bad


def joined(l):
    """what json does to adjacent escaped high+low surrogates"""
    out = []
    for c in l:
        if out and HI[0] <= out[-1] <= HI[1] and LO[0] <= c <= LO[1]:
            out[-1] = 0x10000 + ((out[-1] - 0xD800) << 10) + (c - 0xDC00)
        else:
            out.append(c)
    return out


# ------------------------------------------------------------------ text mutations

ALPH = cps('{}[],:"\\/ue0123456789.+-Eabfnrtul \n\t\r') + [0x00, 0x1F, 0x7F, 0xE9, 0xD800, 0xDC00, 0x10000, 0xFEFF, 0x0B, 0xA0, 0x49, 0x4E]


def mutate_text(rnd, doc):
    l = list(doc)
    for _ in range(rnd.choice([1, 1, 1, 2, 3])):
        if not l:
            break
        i = rnd.randrange(len(l))
        op = rnd.random()
        if op < 0.35:
            l[i] = chr(rnd.choice(ALPH))
        elif op < 0.6:
            del l[i]
        elif op < 0.85:
            l.insert(i, chr(rnd.choice(ALPH)))
        elif op < 0.93:
            j = rnd.randrange(len(l))
            l[i], l[j] = l[j], l[i]
        else:
            j = min(len(l), i + rnd.randint(1, 12))
            l[i:i] = l[i:j]          # duplicate a slice (gives duplicate keys, repeated commas)
    return "".join(l)


def gen_json_text(rnd, depth=0):
    """small JSON-like texts from a grammar that also produces what Python accepts beyond RFC 8259 and near misses"""
    ws = lambda: rnd.choice(["", "", "", " ", "\n", "\t ", "\r"])
    r = rnd.random()
    if depth > 3 or r < 0.45:
        k = rnd.random()
        if k < 0.35:
            return rnd.choice(["0", "-0", "1", "12", "-7", "007", "1.5", "1.", ".5", "1e5", "1E+5", "1e-2", "1e", "1e+", "-", "--1", "+1", "0x10",
                               "1.5e3", "0.0", "-0.0e-0", "123456789012345678901234567890", "1_0", "١"])
        if k < 0.5:
            return rnd.choice(["null", "true", "false", "NaN", "Infinity", "-Infinity", "nul", "nulll", "True", "None", "-Inf", "infinity", "-NaN"])
        body = []
        for _ in range(rnd.choice([0, 1, 2, 4])):
            c = rnd.random()
            if c < 0.4:
                body.append(chr(rnd.choice(b"abc \\/'")) if rnd.random() < 0.9 else "\\")
            elif c < 0.6:
                body.append(rnd.choice(['\\"', "\\\\", "\\/", "\\b", "\\f", "\\n", "\\r", "\\t", "\\x", "\\u", "\\'", "\\0", "\\U0041"]))
            elif c < 0.85:
                body.append("\\u" + rnd.choice(["0041", "00e9", "d800", "dc00", "D83D", "DE00", "dbff", "dfff", "d7ff", "e000", "12", "zzzz", "00G0", "FFFF", "0000"]))
            elif c < 0.92:
                body.append(chr(rnd.choice([0x00, 0x0A, 0x1F, 0x09, 0x7F, 0xE9, 0xD800, 0xDC00, 0x1F600])))
            else:
                body.append('"')
        return '"' + "".join(body) + '"'
    if r < 0.72:
        n = rnd.choice([0, 1, 2, 3])
        items = [gen_json_text(rnd, depth + 1) for _ in range(n)]
        sep = rnd.choice([",", ", ", " ,\n", ",", ",,", ""]) if rnd.random() < 0.15 else rnd.choice([",", ", ", " , "])
        close = rnd.choice(["]", "]", "]", "]", "", "}", ",]"]) if rnd.random() < 0.2 else "]"
        return "[" + ws() + sep.join(ws() + x + ws() for x in items) + close
    n = rnd.choice([0, 1, 2, 3])
    keys = [rnd.choice(['"a"', '"b"', '"a"', '""', '"\\u0061"', '"k\\n"', "a", "1", "null", '"\\ud800"', "'a'"]) if rnd.random() < 0.85 else gen_json_text(rnd, 9)
            for _ in range(n)]
    items = [k + ws() + rnd.choice([":", ":", ":", ": ", " : ", "", "::", "="]) + ws() + gen_json_text(rnd, depth + 1) for k in keys]
    close = rnd.choice(["}", "}", "}", "", "]", ",}"]) if rnd.random() < 0.2 else "}"
    return "{" + ws() + rnd.choice([",", ", ", ",\n  "]).join(items) + ws() + close


# ------------------------------------------------------------------ structural faults for the reader

def paths_of(v, prefix=()):
    """all (path) into a parsed document; a path is a tuple of keys / indices"""
    out = [prefix]
    if isinstance(v, dict):
        for k, x in v.items():
            out += paths_of(x, prefix + (k,))
    elif isinstance(v, list):
        for i, x in enumerate(v):
            out += paths_of(x, prefix + (i,))
    return out


def edit_at(v, path, f):
    """copy of v with the node at path replaced by f(node); f returns _DROP to remove it"""
    if not path:
        return f(v)
    k = path[0]
    if isinstance(v, dict):
        out = {}
        for kk, x in v.items():
            if kk == k:
                y = edit_at(x, path[1:], f)
                if y is not _DROP:
                    out[kk] = y
            else:
                out[kk] = x
        return out
    out = []
    for i, x in enumerate(v):
        if i == k:
            y = edit_at(x, path[1:], f)
            if y is not _DROP:
                out.append(y)
        else:
            out.append(x)
    return out


_DROP = object()
OTHER_VALUES = [None, True, False, 0, 7, -3, 1.5, "", "s", "version", [], [1], ["version"], {}, {"a": 1}, {"owner": "o", "name": "n"},
                {"owner": "o", "name": "n", "branch": None, "tag": "v1"}, {"owner": "o"}, {"owner": "o", "name": "n", "x": 1},
                [{"unit_name": "f", "start": {"line": 1, "column": 2}, "end": {"line": 3, "column": 4}, "value": 5}]]


def structural_faults(rnd, doc_value, limit):
    """single faults of a parsed report document: (description, new value)"""
    ps = [p for p in paths_of(doc_value) if p]
    rnd.shuffle(ps)
    # prefer paths the reader looks at
    ps.sort(key=lambda p: 0 if ("files" in p or len(p) <= 2) and "totals" not in p and "tree" not in p else 1)
    out = []
    for p in ps[:limit]:
        out.append(("drop %r" % (p,), edit_at(doc_value, p, lambda _x: _DROP)))
        out.append(("retype %r" % (p,), edit_at(doc_value, p, lambda _x, r=rnd: r.choice(OTHER_VALUES))))
    out.append(("retype ()", rnd.choice(OTHER_VALUES)))
    return out


# ------------------------------------------------------------------ comparison helpers

def cmp_loads(text):
    return "jsonparse " + enc_str(text), real_loads(text)


def model_read_req(text, now="NOW"):
    return "read %s %s" % (enc_str(text), enc_str(now))


def compare_read(model_reply, real):
    """None when the model's reader and the real one agree on this document, else a description"""
    if model_reply == "noparse" or real[0] == "noparse":
        return None if (model_reply == "noparse") == (real[0] == "noparse") else "parse acceptance differs"
    if real[0] == "err":
        return None if model_reply == "err " + real[1] else "real raises %s" % real[1]
    if real[0] == "illtyped":
        return None if model_reply == "err type" else "real continues with an ill-typed report; the model must say `err type`"
    if not model_reply.startswith("ok "):
        return "real reads a well-typed report"
    md = dec_report(Words(model_reply[3:]))
    if md["timestamp"] != "NOW":
        return "model timestamp is not the reader's clock"
    if read_fields(md) != read_fields(real[1]):
        return "fields differ"
    return None


# ------------------------------------------------------------------ correspond

def correspond(ctx):
    from codelimit.common.report.ReportReader import ReportReader
    dis, fails = [], []
    dist = {"reports": 0, "files": {}, "repository": {True: 0, False: 0}, "version": {"default": 0, "None": 0, "other": 0},
            "doc_chars": 0, "loads_accept": 0, "loads_reject": 0, "loads_skipped": 0, "reader": {}, "pair_reports": 0, "skipped_specs": 0,
            "string_classes": {}}
    nontrivial = set()
    samples = []
    evals = 0

    # ---- dumps on code point classes + random strings
    strs = [[c] for c in list(range(0, 0x300)) + list(range(0x300, 0x110000, 0x101)) + [0xD7FF, 0xD800, 0xDBFF, 0xDC00, 0xDFFF, 0xE000, 0xFFFF, 0x10000, 0x10FFFF]]
    rnd = ctx.rng("dumps")
    strs += [gen_str(rnd, 12, pairs=rnd.random() < 0.2) for _ in range(ctx.pick(1500, 20000))]
    reqs = ["dumps " + enc_str(from_cps(s)) for s in strs]
    model = common.run_driver_sharded(reqs)
    for s, m in zip(strs, model):
        i = "ok " + enc_str(json.dumps(from_cps(s)))
        evals += 1
        if m != i:
            dis.append({"stream": "dumps", "input": {"stream": "dumps", "s": s}, "model": m[:300], "impl": i[:300]})
    ints = [0, 1, -1, 9, 10, -10, 99, 100, 10 ** 30, -10 ** 30] + [gen_int(rnd) for _ in range(200)]
    model = common.run_driver(["inttext %d" % n for n in ints])
    for n, m in zip(ints, model):
        evals += 1
        if m != "ok " + enc_str("%d" % n) or "%d" % n != f"{n}":
            dis.append({"stream": "inttext", "input": {"stream": "inttext", "n": n}, "model": m, "impl": f"{n}"})

    # ---- reports: writer, oracle, loads on documents and their truncations / mutations, reader
    rnd = ctx.rng("reports")
    nrep = ctx.pick(120, 1500)
    specs = [{"root": cps("/"), "files": [], "repository": None, "version": "default", "uuid": None, "timestamp": None}]
    specs += [gen_spec(rnd, nfiles=rnd.choice([0, 1, 2])) for _ in range(nrep // 3)]
    specs += [gen_spec(rnd) for _ in range(nrep - nrep // 3)]
    srnd = ctx.rng("shaped")
    n_shaped = ctx.pick(40, 400)
    specs += [gen_shaped_spec(srnd) for _ in range(n_shaped)]
    dist["shaped_reports"] = n_shaped
    dups = gen_dup_specs(ctx.rng("dup-members"), ctx.pick(96, 480))
    dist["duplicated_members"] = {}
    for label, _s in dups:
        dist["duplicated_members"][label] = dist["duplicated_members"].get(label, 0) + 1
    specs += [sp for _l, sp in dups]
    pair_specs = [gen_spec(ctx.rng("pairs", i), pairs=True, nfiles=2) for i in range(ctx.pick(15, 150))]
    loads_texts = []           # (origin, text)
    read_texts = []            # (origin, text)
    write_reqs, write_meta = [], []
    for si, spec in enumerate(specs + pair_specs):
        is_pair = si >= len(specs)
        try:
            rep = build_report(spec)
        except Exception:   # noqa: BLE001 - add_file on an odd path is C07's business
            dist["skipped_specs"] += 1
            continue
        d = report_data(rep)
        dist["reports"] += 1
        dist["files"][len(d["files"])] = dist["files"].get(len(d["files"]), 0) + 1
        dist["repository"][d["repository"] is not None] += 1
        dist["version"]["default" if spec["version"] == "default" else "None" if spec["version"] is None else "other"] += 1
        all_strings = [d["root"], d["uuid"], d["timestamp"]] + [k for k, _ in d["files"]] + [m[0] for _, f in d["files"] for m in f[4]]
        for s in all_strings:
            for c in s:
                cl = ("quote/backslash" if c in '"\\' else "control" if ord(c) < 32 else "ascii" if ord(c) < 127 else "DEL" if ord(c) == 127
                      else "surrogate" if 0xD800 <= ord(c) <= 0xDFFF else "bmp" if ord(c) < 0x10000 else "astral")
                dist["string_classes"][cl] = dist["string_classes"].get(cl, 0) + 1
        if is_pair:
            dist["pair_reports"] += 1
        else:
            bad = oracle_report(spec)
            evals += 1
            dist["second_reads"] = dist.get("second_reads", 0) + 2
            if bad:
                fails.append({"input": {"stream": "report", "spec": spec}, "observed": bad, "required": "valid JSON in both forms, same value, lossless read-back, stable rewrite"})
            # the same document read back by a process that is configured differently from the one that wrote it
            crnd = ctx.rng("read-cfg", si)
            paths = [from_cps(f[0]) for f in spec["files"]]
            for label, kw in h4.config_variants([p for p in paths if "\n" not in p and "\x00" not in p], crnd, count=ctx.pick(3, 4)):
                try:
                    badc = oracle_report(spec, read_cfg=kw, probes=False)
                except Exception as e:   # noqa: BLE001 - e.g. pathspec rejecting a pattern: not the report's business
                    dist["configured_skipped"] = dist.get("configured_skipped", 0) + 1
                    continue
                evals += 1
                dist["configured_reads"] = dist.get("configured_reads", 0) + 1
                if badc:
                    fails.append({"input": {"stream": "report-configured", "spec": spec, "read_cfg": kw, "cfg_label": label},
                                  "observed": badc, "required": "the document alone determines what is read back, whatever the reading process is configured for"})
        for pretty in (True, False):
            doc = write_real(rep, pretty)
            dist["doc_chars"] += len(doc)
            write_reqs.append("report %d %s" % (1 if pretty else 0, enc_report(d)))
            write_meta.append((spec, pretty, doc, is_pair))
            loads_texts.append(("document", doc))
            read_texts.append(("document", doc, spec))
            if len(d["files"]) >= 1:
                nontrivial.add((si, pretty))
            if is_pair:
                # the documented json behaviour: pairs are joined
                try:
                    back = report_data(ReportReader.from_json(doc))
                    exp_files = [(from_cps(joined(cps(k))), (from_cps(joined(cps(f[0]))), from_cps(joined(cps(f[1]))), f[2], f[3],
                                                            [(from_cps(joined(cps(m[0]))),) + tuple(m[1:]) for m in f[4]])) for k, f in d["files"]]
                    keys = [k for k, _ in exp_files]
                    if len(set(keys)) == len(keys) and back["files"] != exp_files:
                        fails.append({"input": {"stream": "report-pairs", "spec": spec, "pretty": pretty}, "observed": "files after read-back are not the surrogate-joined originals",
                                      "required": "json joins adjacent escaped surrogates; nothing else may change"})
                except Exception as e:   # noqa: BLE001
                    fails.append({"input": {"stream": "report-pairs", "spec": spec, "pretty": pretty}, "observed": repr(e), "required": "read-back succeeds"})
                continue
            # truncations
            trnd = ctx.rng("trunc", si, pretty)
            n = len(doc)
            if n <= ctx.pick(500, 1500) and si < ctx.pick(12, 60):
                offs = range(n)
            else:
                offs = sorted(set(trnd.randrange(n) for _ in range(ctx.pick(12, 40))) | {0, 1, n - 1, n - 2})
            stripped = len(doc.rstrip())
            for o in offs:
                loads_texts.append(("truncated", doc[:o]))
                if o < stripped and real_loads(doc[:o]) != "none":
                    fails.append({"input": {"stream": "truncation", "spec": spec, "pretty": pretty, "offset": o}, "observed": "a proper prefix parses",
                                  "required": "no proper prefix of an emitted document (other than cutting trailing whitespace) is valid JSON"})
            for _ in range(ctx.pick(6, 25)):
                loads_texts.append(("mutated", mutate_text(trnd, doc)))
            if pretty:
                try:
                    val = json.loads(doc)
                except ValueError:      # the oracle has reported it
                    val = None
                if val is not None:
                    for what, v2 in structural_faults(trnd, val, ctx.pick(8, 30)):
                        read_texts.append((what, json.dumps(v2), spec))
    # ---- value shapes: every shape in the uuid (and one other field) of a small report, oracle only
    shrnd = ctx.rng("shapes-sweep")
    shapes = r5.identifier_shapes(shrnd)
    dist["identifier_shapes"] = len(shapes)
    for k, sh in enumerate(shapes * ctx.pick(1, 4)):
        spec = gen_spec(shrnd, nfiles=shrnd.choice([0, 1]))
        val = break_pairs(cps(sh))
        spec["uuid"] = val
        other = shrnd.choice(["version", "timestamp", "root", "checksum", "owner", "branch", None])
        if other in ("version", "timestamp", "root"):
            spec[other] = val
        elif other == "checksum" and spec["files"]:
            f = spec["files"][0]
            spec["files"][0] = (f[0], val, f[2], f[3], f[4])
        elif other in ("owner", "branch"):
            spec["repository"] = (val, cps("n"), cps("b"), None) if other == "owner" else (cps("o"), cps("n"), val, None)
        evals += 1
        bad = oracle_report(spec, probes=False)
        if bad:
            if sum(1 for f in fails if "shape" in f["input"]) < 3:
                spec = shrink_spec(spec, lambda c: bool(oracle_report(c, probes=False)))
                for fld in ("version", "timestamp"):
                    c = dict(spec, **{fld: None})
                    if oracle_report(c, probes=False):
                        spec = c
                bad = oracle_report(spec, probes=False) or bad
            fails.append({"input": {"stream": "report", "spec": spec, "shape": sh, "also_in": other}, "observed": bad,
                          "required": "valid JSON in both forms, same value, lossless read-back, stable rewrite"})
    # ---- DERIVED STRINGS: every string literal of the source tree under check (pinned and novel) as w, w+w, x+w, w+x, x+w+w, w+x+w,
    # w+w+x in EVERY string field of a small report with a repository (a prefix / suffix normalisation applied at construction
    # and again on read is the identity on w and on x+w, not on x+w+w), oracle only
    derived = derived_pool(ctx)
    dist["derived_strings"] = len(derived)
    n_der = 0
    for k in range(len(derived)):
        spec = derived_spec(derived, k)
        evals += 1
        n_der += 1
        bad = oracle_report(spec, probes=False)
        if bad:
            if sum(1 for f in fails if f["input"].get("derived")) < 3:
                spec = shrink_derived(spec, lambda c: bool(oracle_report(c, probes=False)))
                bad = oracle_report(spec, probes=False) or bad
            fails.append({"input": {"stream": "report", "spec": spec, "derived": True}, "observed": bad,
                          "required": "valid JSON in both forms, same value, lossless read-back, stable rewrite"})
    dist["derived_string_reports"] = n_der
    # ---- size ladders: the property directly (oracle incl. the second-read probe), failing inputs shrunk
    dist["ladder"] = {}
    for label, spec in ladder_specs(ctx):
        evals += 1
        if spec_has_pair(spec):
            dist["ladder"][label] = "skipped (generator produced a surrogate pair)"
            continue
        try:
            bad = oracle_report(spec)
        except RecursionError:
            dist["ladder"][label] = "skipped (recursion limit)"
            continue
        dist["ladder"][label] = "ok" if not bad else "FAILS"
        if bad:
            small = shrink_big(spec, lambda s: (not spec_has_pair(s)) and bool(oracle_report(s)))   # shrinking must not create a pair
            fails.append({"input": {"stream": "report", "spec": small, "ladder": label, "shrunk_from": spec_summary(spec)},
                          "observed": oracle_report(small) or bad, "required": "valid JSON in both forms, same value, lossless read-back, stable rewrite"})
    if not h4.configuration_is_default():
        dis.append({"stream": "configured", "input": {"stream": "configured"}, "model": "default configuration restored", "impl": "configuration left modified"})
    model = common.run_driver_sharded(write_reqs)
    for (spec, pretty, doc, is_pair), m in zip(write_meta, model):
        evals += 1
        i = "ok " + enc_str(doc)
        if m != i:
            mm = Words(m[3:]).str() if m.startswith("ok ") else m
            k = next((j for j, (a, b) in enumerate(zip(mm, doc)) if a != b), min(len(mm), len(doc)))
            dis.append({"stream": "writer", "input": {"stream": "report", "spec": spec, "pretty": pretty},
                        "model": "...%r" % mm[max(0, k - 30):k + 30], "impl": "...%r" % doc[max(0, k - 30):k + 30]})
    # the model's own round trip (theorems round_trip / rewrite_stable evaluated) on the real reports' data
    rt = common.run_driver_sharded([q.replace("report ", "roundtrip ", 1) + " " + enc_str("NOW") for q in write_reqs])
    for (spec, pretty, doc, is_pair), m in zip(write_meta, rt):
        evals += 1
        if not is_pair and m != "ok 1 1 1":
            dis.append({"stream": "model-roundtrip", "input": {"stream": "report", "spec": spec, "pretty": pretty}, "model": m,
                        "impl": "expected `ok 1 1 1`: the model writer/parser/reader must reproduce the real report's data"})
    if write_meta:
        samples.append({"writer": write_meta[min(3, len(write_meta) - 1)][2][:400]})

    # ---- loads
    rnd = ctx.rng("jsontexts")
    for _ in range(ctx.pick(4000, 60000)):
        loads_texts.append(("grammar", gen_json_text(rnd)))
    loads_texts += [("fixed", t) for t in ["", " ", "﻿{}", "{} x", "[1 2]", '{"a":1,}', "[1,]", '{"a" 1}', '"\\ud800\\udc00"', '"\\ud800\\ud801\\udc00"',
                                           '"\\ud800\\n"', '"\\ud800"', '"\\udc00\\ud800"', '"\\ud800\\u"', '"\\ud800\\udc0"', '{"a":1,"b":2,"a":3}',
                                           "-", "-I", "-Infinity", "-Infinit", "1.0", "1.e1", "0e0", "00", "-01", "1 ", " 1", "1\n\n", "[-]", "[1-]",
                                           " {}", "{} ", "{}\x0b", "\x0c[]", "[\"\x7f\"]", "[\"\x1f\"]", "tru", "true ", "[true,false,null]", "[NaN]"]]
    reqs, impls = [], []
    for origin, t in loads_texts:
        q, i = cmp_loads(t)
        reqs.append(q); impls.append(i)
    model = common.run_driver_sharded(reqs)
    for (origin, t), m, i in zip(loads_texts, model, impls):
        evals += 1
        if i == "skip":
            dist["loads_skipped"] += 1
            continue
        dist["loads_accept" if i != "none" else "loads_reject"] += 1
        key = origin + ("+" if i != "none" else "-")
        dist["reader"].setdefault("loads:" + key, 0)
        dist["reader"]["loads:" + key] += 1
        if m != i:
            dis.append({"stream": "loads/" + origin, "input": {"stream": "loads", "text": cps(t)}, "model": m[:200], "impl": i[:200]})
        elif origin != "document" and i != "none":
            nontrivial.add(("loads", t[:200]))
    samples.append({"loads": [(o, t[:60], i[:40]) for (o, t), i in list(zip(loads_texts, impls))[-6:]]})

    # ---- reader
    reqs = [model_read_req(t) for _o, t, _s in read_texts]
    vreqs = ["version " + enc_str(t) for _o, t, _s in read_texts]
    model = common.run_driver_sharded(reqs)
    vmodel = common.run_driver_sharded(vreqs)
    for (origin, t, spec), m, vm in zip(read_texts, model, vmodel):
        evals += 1
        real = real_read(t)
        dist["reader"][real[0] + ("/" + real[1] if real[0] == "err" else "")] = dist["reader"].get(real[0] + ("/" + real[1] if real[0] == "err" else ""), 0) + 1
        why = compare_read(m, real)
        if why:
            dis.append({"stream": "reader", "input": {"stream": "read", "text": cps(t), "fault": origin}, "model": m[:200],
                        "impl": "%s: %s" % (why, str(real)[:200])})
        rv = real_version(t)
        if (vm if vm != "ok n" else "ok none") != rv:
            dis.append({"stream": "get_report_version", "input": {"stream": "version", "text": cps(t), "fault": origin}, "model": vm[:200], "impl": rv[:200]})
        if rv.startswith("real get_report_version does not"):
            # direct oracle of "reading back yields the same version": whatever the document says is returned
            fails.append({"input": {"stream": "version", "text": cps(t), "fault": origin}, "observed": rv,
                          "required": "ReportReader.get_report_version(text) == json.loads(text)['version']"})
    return {
        "evaluations": evals, "distinct_nontrivial": len(nontrivial),
        "rule": ("dumps on every code point 0..0x2ff, every 0x101-th up to 0x10ffff, surrogate/plane boundaries and random strings; "
                "%d random reports (codebase built by the real add_file/aggregate; depth <= 4 with shared folders; quotes, backslashes, controls, NUL, DEL, "
                "non-ASCII, astral, lone surrogates in every string field; repository/version present or absent) x pretty/compact: writer text, "
                "json.loads on the documents, on truncations (every offset for the first small ones, stratified otherwise), on character mutations and on "
                "grammar-generated JSON-like texts; reader on the documents and on single structural faults; every report's oracle includes a second read of "
                "each document after the first result was modified and a second write of the same object; each report re-read under 3 (thorough 4) "
                "configurations of the reading process (Configuration.repository / verbose / exclude patterns / all); size ladders through the oracle: "
                "10^2, 10^3 (thorough ..10^5) files, 10^3, 10^5 (..10^6) characters in one string field, 10^2, 10^4 (..10^5) measurements in one file, "
                "depth 50, 150 (300), 10^2, 10^3 (..10^5) files in ONE folder, 10^2, 10^3 (..10^4) languages = folders in the root; every collection-size "
                "ladder additionally gets the rungs n-1, n, n+1, 2n (and `n files in all`) of every integer literal that is new in the source under check (" + str(r5.novel_only(2, 10 ** 6)[:8] or "none on this tree") + "); "
                "value shapes: " + str(dist.get("shaped_reports", 0)) + " reports through all comparisons and every one of " + str(dist.get("identifier_shapes", 0)) + " identifier spellings "
                "(canonical / upper-case / braced / urn: / bare-hex UUIDs, digests, numbers, versions, dates, refs, whitespace around, novel source literals) as uuid "
                "and in one other string field through the oracle; duplicated members: " + str(sum(dist.get("duplicated_members", {}).values())) + " reports through all comparisons in which a "
                "measurement occurs several times in a file (adjacent, apart, three times, first and last, whole list twice, same list in two files, all equal, "
                "near-duplicates differing in one component) x version state (running, absent, empty, another release, running + suffix, arbitrary); "
                "round 7: derived strings - every string literal of the source tree under check as w, w+w, x+w, w+x, x+w+w, w+x+w, w+w+x (x = `x`, `\u00e9`; thorough "
                "also `a/b`, a blank, `X`): " + str(dist.get("derived_strings", 0)) + " strings, each visiting EVERY string field (root, uuid, timestamp, version, repository owner / name / "
                "branch / tag, folder and file name, checksum, language, unit name) of a one-file report with a repository, through the oracle; case twins: a tenth of "
                "the files of a generated report get a path that differs from an earlier file's only in letter case; non-trivial = documents with >= 1 file and "
                "distinct accepted non-document texts") % dist["reports"],
        "samples": samples, "exhaustive": False, "distribution": dist,
        "disagreements": dis[:50], "oracle_failures": fails[:50],
    }


# ------------------------------------------------------------------ search / replay

def spec_size(spec):
    return sum(len(f[0]) + len(f[1]) + len(f[2]) + sum(len(m[0]) + 5 for m in f[4]) for f in spec["files"]) + len(spec["root"])


def shrink_spec(spec, failing):
    """greedy: drop files, measurements, repository; shorten strings"""
    cur = spec
    changed = True
    while changed:
        changed = False
        cands = []
        for i in range(len(cur["files"])):
            cands.append(dict(cur, files=cur["files"][:i] + cur["files"][i + 1:]))
        for i, f in enumerate(cur["files"]):
            for j in range(len(f[4])):
                nf = (f[0], f[1], f[2], f[3], f[4][:j] + f[4][j + 1:])
                cands.append(dict(cur, files=cur["files"][:i] + [nf] + cur["files"][i + 1:]))
            for fld in (0, 1, 2):
                if len(f[fld]) > 1:
                    for cut in (f[fld][: len(f[fld]) // 2], f[fld][len(f[fld]) // 2:], f[fld][1:], f[fld][:-1]):
                        nf = list(f); nf[fld] = cut
                        cands.append(dict(cur, files=cur["files"][:i] + [tuple(nf)] + cur["files"][i + 1:]))
        if cur["repository"] is not None:
            cands.append(dict(cur, repository=None))
        if len(cur["root"]) > 1:
            cands.append(dict(cur, root=cur["root"][:1]))
        for c in cands:
            try:
                if failing(c):
                    cur = c; changed = True
                    break
            except Exception:   # noqa: BLE001
                continue
    return cur


def search(ctx, hints):
    fails = []
    rnd = ctx.rng("search")
    specs = [h["spec"] for h in hints or [] if h and "spec" in h]
    specs += [gen_spec(rnd) for _ in range(ctx.pick(600, 3000))]
    cfgs = [None, {"repository": h4.CFG_REPOSITORY}, {"repository": h4.CFG_REPOSITORY, "verbose": True, "exclude": ["*"]}]
    for k, spec in enumerate(specs):
        cfg = cfgs[k % len(cfgs)] if k >= len(specs) - ctx.pick(600, 3000) else None
        try:
            bad = oracle_report(spec, read_cfg=cfg)
        except Exception as e:   # noqa: BLE001
            bad = ["the writer/reader raised %r" % (e,)]
        if bad:
            def failing(s, cfg=cfg):
                try:
                    return bool(oracle_report(s, read_cfg=cfg))
                except Exception:   # noqa: BLE001
                    return True
            small = shrink_spec(spec, failing)
            try:
                why = oracle_report(small, read_cfg=cfg)
            except Exception as e:   # noqa: BLE001
                why = ["the writer/reader raised %r" % (e,)]
            inp = {"stream": "report", "spec": small} if cfg is None else {"stream": "report-configured", "spec": small, "read_cfg": cfg}
            fails.append({"input": inp, "observed": why,
                          "required": "valid JSON in both forms, same value, lossless read-back, stable rewrite"})
            if len(fails) >= 3:
                break
    fails.sort(key=lambda f: spec_size(f["input"]["spec"]))
    return fails


def _tuple_spec(spec):
    spec = dict(spec)
    spec["files"] = [(f[0], f[1], f[2], f[3], [tuple(m) for m in f[4]]) for f in spec["files"]]
    if spec["repository"] is not None:
        spec["repository"] = tuple(spec["repository"])
    return spec


def replay(payload):
    inp = payload["input"]
    st = inp.get("stream")
    if st == "report-configured":
        spec = _tuple_spec(inp["spec"])
        cfg = dict(inp["read_cfg"])
        if cfg.get("repository") is not None:
            cfg["repository"] = tuple(cfg["repository"])
        bad = oracle_report(spec, read_cfg=cfg, probes=False)
        print("document (compact): %s\nread back under the configuration %r" % (write_real(build_report(spec), False)[:600], cfg))
        for b in bad:
            print("  FAILS: " + b)
        return not bad
    if st in ("report", "truncation"):
        spec = _tuple_spec(inp["spec"])
        if st == "truncation":
            doc = write_real(build_report(spec), inp["pretty"])
            r = real_loads(doc[:inp["offset"]])
            print("prefix of length %d of the %s document -> %s" % (inp["offset"], "pretty" if inp["pretty"] else "compact", r[:80]))
            return r == "none"
        try:
            bad = oracle_report(spec)
        except Exception as e:   # noqa: BLE001
            bad = ["raised %r" % (e,)]
        rep = build_report(spec)
        print("document (compact): %s" % write_real(rep, False)[:600])
        for b in bad:
            print("  FAILS: " + b)
        return not bad
    if st == "loads":
        t = from_cps(inp["text"])
        m = common.run_driver(["jsonparse " + enc_str(t)])[0]
        i = real_loads(t)
        print("json.loads(%r) -> %s ; model -> %s" % (t[:200], i[:120], m[:120]))
        return m == i
    if st in ("read", "version"):
        t = from_cps(inp["text"])
        m = common.run_driver([model_read_req(t)])[0]
        real = real_read(t)
        why = compare_read(m, real)
        vm = common.run_driver(["version " + enc_str(t)])[0]
        print("reader on %r -> real %s ; model %s ; %s" % (t[:200], str(real)[:120], m[:120], why or "agree"))
        return why is None and (vm if vm != "ok n" else "ok none") == real_version(t)
    if st == "dumps":
        s = from_cps(inp["s"])
        m = common.run_driver(["dumps " + enc_str(s)])[0]
        return m == "ok " + enc_str(json.dumps(s))
    if st == "report-pairs":
        return True
    print("unknown stream %r" % st)
    return False
