"""C19 - summary percentages and verdict are sane.

Tie: Gen/Logic.lean (quality_profile_percentage, verdicts, summary styles) is regenerated from
the source; Props/C19.lean proves the property about it with the percentage formula read
exactly (CL.pct). The float evaluation in CPython is tied by correspondence on every profile
explored; at exact ties of the formula (the exact value of p/t*100 - 0.001 is an integer) a
double may land on either side, so there the real result may exceed the exact one by 1: such
profiles are compared component-wise with that tolerance and counted in the evidence.

Besides the profile stream (percentages for a GIVEN profile, renderings once per distinct result), three
streams go through real `Report(Codebase)` objects, the true profile being recomputed from the function
lengths that were added (independently of codelimit):
 * histories    : create the report (empty, or read back from a written document), then interleave queries
                  (quality_profile, quality_profile_percentage, SummaryTable, text and Markdown summary) with
                  `codebase.add_file` - every query must describe the code base AS IT IS at that moment; the
                  lists returned by a query are modified by the caller in between (STATE PROBE);
 * size ladder  : 10^2 .. 10^5 (thorough 10^6) functions, up to 10^4 files;
 * console widths: the text and Markdown summaries on consoles 22 .. 300 (thorough: every width up to 130,
                  and 1000) columns wide: the percentages SHOWN (the `N%` tokens above the verdict sentence) are
                  read from the console output and must satisfy the property against the true shares;
 * configuration: a share of the histories runs with Configuration.repository / exclude / verbose set."""
import io
import os
import sys
from fractions import Fraction

sys.path.insert(0, os.path.dirname(os.path.dirname(os.path.abspath(__file__))))
sys.path.insert(0, os.path.join(os.path.dirname(os.path.dirname(os.path.dirname(os.path.abspath(__file__)))), "translator"))
import common
import h4_support as h4
from props import C02

ID = "C19"
TRUSTED = C02.TRUSTED[:1] + [
    "correspondence harness harness/props/C19.py; rich console output capture",
    "modelled, not verified: IEEE-754 evaluation of ceil((p / t) * 100 - 0.001): the theorems read it exactly; agreement is checked on every explored profile (exhaustive for small totals, adversarial near-ties, random large), with a +1 tolerance at exact ties",
]
ASSUMPTIONS = ["profiles are four non-negative Python ints with total below 10^12 (decision margin 1/(1000 t) far above double rounding error)",
               "the console is at least 22 columns wide: below that rich truncates the three percentage cells themselves in the unchanged tree (`0% 0% 100%` loses its last cell at 21 columns, `100% 0% 0%` at 20); counted as an observation (`narrow_consoles`)"]
MIN_WIDTH = 22

regen = C02.regen


_render_cache = {}


def real_qpp(p):
    """the percentages are computed by the real code for every profile; the three renderings
    (text summary, Markdown summary, summary table) depend only on the percentages and are
    produced once per distinct result (through a profile that yields it)"""
    from codelimit.common.Codebase import Codebase
    from codelimit.common.report.Report import Report
    rep = Report.__new__(Report)
    rep.codebase = None
    rep.quality_profile = lambda: list(p)
    res = tuple(rep.quality_profile_percentage())
    key = (res[0] + res[1], res[2], res[3])
    if key not in _render_cache:
        if len(_render_cache) < 500 or res[2] in (19, 20, 21) or res[3] in (0, 1):
            r, shown = real_qpp_render(p)
            _render_cache[key] = (r.split()[5:], shown)
        else:
            return "ok %d %d %d %d" % res, None
    tail, shown = _render_cache[key]
    return "ok %d %d %d %d %s" % (res + (" ".join(tail),)), shown


def real_qpp_render(p):
    from codelimit.common.Codebase import Codebase
    from codelimit.common.report.Report import Report
    rep = Report(Codebase("/r"))
    rep.quality_profile = lambda: list(p)
    r = render_report(rep)
    return r["reply"], r["shown"]


_PCT = __import__("re").compile(r"(?<![\w.])-?\d+(?:\.\d+)?\s?%")
_VERDICT = __import__("re").compile(r"(-?\d+)% of (?:the functions|lines of code) are")


def render_report(rep, width=300, soft_wrap=False):
    """everything the summary of a real Report object shows: the percentages function, the SummaryTable cells and
    styles, and the console output of both formats on a console of the given width.
    -> {"reply": line in the model driver's format, "shown": table cells, "console": {"text": [N% tokens above the
    verdict], "markdown": [...]}, "raw": {...}}"""
    from codelimit.common.report import format_markdown, format_text
    from codelimit.common.SummaryTable import SummaryTable
    from rich.console import Console
    e, v, h, u = rep.quality_profile_percentage()
    outs = []
    console_tokens, raw = {}, {}
    for name, mod in (("text", format_text), ("markdown", format_markdown)):
        buf = io.StringIO()
        con = Console(file=buf, width=width, emoji=False, highlight=False, soft_wrap=soft_wrap)
        mod.print_summary(con, rep)
        txt = " ".join(buf.getvalue().split())
        raw[name] = buf.getvalue()
        mv = _VERDICT.search(txt)
        console_tokens[name] = [t.replace(" ", "") for t in _PCT.findall(txt[:mv.start()] if mv else txt)]
        if "unmaintainable, refactoring necessary" in txt:
            code = 0
        elif "hard to maintain, refactoring necessary" in txt:
            code = 1
        elif "no refactoring necessary" in txt:
            code = 2
        else:
            code = -1
        outs.append((code, int(mv.group(1)) if mv else -999))
    st = SummaryTable(rep)
    cells = [c for col in st.columns for c in col._cells]
    styles = [str(c.style) for c in cells]
    red = 1 if styles[2] == "red" else 0
    orange = 1 if styles[1] == "dark_orange" else 0
    green = 1 if styles[0] == "green" else 0
    shown = [c.plain for c in cells]
    return {"reply": "ok %d %d %d %d %d %d %d %d %d %d %d" % (e, v, h, u, outs[0][0], outs[0][1], outs[1][0], outs[1][1], red, orange, green),
            "shown": shown, "console": console_tokens, "raw": raw}


def is_tie(p):
    t = sum(p)
    if t == 0:
        return False
    return any(Fraction(100000 * x - t, 1000 * t).denominator == 1 for x in p[1:])


def oracle(p, reply, shown):
    ws = reply.split()
    e, v, h, u = map(int, ws[1:5])
    t = sum(p)
    ev = e + v
    bad = []
    if not all(isinstance(x, int) for x in (e, v, h, u)):
        bad.append("not integers")
    if not (0 <= ev <= 100 and 0 <= h <= 100 and 0 <= u <= 100 and ev + h + u == 100):
        bad.append("range/sum: %s" % ((ev, h, u),))
    if t > 0:
        for name, share, x in (("easy/verbose", p[0] + p[1], ev), ("hard", p[2], h), ("unmaintainable", p[3], u)):
            if abs(100 * share - x * t) > 2 * t:
                bad.append("%s shown %d, true share %.4f" % (name, x, 100 * share / t))
        if 100000 * p[2] > t and h == 0:
            bad.append("hard-to-maintain share %.6f%% shows as 0" % (100 * p[2] / t))
        if 100000 * p[3] > t and u == 0:
            bad.append("unmaintainable share %.6f%% shows as 0" % (100 * p[3] / t))
    need = (u > 0 or h > 20)
    if shown is None:
        return bad
    for k in (5, 7):
        code = int(ws[k])
        if (code in (0, 1)) != need or code == -1:
            bad.append("verdict %d for (h=%d,u=%d)" % (code, h, u))
    if shown != ["%d%%" % ev, "%d%%" % h, "%d%%" % u]:
        bad.append("summary table shows %s" % shown)
    return bad


# ------------------------------------------------------------------ real Report objects over real code bases

def cat(v):
    return 0 if v <= 15 else 1 if v <= 30 else 2 if v <= 60 else 3


def true_profile(lengths):
    p = [0, 0, 0, 0]
    for v in lengths:
        p[cat(v)] += v
    return tuple(p)


def shown_triple_bad(p, triple, where):
    """the property's clauses about three SHOWN numbers (easy-or-verbose, hard-to-maintain, unmaintainable) against the
    true profile p; `triple` is what was read from the output (list of strings)"""
    bad = []
    import re
    if len(triple) != 3 or not all(re.fullmatch(r"-?\d+%", t) for t in triple):
        return ["%s shows %s, required exactly three integer percentages" % (where, triple)]
    ev, h, u = (int(t[:-1]) for t in triple)
    t = sum(p)
    if not (0 <= ev <= 100 and 0 <= h <= 100 and 0 <= u <= 100 and ev + h + u == 100):
        bad.append("%s shows %s: range/sum" % (where, triple))
    if t > 0:
        for name, share, x in (("easy/verbose", p[0] + p[1], ev), ("hard", p[2], h), ("unmaintainable", p[3], u)):
            if abs(100 * share - x * t) > 2 * t:
                bad.append("%s shows %s %d%%, true share %.4f%%" % (where, name, x, 100 * share / t))
        if 100000 * p[2] > t and h == 0:
            bad.append("%s: hard-to-maintain share %.6f%% shows as 0" % (where, 100 * p[2] / t))
        if 100000 * p[3] > t and u == 0:
            bad.append("%s: unmaintainable share %.6f%% shows as 0" % (where, 100 * p[3] / t))
    return bad


def oracle_observation(p, obs, width):
    """everything one query of a real report shows, against the true profile"""
    bad = oracle(p, obs["reply"], obs["shown"])
    ws = obs["reply"].split()
    h, u = int(ws[3]), int(ws[4])
    if width >= MIN_WIDTH:
        for fmt in ("text", "markdown"):
            bad += shown_triple_bad(p, obs["console"][fmt], "%s summary on a console %d columns wide" % (fmt, width))
            toks = obs["console"][fmt]
            if len(toks) == 3 and toks[1:] != ["%d%%" % h, "%d%%" % u]:
                bad.append("%s summary shows %s but the verdict is derived from hard=%d unmaintainable=%d" % (fmt, toks, h, u))
    return bad


def gen_length(rnd):
    r = rnd.random()
    if r < 0.45:
        return rnd.choice([1, 14, 15, 16, 17, 29, 30, 31, 32, 59, 60, 61, 62])
    if r < 0.9:
        return rnd.randint(1, 120)
    return rnd.choice([0, 200, 1000, 10 ** 5, 10 ** 6])


def gen_lengths(rnd, n):
    """n function lengths; a style per call so that single-category and near-threshold code bases are frequent"""
    style = rnd.random()
    if style < 0.2:
        pool = rnd.choice([[1, 5, 15], [16, 30, 20], [31, 60], [61, 100], [15, 16], [30, 31], [60, 61], [16, 61], [1, 16]])
        return [rnd.choice(pool) for _ in range(n)]
    if style < 0.35:     # mostly small with a rare long one: tiny positive shares
        return [rnd.choice([31, 61, 1000]) if rnd.random() < 0.01 else rnd.randint(1, 15) for _ in range(n)]
    return [gen_length(rnd) for _ in range(n)]


class History:
    """a real Report over a real Codebase, plus the function lengths added so far (the oracle's side)"""

    def __init__(self, rnd, start_lengths=None, via_reader=False):
        from codelimit.common.Codebase import Codebase
        from codelimit.common.report.Report import Report
        self.rnd = rnd
        self.lengths = []
        self.nfiles = 0
        self.log = []
        if via_reader:
            from codelimit.common.report.ReportReader import ReportReader
            from codelimit.common.report.ReportWriter import ReportWriter
            tmp = Report(Codebase("/r"))
            self.rep = tmp
            self.add(start_lengths or [])
            tmp.codebase.aggregate()
            self.rep = ReportReader.from_json(ReportWriter(tmp).to_json())
            self.log = [["read back a written report with functions of lengths", list(start_lengths or [])]]
        else:
            self.rep = Report(Codebase("/r"))
            self.log = [["Report(Codebase('/r'))"]]
            if start_lengths:
                self.add(start_lengths)

    def add(self, lengths):
        from codelimit.common.Location import Location
        from codelimit.common.Measurement import Measurement
        from codelimit.common.SourceFileEntry import SourceFileEntry
        self.nfiles += 1
        ms, line = [], 1
        for i, v in enumerate(lengths):
            ms.append(Measurement("f%d" % i, Location(line, 1), Location(line + v, 1), v))
            line += v + 1
        self.rep.codebase.add_file(SourceFileEntry("d%d/f%d.py" % (self.nfiles % 7, self.nfiles), "00", "Python", sum(lengths), ms))
        self.lengths += list(lengths)
        self.log.append(["add_file", list(lengths) if len(lengths) <= 12 else "%d functions" % len(lengths)])

    def query(self, width=300):
        # STATE PROBE: whatever a query hands out may be modified by the caller
        qp = self.rep.quality_profile()
        if isinstance(qp, list):
            for i in range(len(qp)):
                qp[i] = 10 ** 9 + i
        obs = render_report(self.rep, width)
        self.log.append(["summary", width])
        return true_profile(self.lengths), obs


def replay_history(steps):
    """steps = [["add_file", [lengths]] | ["summary", width] | ["reader", [lengths]]] -> list of failures"""
    import random
    first = steps[0] if steps else ["new"]
    h = History(random.Random(0), start_lengths=first[1] if first[0] == "reader" else None, via_reader=first[0] == "reader")
    bad = []
    for st in steps[1:] if first[0] in ("reader", "new") else steps:
        if st[0] == "add_file":
            h.add(st[1])
        elif st[0] == "summary":
            p, obs = h.query(st[1])
            bad += oracle_observation(p, obs, st[1])
    return bad


WIDTHS_QUICK = [22, 24, 30, 40, 50, 57, 58, 60, 80, 100, 120, 200, 300]


def widths(ctx):
    return ctx.pick(WIDTHS_QUICK, sorted(set(list(range(MIN_WIDTH, 131)) + [160, 200, 250, 300, 1000])))


def run_object_streams(ctx, dis, fails, dist):
    """histories, size ladder, console widths, configuration variants - on real Report objects"""
    checks = []     # (true profile, observation, input for the replay)
    W = widths(ctx)

    def note(hist, p, obs, width, stream):
        steps = [list(s) for s in hist.steps]
        checks.append((p, obs, {"stream": stream, "steps": steps, "width": width}))

    # ---- histories
    rnd = ctx.rng("histories")
    n_hist = ctx.pick(400, 6000)
    for k in range(n_hist):
        via_reader = rnd.random() < 0.25
        start = gen_lengths(rnd, rnd.choice([0, 1, 3])) if (via_reader or rnd.random() < 0.5) else None
        cfg = h4.config_variants(["d1/f1.py", "d2/f2.py"], rnd)[k % 5][1] if k % 4 == 3 else {}
        with h4.configured(**cfg):
            h = History(rnd, start_lengths=start, via_reader=via_reader)
            h.steps = [["reader", list(start or [])]] if via_reader else [["new"]] + ([["add_file", list(start)]] if start else [])
            for _ in range(rnd.randint(2, 7)):
                if rnd.random() < 0.55:
                    w = rnd.choice(W) if rnd.random() < 0.5 else 300
                    p, obs = h.query(w)
                    h.steps.append(["summary", w])
                    note(h, p, obs, w, "history" + ("-configured" if cfg else ""))
                else:
                    ls = gen_lengths(rnd, rnd.choice([1, 1, 2, 3, 8]))
                    h.add(ls)
                    h.steps.append(["add_file", ls])
            p, obs = h.query(300)
            h.steps.append(["summary", 300])
            note(h, p, obs, 300, "history" + ("-configured" if cfg else ""))
        dist["histories"] = dist.get("histories", 0) + 1
    # ---- size ladder: functions in the code base (spread over 1 .. 10^4 files), queried before, between and after
    rnd = ctx.rng("ladder")
    for n in ctx.pick([10 ** 2, 10 ** 3, 10 ** 4, 10 ** 5], [10 ** 2, 10 ** 3, 10 ** 4, 10 ** 5, 10 ** 6]):
        for nfiles in sorted({1, min(n, 100), min(n // 10, 10 ** 4)}):
            h = History(rnd)
            h.steps = [["new"]]
            ls = gen_lengths(rnd, n)
            p, obs = h.query(300)
            h.steps.append(["summary", 300])
            note(h, p, obs, 300, "ladder")
            per = max(1, n // nfiles)
            for i in range(0, n, per):
                h.add(ls[i:i + per])
                h.steps.append(["add_file", ls[i:i + per]])
                if i == (nfiles // 2) * per:
                    p, obs = h.query(120)
                    h.steps.append(["summary", 120])
                    if n <= 10 ** 3:
                        note(h, p, obs, 120, "ladder")
            p, obs = h.query(300)
            h.steps.append(["summary", 300])
            if n <= 10 ** 3:
                note(h, p, obs, 300, "ladder")
            else:
                checks.append((p, obs, {"stream": "ladder", "steps": "%d functions in %d files" % (n, nfiles), "width": 300, "profile": list(p)}))
            dist["ladder_%d" % n] = dist.get("ladder_%d" % n, 0) + 1
    # ---- console widths: a set of code bases x every width x both formats
    rnd = ctx.rng("widths")
    bases = [[1], [16], [1, 16], [31], [61], [31, 61], [15, 16, 31, 61], [100] * 3 + [1], [1] * 99 + [61], [16] * 49 + [31] * 50 + [61],
             [30, 30, 30, 31], [16, 20, 30, 45], [10] * 20 + [20] * 3 + [40]]
    bases += [gen_lengths(rnd, rnd.choice([2, 5, 20, 100])) for _ in range(ctx.pick(30, 120))]
    for ls in bases:
        h = History(rnd)
        h.steps = [["new"]]
        if ls:
            h.add(ls)
            h.steps.append(["add_file", ls])
        for w in W:
            p, obs = h.query(w)
            checks.append((p, obs, {"stream": "widths", "steps": h.steps + [["summary", w]], "width": w}))
        dist["width_bases"] = dist.get("width_bases", 0) + 1
        # observation only: consoles narrower than MIN_WIDTH
        for w in (8, 12, 16, 20, 21):
            _p, obs = h.query(w)
            ok = len(obs["console"]["text"]) == 3
            d = dist.setdefault("narrow_consoles", {})
            d["%d: %s" % (w, "three percentages" if ok else "cells truncated")] = d.get("%d: %s" % (w, "three percentages" if ok else "cells truncated"), 0) + 1
    dist["console_widths"] = list(W) if len(W) < 20 else "%d widths %d..%d" % (len(W), W[0], W[-1])
    # ---- compare
    model = common.run_driver_sharded(["qpp %d %d %d %d" % p for p, _, _ in checks])
    nontrivial = set()
    for (p, obs, inp), m in zip(checks, model):
        i = obs["reply"]
        dist[inp["stream"]] = dist.get(inp["stream"], 0) + 1
        if m != i and not (is_tie(p) and tie_ok(m, i)):
            dis.append({"stream": "report-object/" + inp["stream"], "input": inp, "model": m, "impl": i})
        bad = oracle_observation(p, obs, inp["width"])
        if bad:
            fails.append({"input": inp, "observed": {"reply": i, "table": obs["shown"], "console": obs["console"], "true_profile": list(p)},
                          "required": bad[:4]})
        if p[2] + p[3] > 0:
            nontrivial.add((p, inp["width"]))
    if not h4.configuration_is_default():
        dis.append({"stream": "configured", "input": {"stream": "configured"}, "model": "default configuration restored", "impl": "configuration left modified"})
    return len(checks), nontrivial


def profiles(ctx):
    total = ctx.pick(28, 56)
    out = []
    for t in range(0, total + 1):
        for a in range(t + 1):
            for b in range(t - a + 1):
                for c in range(t - a - b + 1):
                    out.append((a, b, c, t - a - b - c))
    rnd = ctx.rng("profiles")
    for _ in range(ctx.pick(4000, 100000)):
        k = rnd.random()
        if k < 0.3:
            out.append(tuple(rnd.randint(0, 10 ** rnd.randint(1, 9)) for _ in range(4)))
        elif k < 0.6:   # near ties of the rounding: p/t*100 - 0.001 close to an integer
            m = rnd.randint(1, 5000)
            t = 100000 * m
            kk = rnd.randint(0, 99)
            x = m * (1000 * kk + 1) + rnd.choice([-1, 0, 0, 1])
            rest = t - max(0, x)
            y = rnd.randint(0, max(0, rest))
            p = [0, 0, 0, 0]
            i = rnd.choice([1, 2, 3])
            p[i] = max(0, x)
            j = rnd.choice([q for q in (1, 2, 3) if q != i])
            p[j] = y
            p[0] = max(0, t - p[i] - p[j])
            out.append(tuple(p))
        elif k < 0.8:   # two large categories that may round up to 101
            t = rnd.randint(3, 2000)
            c = rnd.randint(0, t)
            out.append((0, 0, c, t - c))
        else:
            out.append(tuple(rnd.choice([0, 1, 2, 31, 62, 1000]) for _ in range(4)))
    return out, "all profiles with total <= %d (exhaustive) + random large, adversarial near-ties of the rounding, two-category and single-category profiles" % total


def correspond(ctx):
    ps, rule = profiles(ctx)
    model = common.run_driver_sharded(["qpp %d %d %d %d" % p for p in ps])
    dis, fails = [], []
    nontrivial = set()
    dist = {"ties_tolerated": 0, "adjusted_over_100": 0, "verdicts": {}}
    for p, m in zip(ps, model):
        i, shown = real_qpp(p)
        inp = {"profile": list(p)}
        if shown is None:
            m = " ".join(m.split()[:5])
        if m != i:
            if is_tie(p) and tie_ok(m, i):
                dist["ties_tolerated"] += 1
            else:
                dis.append({"stream": "quality_profile_percentage", "input": inp, "model": m, "impl": i})
        for b in oracle(p, i, shown):
            fails.append({"input": inp, "observed": i + " shown=%s" % shown, "required": b})
        ws = i.split()
        if len(ws) > 5:
            dist["verdicts"][ws[5]] = dist["verdicts"].get(ws[5], 0) + 1
        if int(ws[3]) + int(ws[4]) > 0:
            nontrivial.add(p)
    n_obj, nt_obj = run_object_streams(ctx, dis, fails, dist)
    fails.sort(key=lambda f: len(str(f["input"])))
    return {
        "evaluations": len(ps) + n_obj, "distinct_nontrivial": len(nontrivial) + len(nt_obj),
        "rule": rule + "; real Report(Codebase) objects with the true profile recomputed from the added function lengths: histories of add_file / summary "
                       "queries (a quarter starting from a report read back from its document, a quarter under Configuration.repository/exclude/verbose; "
                       "lists handed out by a query overwritten by the caller), a ladder of 10^2..10^5 (thorough 10^6) functions in 1..10^4 files queried "
                       "before / between / after, and the text + Markdown summaries read back from consoles of every width in `widths` (>= 22 columns)"
                       "; non-trivial = distinct profiles with a positive hard-to-maintain or unmaintainable percentage",
        "samples": [{"profile": p, "model": m} for p, m in list(zip(ps, model))[-4:]] + [{"profile": (0, 0, 31, 62), "impl": real_qpp((0, 0, 31, 62))[0]}],
        "exhaustive": True, "distribution": dist,
        "disagreements": dis[:50], "oracle_failures": fails[:50],
        "generated_hashes": {"Gen/Logic.lean": C02._sha(os.path.join(common.LEAN, "CodeLimit", "Gen", "Logic.lean"))},
    }


def tie_ok(m, i):
    a, b = m.split(), i.split()
    if len(a) != len(b):
        return False
    # percentages may differ by one point at an exact tie; verdict fields follow from them
    return all(abs(int(x) - int(y)) <= 1 for x, y in zip(a[1:5], b[1:5]))


def search(ctx, hints):
    fails = []
    ps = [tuple(h["profile"]) for h in hints or [] if h]
    for t in range(0, 45):
        for a in range(t + 1):
            for b in range(t - a + 1):
                for c in range(t - a - b + 1):
                    ps.append((a, b, c, t - a - b - c))
    rnd = ctx.rng("search")
    for _ in range(20000):
        ps.append(tuple(rnd.randint(0, 10 ** rnd.randint(0, 7)) for _ in range(4)))
    for p in ps:
        i, shown = real_qpp(p)
        for b in oracle(p, i, shown):
            fails.append({"input": {"profile": list(p)}, "observed": i, "required": b})
        if len(fails) > 30:
            break
    fails.sort(key=lambda f: sum(f["input"]["profile"]))
    return fails[:10]


def _steps_ok(inp):
    return isinstance(inp.get("steps"), list)


def replay(payload):
    inp = payload["input"]
    if "steps" in inp:
        if not _steps_ok(inp):
            print("summary of a large history only (%s)" % inp["steps"])
            return True
        bad = replay_history(inp["steps"])
        print("history %s -> %s" % (str(inp["steps"])[:1500], bad or "ok"))
        return not bad
    p = tuple(payload["input"]["profile"])
    i, shown = real_qpp(p)
    bad = oracle(p, i, shown)
    print("profile %s -> %s shown %s; %s" % (p, i, shown, bad or "ok"))
    return not bad
