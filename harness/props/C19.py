"""C19 - summary percentages and verdict are sane.

Tie: Gen/Logic.lean (quality_profile_percentage, verdicts, summary styles) is regenerated from
the source; Props/C19.lean proves the property about it with the percentage formula read
exactly (CL.pct). The float evaluation in CPython is tied by correspondence on every profile
explored; at exact ties of the formula (the exact value of p/t*100 - 0.001 is an integer) a
double may land on either side, so there the real result may exceed the exact one by 1: such
profiles are compared component-wise with that tolerance and counted in the evidence.

Besides the profile stream (percentages for a GIVEN profile, renderings once per distinct result), three
streams go through real `Report(Codebase)` objects, the true profile being recomputed from the function
lengths that were added (independently of codelimit):
 * histories    : create the report (empty, or read back from a written document), then interleave queries
                  (quality_profile, quality_profile_percentage, SummaryTable, text and Markdown summary) with
                  `codebase.add_file` - every query must describe the code base AS IT IS at that moment; the
                  lists returned by a query are modified by the caller in between (STATE PROBE);
 * size ladder  : 10^2 .. 10^5 (thorough 10^6) functions, up to 10^4 files;
 * console widths: the text and Markdown summaries on consoles 22 .. 300 (thorough: every width up to 130,
                  and 1000) columns wide: the percentages SHOWN (the `N%` tokens above the verdict sentence) are
                  read from the console output and must satisfy the property against the true shares;
 * configuration: a share of the histories runs with Configuration.repository / exclude / verbose set.

Round 5: OBSERVATION POINTS - the summary is also read from what `print_report(console, report, diff_report)` prints
(both formats, with and without a comparison report), from `report_command` on written reports and from the CLI entry
function in a fresh interpreter; ORDER - the files of a code base carry several languages in interleaved order.

Round 6: SCAN HISTORIES on real working trees (`harness/h4_round6.py`): scan / edit (add, remove, copy, move, modify, touch,
exclude, remove a folder) / scan - the summary `codelimit scan` prints (scan_command) and the one `codelimit report`
prints afterwards must show the shares of the files that are in the tree at that scan (truth: the construction of the sources)."""
import io
import os
import sys
from fractions import Fraction

sys.path.insert(0, os.path.dirname(os.path.dirname(os.path.abspath(__file__))))
sys.path.insert(0, os.path.join(os.path.dirname(os.path.dirname(os.path.dirname(os.path.abspath(__file__)))), "translator"))
import common
import h4_support as h4
import h4_round5 as r5
import h4_round6 as r6
import h4_round7 as r7
from props import C02

ID = "C19"
TRUSTED = C02.TRUSTED[:1] + [
    "correspondence harness harness/props/C19.py; rich console output capture",
    "modelled, not verified: IEEE-754 evaluation of ceil((p / t) * 100 - 0.001): the theorems read it exactly; agreement is checked on every explored profile (exhaustive for small totals, adversarial near-ties, random large), with a +1 tolerance at exact ties",
]
ASSUMPTIONS = ["profiles are four non-negative Python ints with total below 10^12 (decision margin 1/(1000 t) far above double rounding error)",
               "the console is at least 22 columns wide: below that rich truncates the three percentage cells themselves in the unchanged tree (`0% 0% 100%` loses its last cell at 21 columns, `100% 0% 0%` at 20); counted as an observation (`narrow_consoles`)"]
MIN_WIDTH = 22

regen = C02.regen


_render_cache = {}


def real_qpp(p):
    """the percentages are computed by the real code for every profile; the three renderings
    (text summary, Markdown summary, summary table) depend only on the percentages and are
    produced once per distinct result (through a profile that yields it)"""
    from codelimit.common.Codebase import Codebase
    from codelimit.common.report.Report import Report
    rep = Report.__new__(Report)
    rep.codebase = None
    rep.quality_profile = lambda: list(p)
    res = tuple(rep.quality_profile_percentage())
    key = (res[0] + res[1], res[2], res[3])
    if key not in _render_cache:
        if len(_render_cache) < 500 or res[2] in (19, 20, 21) or res[3] in (0, 1):
            r, shown = real_qpp_render(p)
            _render_cache[key] = (r.split()[5:], shown)
        else:
            return "ok %d %d %d %d" % res, None
    tail, shown = _render_cache[key]
    return "ok %d %d %d %d %s" % (res + (" ".join(tail),)), shown


def real_qpp_render(p):
    from codelimit.common.Codebase import Codebase
    from codelimit.common.report.Report import Report
    rep = Report(Codebase("/r"))
    rep.quality_profile = lambda: list(p)
    r = render_report(rep)
    return r["reply"], r["shown"]


_PCT = __import__("re").compile(r"(?<![\w.])-?\d+(?:\.\d+)?\s?%")
_VERDICT = __import__("re").compile(r"(-?\d+)% of (?:the functions|lines of code) are")


def read_summary(raw, from_report=False):
    """what a printed summary shows: -> (the `N%` tokens of the summary's figures, verdict code, number in the verdict).
    The figures are the percentages between the `Summary` heading and the verdict sentence; when the summary has a
    `Totals` row (one row per language above it) the figures of the whole code base are that row's."""
    txt = " ".join(raw.split())
    mv = _VERDICT.search(txt)
    head = txt[:mv.start()] if mv else txt
    k = head.rfind("Summary")
    if k >= 0:
        head = head[k:]
    elif from_report:
        head = ""
    toks = [t.replace(" ", "") for t in _PCT.findall(head)]
    if "Totals" in head and len(toks) > 3:
        toks = toks[-3:]
    if "unmaintainable, refactoring necessary" in txt:
        code = 0
    elif "hard to maintain, refactoring necessary" in txt:
        code = 1
    elif "no refactoring necessary" in txt:
        code = 2
    else:
        code = -1
    return toks, code, (int(mv.group(1)) if mv else -999)


def render_report(rep, width=300, soft_wrap=False, diff=None, through_report=False):
    """everything the summary of a real Report object shows: the percentages function, the SummaryTable cells and
    styles, and the console output of both formats on a console of the given width.
    -> {"reply": line in the model driver's format, "shown": table cells, "console": {"text": [N% tokens above the
    verdict], "markdown": [...]}, "raw": {...}}"""
    from codelimit.common.report import format_markdown, format_text
    from codelimit.common.SummaryTable import SummaryTable
    from rich.console import Console
    e, v, h, u = rep.quality_profile_percentage()
    outs = []
    console_tokens, raw = {}, {}
    for name, mod in (("text", format_text), ("markdown", format_markdown)):
        buf = io.StringIO()
        con = Console(file=buf, width=width, emoji=False, highlight=False, soft_wrap=soft_wrap)
        mod.print_summary(con, rep)
        raw[name] = buf.getvalue()
        toks, code, num = read_summary(buf.getvalue())
        console_tokens[name] = toks
        outs.append((code, num))
        if through_report or diff is not None:
            # OBSERVATION POINT: the summary as `codelimit report [--diff previous]` prints it (print_report)
            buf = io.StringIO()
            con = Console(file=buf, width=width, emoji=False, highlight=False, soft_wrap=soft_wrap)
            mod.print_report(con, rep, diff)
            raw[name + "-report"] = buf.getvalue()
            toks, code2, num2 = read_summary(buf.getvalue(), from_report=True)
            console_tokens[name + "-report"] = toks
            console_tokens[name + "-report-verdict"] = [code2, num2]
    st = SummaryTable(rep)
    cells = [c for col in st.columns for c in col._cells]
    styles = [str(c.style) for c in cells]
    red = 1 if styles[2] == "red" else 0
    orange = 1 if styles[1] == "dark_orange" else 0
    green = 1 if styles[0] == "green" else 0
    shown = [c.plain for c in cells]
    return {"reply": "ok %d %d %d %d %d %d %d %d %d %d %d" % (e, v, h, u, outs[0][0], outs[0][1], outs[1][0], outs[1][1], red, orange, green),
            "shown": shown, "console": console_tokens, "raw": raw}


def is_tie(p):
    t = sum(p)
    if t == 0:
        return False
    return any(Fraction(100000 * x - t, 1000 * t).denominator == 1 for x in p[1:])


def oracle(p, reply, shown):
    ws = reply.split()
    e, v, h, u = map(int, ws[1:5])
    t = sum(p)
    ev = e + v
    bad = []
    if not all(isinstance(x, int) for x in (e, v, h, u)):
        bad.append("not integers")
    if not (0 <= ev <= 100 and 0 <= h <= 100 and 0 <= u <= 100 and ev + h + u == 100):
        bad.append("range/sum: %s" % ((ev, h, u),))
    if t > 0:
        for name, share, x in (("easy/verbose", p[0] + p[1], ev), ("hard", p[2], h), ("unmaintainable", p[3], u)):
            if abs(100 * share - x * t) > 2 * t:
                bad.append("%s shown %d, true share %.4f" % (name, x, 100 * share / t))
        if 100000 * p[2] > t and h == 0:
            bad.append("hard-to-maintain share %.6f%% shows as 0" % (100 * p[2] / t))
        if 100000 * p[3] > t and u == 0:
            bad.append("unmaintainable share %.6f%% shows as 0" % (100 * p[3] / t))
    need = (u > 0 or h > 20)
    if shown is None:
        return bad
    for k in (5, 7):
        code = int(ws[k])
        if (code in (0, 1)) != need or code == -1:
            bad.append("verdict %d for (h=%d,u=%d)" % (code, h, u))
    if shown != ["%d%%" % ev, "%d%%" % h, "%d%%" % u]:
        bad.append("summary table shows %s" % shown)
    return bad


# ------------------------------------------------------------------ real Report objects over real code bases

def cat(v):
    return 0 if v <= 15 else 1 if v <= 30 else 2 if v <= 60 else 3


def true_profile(lengths):
    p = [0, 0, 0, 0]
    for v in lengths:
        p[cat(v)] += v
    return tuple(p)


def shown_triple_bad(p, triple, where):
    """the property's clauses about three SHOWN numbers (easy-or-verbose, hard-to-maintain, unmaintainable) against the
    true profile p; `triple` is what was read from the output (list of strings)"""
    bad = []
    import re
    if len(triple) != 3 or not all(re.fullmatch(r"-?\d+%", t) for t in triple):
        return ["%s shows %s, required exactly three integer percentages" % (where, triple)]
    ev, h, u = (int(t[:-1]) for t in triple)
    t = sum(p)
    if not (0 <= ev <= 100 and 0 <= h <= 100 and 0 <= u <= 100 and ev + h + u == 100):
        bad.append("%s shows %s: range/sum" % (where, triple))
    if t > 0:
        for name, share, x in (("easy/verbose", p[0] + p[1], ev), ("hard", p[2], h), ("unmaintainable", p[3], u)):
            if abs(100 * share - x * t) > 2 * t:
                bad.append("%s shows %s %d%%, true share %.4f%%" % (where, name, x, 100 * share / t))
        if 100000 * p[2] > t and h == 0:
            bad.append("%s: hard-to-maintain share %.6f%% shows as 0" % (where, 100 * p[2] / t))
        if 100000 * p[3] > t and u == 0:
            bad.append("%s: unmaintainable share %.6f%% shows as 0" % (where, 100 * p[3] / t))
    return bad


def oracle_observation(p, obs, width):
    """everything one query of a real report shows, against the true profile"""
    bad = oracle(p, obs["reply"], obs["shown"])
    ws = obs["reply"].split()
    h, u = int(ws[3]), int(ws[4])
    if width >= MIN_WIDTH:
        for fmt in ("text", "markdown", "text-report", "markdown-report"):
            if fmt not in obs["console"]:
                continue
            bad += shown_triple_bad(p, obs["console"][fmt], "%s summary on a console %d columns wide" % (fmt, width))
            toks = obs["console"][fmt]
            if len(toks) == 3 and toks[1:] != ["%d%%" % h, "%d%%" % u]:
                bad.append("%s summary shows %s but the verdict is derived from hard=%d unmaintainable=%d" % (fmt, toks, h, u))
            v = obs["console"].get(fmt + "-verdict")
            if v is not None:
                bad += verdict_bad(toks, v[0], v[1], fmt)
    return bad


def verdict_bad(toks, code, num, where):
    """the verdict sentence against the three SHOWN percentages: refactoring necessary exactly when unmaintainable > 0 or
    hard-to-maintain > 20; the number in the sentence is the deciding percentage"""
    import re
    if len(toks) != 3 or not all(re.fullmatch(r"-?\d+%", t) for t in toks):
        return []
    ev, h, u = (int(t[:-1]) for t in toks)
    want = 0 if u > 0 else 1 if h > 20 else 2
    if code != want:
        return ["%s: verdict %d for the shown (easy/verbose=%d, hard=%d, unmaintainable=%d), required %d (0 = unmaintainable, 1 = hard to maintain, 2 = fine)"
                % (where, code, ev, h, u, want)]
    if num != (u, h, ev)[want]:
        return ["%s: the verdict names %d%%, the summary shows %d%%" % (where, num, (u, h, ev)[want])]
    return []


def gen_length(rnd):
    r = rnd.random()
    if r < 0.45:
        return rnd.choice([1, 14, 15, 16, 17, 29, 30, 31, 32, 59, 60, 61, 62])
    if r < 0.9:
        return rnd.randint(1, 120)
    return rnd.choice([0, 200, 1000, 10 ** 5, 10 ** 6])


def gen_lengths(rnd, n):
    """n function lengths; a style per call so that single-category and near-threshold code bases are frequent"""
    style = rnd.random()
    if style < 0.2:
        pool = rnd.choice([[1, 5, 15], [16, 30, 20], [31, 60], [61, 100], [15, 16], [30, 31], [60, 61], [16, 61], [1, 16]])
        return [rnd.choice(pool) for _ in range(n)]
    if style < 0.35:     # mostly small with a rare long one: tiny positive shares
        return [rnd.choice([31, 61, 1000]) if rnd.random() < 0.01 else rnd.randint(1, 15) for _ in range(n)]
    return [gen_length(rnd) for _ in range(n)]


class History:
    """a real Report over a real Codebase, plus the function lengths added so far (the oracle's side)"""

    def __init__(self, rnd, start_lengths=None, via_reader=False):
        from codelimit.common.Codebase import Codebase
        from codelimit.common.report.Report import Report
        self.rnd = rnd
        self.lengths = []
        self.files = []
        self.nfiles = 0
        self.paths, self.pathset = [], set()
        self.log = []
        if via_reader:
            from codelimit.common.report.ReportReader import ReportReader
            from codelimit.common.report.ReportWriter import ReportWriter
            tmp = Report(Codebase("/r"))
            self.rep = tmp
            self.add(start_lengths or [])
            tmp.codebase.aggregate()
            self.rep = ReportReader.from_json(ReportWriter(tmp).to_json())
            self.log = [["read back a written report with functions of lengths", list(start_lengths or [])]]
        else:
            self.rep = Report(Codebase("/r"))
            self.log = [["Report(Codebase('/r'))"]]
            if start_lengths:
                self.add(start_lengths)

    def add(self, lengths, language="Python", path=None):
        """path None: drawn from the path pool (mostly d<i>/f<k>.<ext>, a share of CASE TWINS of the paths added before)"""
        from codelimit.common.Location import Location
        from codelimit.common.Measurement import Measurement
        from codelimit.common.SourceFileEntry import SourceFileEntry
        self.nfiles += 1
        ms, line = [], 1
        for i, v in enumerate(lengths):
            ms.append(Measurement("f%d" % i, Location(line, 1), Location(line + v, 1), v))
            line += v + 1
        if path is None:
            path = r7.pool_path(self.rnd, self.paths, "d%d/f%d.%s" % (self.nfiles % 7, self.nfiles, LANG_EXT.get(language, "x")), taken_set=self.pathset)
        self.paths.append(path)
        self.pathset.add(path)
        self.rep.codebase.add_file(SourceFileEntry(path, "00", language, sum(lengths), ms))
        self.lengths += list(lengths)
        self.files.append([list(lengths), language, path])
        self.last_path = path
        self.log.append(["add_file", list(lengths) if len(lengths) <= 12 else "%d functions" % len(lengths)])

    def query(self, width=300, prev_files=None, through_report=False):
        """prev_files: None | [[lengths, language], ...] = the code base of a comparison report (`--diff`)"""
        # STATE PROBE: whatever a query hands out may be modified by the caller
        qp = self.rep.quality_profile()
        if isinstance(qp, list):
            for i in range(len(qp)):
                qp[i] = 10 ** 9 + i
        diff = build_files_report(prev_files) if prev_files is not None else None
        obs = render_report(self.rep, width, diff=diff, through_report=through_report)
        self.log.append(["summary", width])
        return true_profile(self.lengths), obs


LANG_EXT = {"Python": "py", "TypeScript": "ts", "Java": "java", "C": "c", "JavaScript": "js", "C++": "cpp", "Go": "go"}
LANG_POOL = list(LANG_EXT)


def with_paths(rnd, files):
    """give every file [lengths, language] of a generated code base its path from the path pool (CASE TWINS included)"""
    out = []
    for k, f in enumerate(files):
        out.append([f[0], f[1], r7.pool_path(rnd, [g[2] for g in out], "d%d/f%d.%s" % (k % 5, k, LANG_EXT.get(f[1], "x")))])
    return out


def build_files_report(files, root="/r"):
    """a real Report over a real, aggregated Codebase with the given files ([[lengths, language(, path)], ...], in this order)"""
    from codelimit.common.Codebase import Codebase
    from codelimit.common.Location import Location
    from codelimit.common.Measurement import Measurement
    from codelimit.common.SourceFileEntry import SourceFileEntry
    from codelimit.common.report.Report import Report
    cb = Codebase(root)
    for k, f in enumerate(files):
        lengths, language = f[0], f[1]
        ms, line = [], 1
        for i, v in enumerate(lengths):
            ms.append(Measurement("f%d" % i, Location(line, 1), Location(line + v, 1), v))
            line += v + 1
        path = f[2] if len(f) > 2 and f[2] else "d%d/f%d.%s" % (k % 5, k, LANG_EXT.get(language, "x"))
        cb.add_file(SourceFileEntry(path, "00", language, sum(lengths), ms))
    cb.aggregate()
    return Report(cb)


def replay_history(steps):
    """steps = [["add_file", [lengths]] | ["summary", width] | ["reader", [lengths]]] -> list of failures"""
    import random
    first = steps[0] if steps else ["new"]
    h = History(random.Random(0), start_lengths=first[1] if first[0] == "reader" else None, via_reader=first[0] == "reader")
    bad = []
    for st in steps[1:] if first[0] in ("reader", "new") else steps:
        if st[0] == "add_file":
            h.add(st[1], st[2] if len(st) > 2 else "Python", st[3] if len(st) > 3 else "d%d/f%d.%s" % ((h.nfiles + 1) % 7, h.nfiles + 1, LANG_EXT.get(st[2] if len(st) > 2 else "Python", "x")))
        elif st[0] == "summary":
            p, obs = h.query(st[1], st[2] if len(st) > 2 else None, bool(st[3]) if len(st) > 3 else False)
            bad += oracle_observation(p, obs, st[1])
    return bad


def run_report_command(cur, prev, width, fresh=False):
    """write the report(s) with ReportWriter into a scratch code base directory, run report_command(path, format, diff)
    for both formats on a console `width` wide and judge the printed summary against the true shares of `cur`
    -> list of reasons"""
    import contextlib
    import shutil
    import tempfile
    from pathlib import Path
    from codelimit.commands.report import report_command
    from codelimit.common.report.ReportFormat import ReportFormat
    from codelimit.common.report.ReportWriter import ReportWriter
    p = true_profile([v for f in cur for v in f[0]])
    d = tempfile.mkdtemp(prefix="c19_")
    old_cols = os.environ.get("COLUMNS")
    os.environ["COLUMNS"] = str(width)
    bad = []
    try:
        cache = Path(d) / ".codelimit_cache"
        cache.mkdir()
        (cache / "codelimit.json").write_text(ReportWriter(build_files_report(cur, d)).to_json())
        diff_path = None
        if prev is not None:
            diff_path = Path(d) / "previous.json"
            diff_path.write_text(ReportWriter(build_files_report(prev, d)).to_json())
        for fmt in (ReportFormat.text, ReportFormat.markdown):
            if fresh:
                code, out, err = r5.run_entry({"command": "report", "path": d, "diff": str(diff_path) if diff_path else None, "format": fmt.value},
                                              cwd=d, columns=width)
                if code != 0:
                    bad.append("`codelimit report` exits with %s: %s" % (code, (out + err)[-300:]))
                    continue
            else:
                buf = io.StringIO()
                with contextlib.redirect_stdout(buf):
                    report_command(Path(d), fmt, diff_path)
                out = buf.getvalue()
            toks, code, num = read_summary(out, from_report=True)
            where = "`codelimit report --format %s%s` on a console %d columns wide" % (fmt.value, " --diff previous.json" if prev is not None else "", width)
            bad += shown_triple_bad(p, toks, where)
            bad += verdict_bad(toks, code, num, where)
            if code == -1:
                bad.append("%s: no verdict sentence" % where)
    finally:
        if old_cols is None:
            os.environ.pop("COLUMNS", None)
        else:
            os.environ["COLUMNS"] = old_cols
        shutil.rmtree(d, ignore_errors=True)
    return bad


def observe_tree(tree, step, state):
    """one observation step of a scan / edit / scan history on a real working tree -> list of reasons.
    ["scan", width]: the summary `codelimit scan` prints must show the shares of the tree AS IT IS NOW (truth by
    construction of the sources); ["report", fmt, width]: `codelimit report` describes the tree as it was at the LAST scan"""
    bad = []
    if step[0] == "scan":
        out = r6.scan_command_output(tree.root, step[1])
        state["scanned"] = list(tree.lengths())
        p = true_profile(state["scanned"])
        where = "the summary printed by `codelimit scan` (scan number %d of this tree, console %d wide)" % (state.get("scans", 0) + 1, step[1])
        state["scans"] = state.get("scans", 0) + 1
    else:
        if state.get("scanned") is None:
            return []
        out = r6.report_command_output(tree.root, step[1], step[2])
        p = true_profile(state["scanned"])
        where = "`codelimit report --format %s` after scan number %d (console %d wide)" % (step[1], state.get("scans", 0), step[2])
    toks, code, num = read_summary(out, from_report=True)
    bad += shown_triple_bad(p, toks, where)
    bad += verdict_bad(toks, code, num, where)
    if code == -1:
        bad.append("%s: no verdict sentence" % where)
    if bad:
        bad.append("true profile of the scanned files: %s" % (list(p),))
    return bad


def run_scan_history(rnd, k, exts):
    """-> (steps, failures, number of observations)"""
    import shutil
    import tempfile
    d = tempfile.mkdtemp(prefix="c19_tree_")
    state, fails, nobs = {}, [], 0
    try:
        tree = r6.start_tree(d, rnd, exts)

        def obs(step):
            tree.log.append(list(step))
            b = observe_tree(tree, step, state)
            if b:
                fails.append(b)
            return 1
        nobs += obs(["scan", rnd.choice([80, 120, 200])])
        for r in range(rnd.choice([1, 2, 2, 3])):
            if rnd.random() < 0.25:
                nobs += obs(["report", rnd.choice(["text", "markdown"]), 200])
            r6.do_round(tree, rnd, k + r)
            if rnd.random() < 0.15:
                nobs += obs(["report", "text", 200])       # before the re-scan: still the last scanned state
            nobs += obs(["scan", rnd.choice([80, 120, 200])])
            if rnd.random() < 0.5:
                nobs += obs(["report", rnd.choice(["text", "markdown"]), rnd.choice([80, 200])])
        return [list(s) for s in tree.log], fails, nobs
    finally:
        shutil.rmtree(d, ignore_errors=True)


def replay_scan_history(steps):
    import shutil
    import tempfile
    d = tempfile.mkdtemp(prefix="c19_tree_")
    state, fails = {}, []
    try:
        r6.replay_tree(d, steps, lambda tree, st: fails.extend(observe_tree(tree, st, state)))
    finally:
        shutil.rmtree(d, ignore_errors=True)
    return fails


def shrink_scan_history(steps):
    """drop edit / observation steps while the history still fails"""
    def failing(s):
        try:
            return bool(replay_scan_history(s))
        except Exception:   # noqa: BLE001 - a dropped step made a later one inapplicable
            return False
    cur = list(steps)
    i = 0
    while i < len(cur) and len(cur) > 1:
        cand = cur[:i] + cur[i + 1:]
        if failing(cand):
            cur = cand
        else:
            i += 1
    return cur


WIDTHS_QUICK = [22, 24, 30, 40, 50, 57, 58, 60, 80, 100, 120, 200, 300]


def widths(ctx):
    return ctx.pick(WIDTHS_QUICK, sorted(set(list(range(MIN_WIDTH, 131)) + [160, 200, 250, 300, 1000])))


def run_object_streams(ctx, dis, fails, dist):
    """histories, size ladder, console widths, configuration variants - on real Report objects"""
    checks = []     # (true profile, observation, input for the replay)
    W = widths(ctx)

    def note(hist, p, obs, width, stream):
        steps = [list(s) for s in hist.steps]
        checks.append((p, obs, {"stream": stream, "steps": steps, "width": width}))

    # ---- histories
    rnd = ctx.rng("histories")
    n_hist = ctx.pick(400, 6000)
    for k in range(n_hist):
        via_reader = rnd.random() < 0.25
        start = gen_lengths(rnd, rnd.choice([0, 1, 3])) if (via_reader or rnd.random() < 0.5) else None
        cfg = h4.config_variants(["d1/f1.py", "d2/f2.py"], rnd)[k % 5][1] if k % 4 == 3 else {}
        # NAMES / ORDER: 1..4 languages, a file's language drawn per file, so the files of a language are not adjacent
        langs = rnd.sample(LANG_POOL, rnd.choice([1, 1, 2, 3, 4]))
        with h4.configured(**cfg):
            h = History(rnd, start_lengths=start, via_reader=via_reader)
            h.steps = [["reader", list(start or [])]] if via_reader else [["new"]] + ([["add_file", list(start)]] if start else [])

            def ask(w):
                # OBSERVATION POINT: a share of the queries also goes through print_report, with a comparison report
                # (an earlier state of this code base, another code base, the same one, an empty one) or without
                r = rnd.random()
                prev, through = None, False
                if r < 0.4:
                    through = True
                    k = rnd.random()
                    if k < 0.4:
                        prev = [list(f) for f in h.files[:rnd.randint(0, len(h.files))]]
                    elif k < 0.6:
                        prev = with_paths(rnd, [[gen_lengths(rnd, rnd.choice([1, 3, 8])), rnd.choice(langs)] for _ in range(rnd.randint(1, 3))])
                    elif k < 0.75:
                        prev = [list(f) for f in h.files]
                    elif k < 0.85:
                        prev = []
                p, obs = h.query(w, prev, through)
                h.steps.append(["summary", w] + ([prev, through] if through else []))
                note(h, p, obs, w, "history" + ("-configured" if cfg else "") + ("-diff" if prev is not None else "-report" if through else ""))
            for _ in range(rnd.randint(2, 7)):
                if rnd.random() < 0.55:
                    ask(rnd.choice(W) if rnd.random() < 0.5 else 300)
                else:
                    ls = gen_lengths(rnd, rnd.choice([1, 1, 2, 3, 8]))
                    lang = rnd.choice(langs)
                    h.add(ls, lang)
                    h.steps.append(["add_file", ls, lang, h.last_path])
            ask(300)
        dist["histories"] = dist.get("histories", 0) + 1
        if r7.has_case_twins([f[2] for f in h.files]):
            dist["histories_with_case_twin_paths"] = dist.get("histories_with_case_twin_paths", 0) + 1
        nl = len({f[1] for f in h.files})
        dist.setdefault("languages_per_history", {})[nl] = dist.setdefault("languages_per_history", {}).get(nl, 0) + 1
        seq = [f[1] for f in h.files]
        if any(seq[i] != seq[i + 1] and seq[i] in seq[i + 2:] for i in range(len(seq) - 2)):
            dist["histories_with_interleaved_languages"] = dist.get("histories_with_interleaved_languages", 0) + 1
    # ---- size ladder: functions in the code base (spread over 1 .. 10^4 files), queried before, between and after
    rnd = ctx.rng("ladder")
    for n in ctx.pick([10 ** 2, 10 ** 3, 10 ** 4, 10 ** 5], [10 ** 2, 10 ** 3, 10 ** 4, 10 ** 5, 10 ** 6]):
        for nfiles in sorted({1, min(n, 100), min(n // 10, 10 ** 4)}):
            h = History(rnd)
            h.steps = [["new"]]
            ls = gen_lengths(rnd, n)
            p, obs = h.query(300)
            h.steps.append(["summary", 300])
            note(h, p, obs, 300, "ladder")
            per = max(1, n // nfiles)
            for i in range(0, n, per):
                h.add(ls[i:i + per])
                h.steps.append(["add_file", ls[i:i + per], "Python", h.last_path])
                if i == (nfiles // 2) * per:
                    p, obs = h.query(120)
                    h.steps.append(["summary", 120])
                    if n <= 10 ** 3:
                        note(h, p, obs, 120, "ladder")
            p, obs = h.query(300)
            h.steps.append(["summary", 300])
            if n <= 10 ** 3:
                note(h, p, obs, 300, "ladder")
            else:
                checks.append((p, obs, {"stream": "ladder", "steps": "%d functions in %d files" % (n, nfiles), "width": 300, "profile": list(p)}))
            dist["ladder_%d" % n] = dist.get("ladder_%d" % n, 0) + 1
    # ---- console widths: a set of code bases x every width x both formats
    rnd = ctx.rng("widths")
    bases = [[1], [16], [1, 16], [31], [61], [31, 61], [15, 16, 31, 61], [100] * 3 + [1], [1] * 99 + [61], [16] * 49 + [31] * 50 + [61],
             [30, 30, 30, 31], [16, 20, 30, 45], [10] * 20 + [20] * 3 + [40]]
    bases += [gen_lengths(rnd, rnd.choice([2, 5, 20, 100])) for _ in range(ctx.pick(30, 120))]
    for ls in bases:
        h = History(rnd)
        h.steps = [["new"]]
        if ls:
            # two or three files of two languages, the first language before AND after the second one
            cut = [ls[:len(ls) // 3], ls[len(ls) // 3: 2 * len(ls) // 3], ls[2 * len(ls) // 3:]]
            for part, lang in zip(cut, ("Python", "TypeScript", "Python")):
                if part:
                    h.add(part, lang)
                    h.steps.append(["add_file", part, lang, h.last_path])
        for wi, w in enumerate(W):
            through = wi % 3 == 0
            p, obs = h.query(w, None, through)
            checks.append((p, obs, {"stream": "widths", "steps": h.steps + [["summary", w] + ([None, True] if through else [])], "width": w}))
        dist["width_bases"] = dist.get("width_bases", 0) + 1
        # observation only: consoles narrower than MIN_WIDTH
        for w in (8, 12, 16, 20, 21):
            _p, obs = h.query(w)
            ok = len(obs["console"]["text"]) == 3
            d = dist.setdefault("narrow_consoles", {})
            d["%d: %s" % (w, "three percentages" if ok else "cells truncated")] = d.get("%d: %s" % (w, "three percentages" if ok else "cells truncated"), 0) + 1
    dist["console_widths"] = list(W) if len(W) < 20 else "%d widths %d..%d" % (len(W), W[0], W[-1])
    # ---- OBSERVATION POINT: `codelimit report [--diff F] [--format X]` on written reports (report_command; a few in a fresh process)
    rnd = ctx.rng("commands")
    n_cmd = ctx.pick(60, 600)
    n_fresh = ctx.pick(2, 20)
    for k in range(n_cmd + n_fresh):
        langs = rnd.sample(LANG_POOL, rnd.choice([1, 2, 2, 3, 4]))
        cur = with_paths(rnd, [[gen_lengths(rnd, rnd.choice([1, 2, 3, 8])), rnd.choice(langs)] for _ in range(rnd.randint(1, 6))])
        if r7.has_case_twins([f[2] for f in cur]):
            dist["commands_with_case_twin_paths"] = dist.get("commands_with_case_twin_paths", 0) + 1
        r = rnd.random()
        prev = None if r < 0.3 else [list(f) for f in cur[:rnd.randint(0, len(cur))]] if r < 0.6 else \
            with_paths(rnd, [[gen_lengths(rnd, rnd.choice([1, 3, 8])), rnd.choice(langs)] for _ in range(rnd.randint(0, 3))]) if r < 0.9 else [list(f) for f in cur]
        w = rnd.choice([60, 80, 100, 120, 200, 300])
        fresh = k >= n_cmd
        bad = run_report_command(cur, prev, w, fresh)
        dist["commands" + ("-fresh-process" if fresh else "")] = dist.get("commands" + ("-fresh-process" if fresh else ""), 0) + 1
        if bad:
            fails.append({"input": {"stream": "commands", "cur": cur, "prev": prev, "width": w, "fresh": fresh}, "observed": bad[:4],
                          "required": "the summary printed by `codelimit report` shows the current code base's shares (C19), with or without --diff"})
    # ---- HISTORIES ON DISK: scan / edit (add, remove, copy, move, modify, touch, exclude, remove a folder) / scan, observed
    # at the summary `codelimit scan` prints and at later `codelimit report` runs; truth = the sources' construction
    rnd = ctx.rng("scan-histories")
    n_scan_hist = ctx.pick(60, 900)
    for k in range(n_scan_hist):
        exts = [("py",), ("py", "c"), ("py",), ("py", "c", "java", "ts", "js")][k % 4]
        steps, bad, nobs = run_scan_history(rnd, k, exts)
        dist["scan_histories"] = dist.get("scan_histories", 0) + 1
        dist["scan_history_observations"] = dist.get("scan_history_observations", 0) + nobs
        for st in steps:
            if st[0] == "add" and len(st) > 3:
                dist["scan_history_case_twin_adds"] = dist.get("scan_history_case_twin_adds", 0) + 1
            if st[0] not in ("scan", "report"):
                dist.setdefault("scan_history_edits", {})[st[0]] = dist.setdefault("scan_history_edits", {}).get(st[0], 0) + 1
        if bad:
            if sum(1 for f in fails if f["input"].get("stream") == "scan-history") < 3:
                steps = shrink_scan_history(steps)
                bad = [replay_scan_history(steps)] or bad
            fails.append({"input": {"stream": "scan-history", "tree_steps": steps}, "observed": bad[0][:4],
                          "required": "the summary printed by `codelimit scan` (and by a later `codelimit report`) shows the shares of the files that are "
                                      "in the working tree at that scan (C19: within two points of the true share, verdict from the shown figures)"})
    # ---- compare
    model = common.run_driver_sharded(["qpp %d %d %d %d" % p for p, _, _ in checks])
    nontrivial = set()
    for (p, obs, inp), m in zip(checks, model):
        i = obs["reply"]
        dist[inp["stream"]] = dist.get(inp["stream"], 0) + 1
        if m != i and not (is_tie(p) and tie_ok(m, i)):
            dis.append({"stream": "report-object/" + inp["stream"], "input": inp, "model": m, "impl": i})
        bad = oracle_observation(p, obs, inp["width"])
        if bad:
            fails.append({"input": inp, "observed": {"reply": i, "table": obs["shown"], "console": obs["console"], "true_profile": list(p)},
                          "required": bad[:4]})
        if p[2] + p[3] > 0:
            nontrivial.add((p, inp["width"]))
    if not h4.configuration_is_default():
        dis.append({"stream": "configured", "input": {"stream": "configured"}, "model": "default configuration restored", "impl": "configuration left modified"})
    return len(checks) + dist.get("scan_history_observations", 0), nontrivial


def profiles(ctx):
    total = ctx.pick(28, 56)
    out = []
    for t in range(0, total + 1):
        for a in range(t + 1):
            for b in range(t - a + 1):
                for c in range(t - a - b + 1):
                    out.append((a, b, c, t - a - b - c))
    rnd = ctx.rng("profiles")
    for _ in range(ctx.pick(4000, 100000)):
        k = rnd.random()
        if k < 0.3:
            out.append(tuple(rnd.randint(0, 10 ** rnd.randint(1, 9)) for _ in range(4)))
        elif k < 0.6:   # near ties of the rounding: p/t*100 - 0.001 close to an integer
            m = rnd.randint(1, 5000)
            t = 100000 * m
            kk = rnd.randint(0, 99)
            x = m * (1000 * kk + 1) + rnd.choice([-1, 0, 0, 1])
            rest = t - max(0, x)
            y = rnd.randint(0, max(0, rest))
            p = [0, 0, 0, 0]
            i = rnd.choice([1, 2, 3])
            p[i] = max(0, x)
            j = rnd.choice([q for q in (1, 2, 3) if q != i])
            p[j] = y
            p[0] = max(0, t - p[i] - p[j])
            out.append(tuple(p))
        elif k < 0.8:   # two large categories that may round up to 101
            t = rnd.randint(3, 2000)
            c = rnd.randint(0, t)
            out.append((0, 0, c, t - c))
        else:
            out.append(tuple(rnd.choice([0, 1, 2, 31, 62, 1000]) for _ in range(4)))
    return out, "all profiles with total <= %d (exhaustive) + random large, adversarial near-ties of the rounding, two-category and single-category profiles" % total


def correspond(ctx):
    ps, rule = profiles(ctx)
    model = common.run_driver_sharded(["qpp %d %d %d %d" % p for p in ps])
    dis, fails = [], []
    nontrivial = set()
    dist = {"ties_tolerated": 0, "adjusted_over_100": 0, "verdicts": {}}
    for p, m in zip(ps, model):
        i, shown = real_qpp(p)
        inp = {"profile": list(p)}
        if shown is None:
            m = " ".join(m.split()[:5])
        if m != i:
            if is_tie(p) and tie_ok(m, i):
                dist["ties_tolerated"] += 1
            else:
                dis.append({"stream": "quality_profile_percentage", "input": inp, "model": m, "impl": i})
        for b in oracle(p, i, shown):
            fails.append({"input": inp, "observed": i + " shown=%s" % shown, "required": b})
        ws = i.split()
        if len(ws) > 5:
            dist["verdicts"][ws[5]] = dist["verdicts"].get(ws[5], 0) + 1
        if int(ws[3]) + int(ws[4]) > 0:
            nontrivial.add(p)
    n_obj, nt_obj = run_object_streams(ctx, dis, fails, dist)
    fails.sort(key=lambda f: len(str(f["input"])))
    return {
        "evaluations": len(ps) + n_obj, "distinct_nontrivial": len(nontrivial) + len(nt_obj),
        "rule": rule + "; real Report(Codebase) objects with the true profile recomputed from the added function lengths: histories of add_file / summary "
                       "queries (a quarter starting from a report read back from its document, a quarter under Configuration.repository/exclude/verbose; "
                       "lists handed out by a query overwritten by the caller), a ladder of 10^2..10^5 (thorough 10^6) functions in 1..10^4 files queried "
                       "before / between / after, and the text + Markdown summaries read back from consoles of every width in `widths` (>= 22 columns)"
                       "; round 5: the files of a history carry 1..4 languages drawn per file (interleaved order); 40 % of the history queries and every third "
                       "width query also go through format_text / format_markdown.print_report - without a comparison report or with one (an earlier state of "
                       "the same code base, another code base, an identical one, an empty one) - and the summary part of that output is judged like the plain "
                       "summary, including the verdict sentence against the SHOWN figures (a `Totals` row, when there is one, holds the figures of the code base); "
                       "commands: written reports of 1..6 files in 1..4 interleaved languages through report_command(path, text | markdown, diff | None) on "
                       "consoles 60..300 wide, a few through the CLI entry function in a fresh interpreter"
                       "; round 6: " + str(dist.get("scan_histories", 0)) + " scan / edit / scan histories on real working trees (1..7 source files of 1..5 languages whose function lengths "
                       "are known by construction; edits: add, add an empty file, add a non-source file, remove, remove a folder, copy, move, modify, touch, "
                       "exclude through a new .gitignore line; every third round is ONE edit of one kind) observed at the summary `codelimit scan` prints "
                       "(scan_command, consoles 80..200) and at `codelimit report` (text / Markdown) after and between the scans: " + str(dist.get("scan_history_observations", 0)) + " observations"
                       "; round 7: CASE TWINS in every path pool - a fifth of the files added to a history, to the code base of a written report and to "
                       "a comparison report, and the `add-twin` / copy-to-twin / move-to-twin edits of the working trees, get a path that differs from an "
                       "earlier file's path only in the letter case of a folder name or of the file name's stem (two files on a case-sensitive file system): "
                       + str(dist.get("histories_with_case_twin_paths", 0)) + " histories, " + str(dist.get("commands_with_case_twin_paths", 0)) + " written reports, "
                       + str(dist.get("scan_history_case_twin_adds", 0)) + " working-tree adds with such paths"
                       "; non-trivial = distinct profiles with a positive hard-to-maintain or unmaintainable percentage",
        "samples": [{"profile": p, "model": m} for p, m in list(zip(ps, model))[-4:]] + [{"profile": (0, 0, 31, 62), "impl": real_qpp((0, 0, 31, 62))[0]}],
        "exhaustive": True, "distribution": dist,
        "disagreements": dis[:50], "oracle_failures": fails[:50],
        "generated_hashes": {"Gen/Logic.lean": C02._sha(os.path.join(common.LEAN, "CodeLimit", "Gen", "Logic.lean"))},
    }


def tie_ok(m, i):
    a, b = m.split(), i.split()
    if len(a) != len(b):
        return False
    # percentages may differ by one point at an exact tie; verdict fields follow from them
    return all(abs(int(x) - int(y)) <= 1 for x, y in zip(a[1:5], b[1:5]))


def search(ctx, hints):
    fails = []
    ps = [tuple(h["profile"]) for h in hints or [] if h]
    for t in range(0, 45):
        for a in range(t + 1):
            for b in range(t - a + 1):
                for c in range(t - a - b + 1):
                    ps.append((a, b, c, t - a - b - c))
    rnd = ctx.rng("search")
    for _ in range(20000):
        ps.append(tuple(rnd.randint(0, 10 ** rnd.randint(0, 7)) for _ in range(4)))
    for p in ps:
        i, shown = real_qpp(p)
        for b in oracle(p, i, shown):
            fails.append({"input": {"profile": list(p)}, "observed": i, "required": b})
        if len(fails) > 30:
            break
    fails.sort(key=lambda f: sum(f["input"]["profile"]))
    return fails[:10]


def _steps_ok(inp):
    return isinstance(inp.get("steps"), list)


def replay(payload):
    inp = payload["input"]
    if inp.get("stream") == "scan-history":
        bad = replay_scan_history(inp["tree_steps"])
        print("working tree history %s -> %s" % (inp["tree_steps"], bad or "ok"))
        return not bad
    if inp.get("stream") == "commands":
        bad = run_report_command(inp["cur"], inp["prev"], inp["width"], bool(inp.get("fresh")))
        print("report_command on current %s previous %s -> %s" % (inp["cur"], inp["prev"], bad or "ok"))
        return not bad
    if "steps" in inp:
        if not _steps_ok(inp):
            print("summary of a large history only (%s)" % inp["steps"])
            return True
        bad = replay_history(inp["steps"])
        print("history %s -> %s" % (str(inp["steps"])[:1500], bad or "ok"))
        return not bad
    p = tuple(payload["input"]["profile"])
    i, shown = real_qpp(p)
    bad = oracle(p, i, shown)
    print("profile %s -> %s shown %s; %s" % (p, i, shown, bad or "ok"))
    return not bad
