"""C19 - summary percentages and verdict are sane.

Tie: Gen/Logic.lean (quality_profile_percentage, verdicts, summary styles) is regenerated from
the source; Props/C19.lean proves the property about it with the percentage formula read
exactly (CL.pct). The float evaluation in CPython is tied by correspondence on every profile
explored; at exact ties of the formula (the exact value of p/t*100 - 0.001 is an integer) a
double may land on either side, so there the real result may exceed the exact one by 1: such
profiles are compared component-wise with that tolerance and counted in the evidence."""
import io
import os
import sys
from fractions import Fraction

sys.path.insert(0, os.path.dirname(os.path.dirname(os.path.abspath(__file__))))
sys.path.insert(0, os.path.join(os.path.dirname(os.path.dirname(os.path.dirname(os.path.abspath(__file__)))), "translator"))
import common
from props import C02

ID = "C19"
TRUSTED = C02.TRUSTED[:1] + [
    "correspondence harness harness/props/C19.py; rich console output capture",
    "modelled, not verified: IEEE-754 evaluation of ceil((p / t) * 100 - 0.001): the theorems read it exactly; agreement is checked on every explored profile (exhaustive for small totals, adversarial near-ties, random large), with a +1 tolerance at exact ties",
]
ASSUMPTIONS = ["profiles are four non-negative Python ints with total below 10^12 (decision margin 1/(1000 t) far above double rounding error)"]

regen = C02.regen


_render_cache = {}


def real_qpp(p):
    """the percentages are computed by the real code for every profile; the three renderings
    (text summary, Markdown summary, summary table) depend only on the percentages and are
    produced once per distinct result (through a profile that yields it)"""
    from codelimit.common.Codebase import Codebase
    from codelimit.common.report.Report import Report
    rep = Report.__new__(Report)
    rep.codebase = None
    rep.quality_profile = lambda: list(p)
    res = tuple(rep.quality_profile_percentage())
    key = (res[0] + res[1], res[2], res[3])
    if key not in _render_cache:
        if len(_render_cache) < 500 or res[2] in (19, 20, 21) or res[3] in (0, 1):
            r, shown = real_qpp_render(p)
            _render_cache[key] = (r.split()[5:], shown)
        else:
            return "ok %d %d %d %d" % res, None
    tail, shown = _render_cache[key]
    return "ok %d %d %d %d %s" % (res + (" ".join(tail),)), shown


def real_qpp_render(p):
    from codelimit.common.Codebase import Codebase
    from codelimit.common.report.Report import Report
    from codelimit.common.report import format_markdown, format_text
    from codelimit.common.SummaryTable import SummaryTable
    from rich.console import Console
    rep = Report(Codebase("/r"))
    rep.quality_profile = lambda: list(p)
    e, v, h, u = rep.quality_profile_percentage()
    outs = []
    for mod in (format_text, format_markdown):
        buf = io.StringIO()
        con = Console(file=buf, width=300, emoji=False, highlight=False)
        mod.print_summary(con, rep)
        txt = " ".join(buf.getvalue().split())
        if "unmaintainable, refactoring necessary" in txt:
            code = 0
        elif "hard to maintain, refactoring necessary" in txt:
            code = 1
        elif "no refactoring necessary" in txt:
            code = 2
        else:
            code = -1
        import re
        m = re.search(r"(-?\d+)% of (?:the functions|lines of code) are", txt)
        outs.append((code, int(m.group(1)) if m else -999))
    st = SummaryTable(rep)
    cells = [c for col in st.columns for c in col._cells]
    styles = [str(c.style) for c in cells]
    red = 1 if styles[2] == "red" else 0
    orange = 1 if styles[1] == "dark_orange" else 0
    green = 1 if styles[0] == "green" else 0
    shown = [c.plain for c in cells]
    return "ok %d %d %d %d %d %d %d %d %d %d %d" % (e, v, h, u, outs[0][0], outs[0][1], outs[1][0], outs[1][1], red, orange, green), shown


def is_tie(p):
    t = sum(p)
    if t == 0:
        return False
    return any(Fraction(100000 * x - t, 1000 * t).denominator == 1 for x in p[1:])


def oracle(p, reply, shown):
    ws = reply.split()
    e, v, h, u = map(int, ws[1:5])
    t = sum(p)
    ev = e + v
    bad = []
    if not all(isinstance(x, int) for x in (e, v, h, u)):
        bad.append("not integers")
    if not (0 <= ev <= 100 and 0 <= h <= 100 and 0 <= u <= 100 and ev + h + u == 100):
        bad.append("range/sum: %s" % ((ev, h, u),))
    if t > 0:
        for name, share, x in (("easy/verbose", p[0] + p[1], ev), ("hard", p[2], h), ("unmaintainable", p[3], u)):
            if abs(100 * share - x * t) > 2 * t:
                bad.append("%s shown %d, true share %.4f" % (name, x, 100 * share / t))
        if 100000 * p[2] > t and h == 0:
            bad.append("hard-to-maintain share %.6f%% shows as 0" % (100 * p[2] / t))
        if 100000 * p[3] > t and u == 0:
            bad.append("unmaintainable share %.6f%% shows as 0" % (100 * p[3] / t))
    need = (u > 0 or h > 20)
    if shown is None:
        return bad
    for k in (5, 7):
        code = int(ws[k])
        if (code in (0, 1)) != need or code == -1:
            bad.append("verdict %d for (h=%d,u=%d)" % (code, h, u))
    if shown != ["%d%%" % ev, "%d%%" % h, "%d%%" % u]:
        bad.append("summary table shows %s" % shown)
    return bad


def profiles(ctx):
    total = ctx.pick(28, 56)
    out = []
    for t in range(0, total + 1):
        for a in range(t + 1):
            for b in range(t - a + 1):
                for c in range(t - a - b + 1):
                    out.append((a, b, c, t - a - b - c))
    rnd = ctx.rng("profiles")
    for _ in range(ctx.pick(4000, 100000)):
        k = rnd.random()
        if k < 0.3:
            out.append(tuple(rnd.randint(0, 10 ** rnd.randint(1, 9)) for _ in range(4)))
        elif k < 0.6:   # near ties of the rounding: p/t*100 - 0.001 close to an integer
            m = rnd.randint(1, 5000)
            t = 100000 * m
            kk = rnd.randint(0, 99)
            x = m * (1000 * kk + 1) + rnd.choice([-1, 0, 0, 1])
            rest = t - max(0, x)
            y = rnd.randint(0, max(0, rest))
            p = [0, 0, 0, 0]
            i = rnd.choice([1, 2, 3])
            p[i] = max(0, x)
            j = rnd.choice([q for q in (1, 2, 3) if q != i])
            p[j] = y
            p[0] = max(0, t - p[i] - p[j])
            out.append(tuple(p))
        elif k < 0.8:   # two large categories that may round up to 101
            t = rnd.randint(3, 2000)
            c = rnd.randint(0, t)
            out.append((0, 0, c, t - c))
        else:
            out.append(tuple(rnd.choice([0, 1, 2, 31, 62, 1000]) for _ in range(4)))
    return out, "all profiles with total <= %d (exhaustive) + random large, adversarial near-ties of the rounding, two-category and single-category profiles" % total


def correspond(ctx):
    ps, rule = profiles(ctx)
    model = common.run_driver_sharded(["qpp %d %d %d %d" % p for p in ps])
    dis, fails = [], []
    nontrivial = set()
    dist = {"ties_tolerated": 0, "adjusted_over_100": 0, "verdicts": {}}
    for p, m in zip(ps, model):
        i, shown = real_qpp(p)
        inp = {"profile": list(p)}
        if shown is None:
            m = " ".join(m.split()[:5])
        if m != i:
            if is_tie(p) and tie_ok(m, i):
                dist["ties_tolerated"] += 1
            else:
                dis.append({"stream": "quality_profile_percentage", "input": inp, "model": m, "impl": i})
        for b in oracle(p, i, shown):
            fails.append({"input": inp, "observed": i + " shown=%s" % shown, "required": b})
        ws = i.split()
        if len(ws) > 5:
            dist["verdicts"][ws[5]] = dist["verdicts"].get(ws[5], 0) + 1
        if int(ws[3]) + int(ws[4]) > 0:
            nontrivial.add(p)
    return {
        "evaluations": len(ps), "distinct_nontrivial": len(nontrivial),
        "rule": rule + "; non-trivial = distinct profiles with a positive hard-to-maintain or unmaintainable percentage",
        "samples": [{"profile": p, "model": m} for p, m in list(zip(ps, model))[-4:]] + [{"profile": (0, 0, 31, 62), "impl": real_qpp((0, 0, 31, 62))[0]}],
        "exhaustive": True, "distribution": dist,
        "disagreements": dis[:50], "oracle_failures": fails[:50],
        "generated_hashes": {"Gen/Logic.lean": C02._sha(os.path.join(common.LEAN, "CodeLimit", "Gen", "Logic.lean"))},
    }


def tie_ok(m, i):
    a, b = m.split(), i.split()
    if len(a) != len(b):
        return False
    # percentages may differ by one point at an exact tie; verdict fields follow from them
    return all(abs(int(x) - int(y)) <= 1 for x, y in zip(a[1:5], b[1:5]))


def search(ctx, hints):
    fails = []
    ps = [tuple(h["profile"]) for h in hints or [] if h]
    for t in range(0, 45):
        for a in range(t + 1):
            for b in range(t - a + 1):
                for c in range(t - a - b + 1):
                    ps.append((a, b, c, t - a - b - c))
    rnd = ctx.rng("search")
    for _ in range(20000):
        ps.append(tuple(rnd.randint(0, 10 ** rnd.randint(0, 7)) for _ in range(4)))
    for p in ps:
        i, shown = real_qpp(p)
        for b in oracle(p, i, shown):
            fails.append({"input": {"profile": list(p)}, "observed": i, "required": b})
        if len(fails) > 30:
            break
    fails.sort(key=lambda f: sum(f["input"]["profile"]))
    return fails[:10]


def replay(payload):
    p = tuple(payload["input"]["profile"])
    i, shown = real_qpp(p)
    bad = oracle(p, i, shown)
    print("profile %s -> %s shown %s; %s" % (p, i, shown, bad or "ok"))
    return not bad
