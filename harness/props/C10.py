"""C10 - a damaged or partial cache never breaks or taints the next scan.

Proof: Props/C10.lean over Model/Cache.lean (`damaged_cache_harmless`,
`faults_interleaved_harmless`, `truncated_write_harmless` from the byte contract).
Tie: the REAL `scan_command` on temp dirs. After every fault the next scan must complete, report
exactly what a from-scratch scan of a copy of the tree reports, leave a cache that the following
scan can use (checked by running that scan too: it reuses everything), and agree with the model
on report entries, reused and analysed paths and the state of the cache directory.  What a
damaged file IS for the model (missing / junk / document of version v with rows) is decided by
the abstraction function `cache_real.abstract_cache`, written from the report format and not from
ReportReader; the byte contract of C10.2 (a proper prefix that lacks a non-whitespace byte is
unreadable, one that lacks only whitespace reads the same, a complete file reads as written) is
evaluated with it at every offset explored.

Streams: (1) truncation at every byte offset of a small cache (one file) and at stratified
(quick) / all (thorough) offsets of a larger one (four files); (2) structural faults on a
two-file cache: junk texts (empty, blank, not JSON, invalid UTF-8, wrong top-level types, objects
lacking keys), every key removed at every level, every value (object members and list elements)
replaced by values of every other JSON type, empty and non-empty; (3) cache directory without
file and/or marker files, directory removed; (4) random histories of faults, edits and scans."""
import json
import os
import sys

sys.path.insert(0, os.path.dirname(os.path.dirname(os.path.abspath(__file__))))
import common  # noqa: F401
import cache_real as cr

ID = "C10"
TRUSTED = [
    "correspondence harness harness/props/C10.py + harness/cache_real.py (fault injection on the real cache file; abstraction function abstract_cache; rich output silenced by patching rich, not codelimit)",
    "the byte contract (ByteContract: round trip, unreadable proper prefixes, whitespace cuts) is a hypothesis of truncated_write_harmless; it is checked at every explored offset on the real writer and reader, and proved for the JSON model under C08",
]
ASSUMPTIONS = [
    "an interrupted write leaves a prefix of the bytes being written (or the old file, or an empty file); no other process writes the cache concurrently",
    "`.codelimit_cache` is a directory and `codelimit.json` a readable regular file when they exist (permission errors and a directory in place of the file are outside the property)",
    "marker files (CACHEDIR.TAG, .gitignore) are only observed: a scan does not restore them in an existing directory (DESIGN Appendix A)",
]

SMALL = [(0, 1)]
LARGE = [(0, 3), (1, 2), (2, 3), (3, 3)]
MEDIUM = [(0, 1), (2, 2)]
OTHER_VALUES = [None, 7, 1.5, True, "", "x", [], [1], {}, {"k": 1}]


def jtype(v):
    if v is None:
        return "null"
    if isinstance(v, bool):
        return "bool"
    if isinstance(v, (int, float)):
        return "number"
    if isinstance(v, str):
        return "string"
    return "array" if isinstance(v, list) else "object"


def probe(init):
    w = cr.new_world(init, 0)
    try:
        w.apply(["s"])
        return w.cache_bytes()
    finally:
        w.close()


def json_paths(doc, prefix=()):
    """every member of every object and every element of every list, outermost first"""
    out = []
    if isinstance(doc, dict):
        for k, v in doc.items():
            out.append((list(prefix) + [k], v))
            out += json_paths(v, tuple(prefix) + (k,))
    elif isinstance(doc, list):
        for i, v in enumerate(doc):
            out.append((list(prefix) + [i], v))
            out += json_paths(v, tuple(prefix) + (i,))
    return out


def structural_faults(doc):
    cur = cr.cl()["CUR"]
    faults = [["bytes", t.decode("latin-1").replace("0.18.1", cur)] for t in cr.JUNK]
    faults += [["bytes", "{\"version\": \"%s\", \"uuid\": \"u\", \"root\": \"/\", \"codebase\": {\"files\": {\"a.py\": %s}}}" % (cur, e)]
               for e in ("null", "[]", "{}", "\"x\"", "{\"checksum\": \"x\", \"language\": \"Python\", \"loc\": 1}")]
    for path, v in json_paths(doc):
        if isinstance(path[-1], str):
            faults.append(["jdel", path])
        for o in OTHER_VALUES:
            if jtype(o) != jtype(v) or (isinstance(v, int) and isinstance(o, float)):
                faults.append(["jset", path, o])
    return faults


def gen_fault_history(rnd, paths, maxlen):
    init = [(p, rnd.randrange(cr.NCONTENT)) for p in range(len(cr.PATHS)) if rnd.random() < 0.7]
    ops = [["s"]] if rnd.random() < 0.8 else []
    for _ in range(rnd.randint(2, maxlen)):
        r = rnd.random()
        if r < 0.3:
            ops.append(["s"])
        elif r < 0.38:
            ops.append(["w", rnd.randrange(len(cr.PATHS)), rnd.randrange(cr.NCONTENT)])
        elif r < 0.42:
            ops.append(["d", rnd.randrange(len(cr.PATHS))])
        elif r < 0.50:
            ops.append(["trunc", rnd.randrange(4000)] if rnd.random() < 0.7 else ["k", 1])
        elif r < 0.58:
            ops.append(["bytes", rnd.choice(cr.JUNK).decode("latin-1")])
        elif r < 0.68:
            ops.append(["jdel", rnd.choice(paths)])
        elif r < 0.80:
            ops.append(["jset", rnd.choice(paths), rnd.choice(OTHER_VALUES)])
        elif r < 0.85:
            ops.append(["ca", rnd.choice([0, 2, 3, 4]), rnd.randrange(4), rnd.randrange(cr.NCONTENT + 1), rnd.choice([0, 1000])])
        elif r < 0.88:
            ops.append(["cm"])
        elif r < 0.92:
            ops.append(["M"])
        elif r < 0.96:
            ops.append(["D"])
        else:
            ops.append(["cj", 1])
    ops += [["s"], ["s"]]
    return {"init": [list(x) for x in init], "excl": 0, "ops": ops}


def _chunks(l, n):
    k = max(1, (len(l) + n - 1) // n)
    return [l[i:i + k] for i in range(0, len(l), k)]


def _correspond_main(ctx):
    cr.pre()
    small, large, medium = probe(SMALL), probe(LARGE), probe(MEDIUM)
    tasks = []
    # (1) truncation
    offs_small = list(range(len(small) + 1))
    if ctx.thorough:
        offs_large = list(range(len(large) + 1))
    else:
        marks = set(range(0, len(large) + 1, 5)) | {len(large), len(large) - 1, len(large) - 2}
        for i, b in enumerate(large):
            if b == 0x0A:
                marks |= {i - 1, i, i + 1}
        offs_large = sorted(m for m in marks if 0 <= m <= len(large))
    for init, offs in ((SMALL, offs_small), (LARGE, offs_large)):
        for ch in _chunks([[["trunc", n], ["s"], ["s"]] for n in offs], 24):
            tasks.append((init, 0, [["s"]], ch))
    n_trunc = len(offs_small) + len(offs_large)
    # (2) structural faults
    faults = structural_faults(json.loads(medium.decode()))
    for ch in _chunks([[f, ["s"], ["s"]] for f in faults], 32):
        tasks.append((MEDIUM, 0, [["s"]], ch))
    # (3) the cache directory
    dirv = [[["cm"], ["s"], ["s"]], [["cm"], ["M"], ["s"], ["s"]], [["M"], ["s"], ["s"]], [["D"], ["s"], ["s"]],
            [["M"], ["trunc", 40], ["s"], ["M"], ["cm"], ["s"]], [["D"], ["bytes", "junk"], ["s"], ["s"]]]
    tasks.append((MEDIUM, 0, [["s"]], dirv))
    tasks.append(([], 0, [], dirv))
    recs = [r for part in cr.pool_map(cr.run_variants, tasks) for r in part]
    # (4) random fault histories
    rnd = ctx.rng("fault-histories")
    jpaths = [p for p, _ in json_paths(json.loads(large.decode()))]
    nrand = ctx.pick(600, 8000)
    hists = [gen_fault_history(rnd, jpaths, 14) for _ in range(nrand)]
    rrecs = [r for part in cr.pool_map(cr.run_histories, [hists[i::32] for i in range(32)]) for r in part]
    dis, fails = cr.judge(recs + rrecs)
    # every fault must be followed by a scan that analyses everything or reuses an honest rest,
    # and by a second scan that reuses everything (the cache left behind is complete)
    for r in recs:
        if r.get("forged") or len(r["real"]) < 2 or r["input"]["ops"][-2:] != [["s"], ["s"]]:
            continue
        last = r["real"][-1]
        if len(last) == 5 and last[2]:
            fails.append({"input": r["input"], "observed": "the scan after the repairing scan analysed %s again" % (last[2],),
                          "required": "a complete cache is left behind: the next scan of the unchanged tree reuses every entry"})
    kinds = {}
    for r in recs + rrecs:
        for op in r["input"]["ops"]:
            kinds[op[0]] = kinds.get(op[0], 0) + 1
    classes = {"junk": 0, "document": 0, "missing": 0, "noop": 0}
    for r in recs:
        ws = r["request"].split()
        tail = ws[ws.index("s") + 1:] if "s" in ws else ws
        classes["junk" if tail[:1] == ["cj"] or tail[:2] == ["k", "0"] else
                "document" if tail[:1] == ["cd"] or tail[:2] == ["k", "1"] else
                "missing" if tail[:1] == ["cm"] else "noop"] += 1
    nscans = sum(len(r["real"]) for r in recs + rrecs)
    forged = sum(1 for r in recs + rrecs if r.get("forged"))
    fails = _shrunk(fails)
    return {
        "evaluations": nscans,
        "distinct_nontrivial": len(set(json.dumps(r["input"]["ops"]) for r in recs + rrecs)),
        "rule": "truncation of the cache file at every byte offset 0..%d of a one-file cache and at %d %s offsets of a four-file cache (%d bytes); %d structural faults on a two-file cache (junk texts, every key removed at every level, every member/element replaced by %d values of other JSON types incl. empty ones); cache directory without file / markers / removed; %d random histories of faults, edits and scans of length <= 16; after each fault two scans (repairing scan, then a scan that must reuse everything); %d scans in total; forged (outside the property) histories skipped: %d" % (
            len(small), len(offs_large), "(all)" if ctx.thorough else "stratified (every 5th, around every line break, the last three)", len(large),
            len(faults), len(OTHER_VALUES), nrand, nscans, forged),
        "samples": [{"request": r["request"][:300], "real_last_scan": str(r["real"][-1])[:200]} for r in (recs[3:5] + recs[-2:] + rrecs[:2])],
        "exhaustive": True,
        "distribution": {"truncation_offsets": n_trunc, "structural_faults": len(faults), "ops": kinds,
                         "fault_class_seen_by_model": classes, "random_histories": nrand},
        "disagreements": dis[:50], "oracle_failures": fails[:50],
    }


def _shrunk(fails):
    out = []
    for f in fails[:6]:
        inp = f.get("input", {})
        if "ops" in inp:
            try:
                small = cr.shrink(inp)
                probs = cr.history_problems(small)
                if probs:
                    f = dict(f, input=small, observed=probs[0])
            except Exception:  # noqa: BLE001
                pass
        out.append(f)
    return out + fails[6:9]


def search(ctx, hints):
    found = []
    for h in hints:
        if isinstance(h, dict) and "ops" in h:
            probs = cr.history_problems(h)
            if probs:
                small = cr.shrink(h)
                found.append({"input": small, "observed": (cr.history_problems(small) or probs)[0],
                              "required": "model and real scan agree; scan completes with the fresh report"})
        if len(found) >= 3:
            return found
    rnd = ctx.rng("search")
    large = probe(LARGE)
    jpaths = [p for p, _ in json_paths(json.loads(large.decode()))]
    hists = [gen_fault_history(rnd, jpaths, 14) for _ in range(ctx.pick(600, 4000))]
    recs = [r for part in cr.pool_map(cr.run_histories, [hists[i::32] for i in range(32)]) for r in part]
    dis, fails = cr.judge(recs)
    for d in dis[:3]:
        found.append({"input": cr.shrink(d["input"]), "observed": d["impl"], "required": "model and real scan agree"})
    found += _shrunk(fails)[:5]
    return found[:10]


def replay(payload):
    inp = payload["input"]
    if "ops" not in inp:
        print("nothing to replay")
        return False
    probs = cr.history_problems(inp)
    print("history %s" % inp)
    for p in probs:
        print("  problem: %s" % p)
    return not probs


def correspond(ctx):
    """written reports, every key removed / value retyped / truncation / byte damage: real get_report_version, read_report, _read_cached_report, _is_well_formed vs Model/CacheDoc.lean, CacheBytes.lean and the abstraction to Cache.CacheFile (Props/Gaps.lean parts 1-2)"""
    import gaps_stream
    res = _correspond_main(ctx)
    dis, counts = gaps_stream.for_check(ctx, (1, 2), ctx.pick(1200, 15000), 'documents')
    res["disagreements"] = list(res["disagreements"]) + dis
    res["evaluations"] += sum(v.get(k, 0) for v in counts.values() if isinstance(v, dict)
                              for k in ("texts", "byte_files", "check_command_runs", "report_runs", "cases"))
    res["distribution"] = dict(res.get("distribution", {}), gaps=counts)
    res["rule"] += " PLUS written reports, every key removed / value retyped / truncation / byte damage: real get_report_version, read_report, _read_cached_report, _is_well_formed vs Model/CacheDoc.lean, CacheBytes.lean and the abstraction to Cache.CacheFile (Props/Gaps.lean parts 1-2)"
    return res
