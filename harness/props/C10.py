"""C10 - a damaged or partial cache never breaks or taints the next scan.

Proof: Props/C10.lean over Model/Cache.lean (`damaged_cache_harmless`,
`faults_interleaved_harmless`, `truncated_write_harmless` from the byte contract).
Tie: the REAL `scan_command` on temp dirs. After every fault the next scan must complete, report
exactly what a from-scratch scan of a copy of the tree reports, leave a cache that the following
scan can use (checked by running that scan too: it reuses everything), and agree with the model
on report entries, reused and analysed paths and the state of the cache directory.  What a
damaged file IS for the model (missing / junk / document of version v with rows) is decided by
the abstraction function `cache_real.abstract_cache`, written from the report format and not from
ReportReader; the byte contract of C10.2 (a proper prefix that lacks a non-whitespace byte is
unreadable, one that lacks only whitespace reads the same, a complete file reads as written) is
evaluated with it at every offset explored.

Streams: (1) truncation at every byte offset of a small cache (one file) and at stratified
(quick) / all (thorough) offsets of a larger one (four files); (2) structural faults on a
two-file cache: junk texts (empty, blank, not JSON, invalid UTF-8, wrong top-level types, objects
lacking keys), every key removed at every level, every value (object members and list elements)
replaced by values of every other JSON type, empty and non-empty; (3) cache directory without
file and/or marker files, directory removed; (4) random histories of faults, edits and scans;
(5) states a crashed or concurrent run leaves behind: a scan in a forked child process is really
stopped - RLIMIT_FSIZE = n with SIGXFSZ at its default action (killed by the kernel when the file
being written reaches n bytes) or ignored (the write fails with EFBIG, as on a full disk), or
SIGKILL immediately before its k-th modification of the file system - from three states (never
scanned / cache of an older tree / cache up to date); extra files in the cache directory (lock,
temp, backup names: 5 stems x 10 suffixes, plus every name the stopped scans really left), cache
files with mtimes 10^k seconds in the past / future, the cache directory renamed away; each
followed by two scans.  Streams (1)-(3) and (5) run under the four configurations the CLI can set up
(verbose, repository), stream (4) draws the configuration per history and switches it inside.
Observation points: besides `scan_command(root)`, streams (2) and (3) and a share of (1) and (4) start the
scan after the fault the way users do - the function typer calls for `codelimit scan`
(`codelimit.__main__.scan`, in a forked child, without and with -v) and, for the junk texts and the
faults on the top-level members, `python -m codelimit scan [-v] root` in a fresh interpreter.
Root spellings: every third variant of every stream, a share of the random histories and stream (6) (representatives of
every fault class x every spelling x the three observation points) name the root the way users do - `.` inside the project
(plain `codelimit scan`), a relative path, `../name`, a path with `..`, a path through a symbolic link (absolute and
relative) - with the matching working directory (`cache_real.spell_root`).
"A complete, valid cache": after EVERY scan the document left behind is compared field by field with the
document a from-scratch scan of a copy of the tree writes - same keys at every level, same JSON types,
same values, identifier and time stamp of the shape the writer produces (cache_real.full_shape)."""
import json
import os
import sys

sys.path.insert(0, os.path.dirname(os.path.dirname(os.path.abspath(__file__))))
import common  # noqa: F401
import cache_real as cr

ID = "C10"
TRUSTED = [
    "correspondence harness harness/props/C10.py + harness/cache_real.py (fault injection on the real cache file; abstraction function abstract_cache; rich output silenced by patching rich, not codelimit)",
    "stopped scans (stream 5): os.fork of the harness process, RLIMIT_FSIZE / SIGXFSZ or a sys.addaudithook that sends SIGKILL before the k-th open-for-writing / mkdir / remove / rename below the scanned root; what is left on disk is classified by abstract_cache; directory states the model has no word for (one marker file only) are checked by the oracles only and counted in distribution.oracle_only_histories",
    "observation points 1 and 2: codelimit.__main__.scan called in a forked child of the harness / harness/cache_cli_worker.py (runpy of the module codelimit with sys.argv = scan [-v] root) in a fresh interpreter, Scanner._analyze_file wrapped in both; exclusions of observation point 2 go through <root>/.codelimit.yml (typer's --exclude does not work with the click of this sandbox); the field-by-field comparison of the cache left behind (cache_real.full_shape / shape_diff) takes the shape of identifier and time stamp from the document a from-scratch scan writes",
    "root spellings (cache_real.spell_root): `.` / relative / `../name` / with `..` / through a symbolic link `<root>.lnk` (absolute and relative), with os.chdir to the matching working directory in the pool worker (restored afterwards), in the forked child, or as cwd= of the fresh interpreter; the model does not see the spelling (operation [\"root\", k] has no words)",
    "the byte contract (ByteContract: round trip, unreadable proper prefixes, whitespace cuts) is a hypothesis of truncated_write_harmless; it is checked at every explored offset on the real writer and reader, and proved for the JSON model under C08",
]
ASSUMPTIONS = [
    "an interrupted write leaves a prefix of the bytes being written (or the old file, or an empty file); no other process writes the cache concurrently",
    "`.codelimit_cache` is a directory and `codelimit.json` a readable regular file when they exist (permission errors and a directory in place of the file are outside the property)",
    "marker files (CACHEDIR.TAG, .gitignore) are only observed: a scan does not restore them in an existing directory (DESIGN Appendix A)",
]

SMALL = [(0, 1)]
LARGE = [(0, 3), (1, 2), (2, 3), (3, 3)]
MEDIUM = [(0, 1), (2, 2)]
OTHER_VALUES = [None, 7, 1.5, True, "", "x", [], [1], {}, {"k": 1}]
# other values of the SAME JSON type for a number: beyond every machine range (a JSON integer literal of 401 digits
# is legal and Python reads it exactly), the edges of 64 bits, negative, fractional; and as JSON text the literals
# that json.dumps does not write - floats beyond the double range (read as infinity) and the NaN / Infinity words
# Python's json accepts
EXTREME_NUMBERS = [10 ** 400, -(10 ** 400), 2 ** 63, -1, 2.5]
RAW_NUMBERS = ["1e400", "-1e400", "NaN", "Infinity", "-Infinity"]
# minimised past failures (run first): F-overflow - "loc" beyond the float range in one file entry and a float in
# another of the same language made ReportReader's totals raise OverflowError, which _read_cached_report did not
# catch: every later scan failed until the cache was deleted (repaired in /repo 42e6654)
REGRESS = [
    {"init": [[0, 3], [1, 2], [2, 3], [3, 3]], "excl": 0, "cfg": 0,
     "ops": [["s"], ["jset", ["codebase", "files", "a.py", "loc"], 10 ** 400],
             ["jset", ["codebase", "files", "pkg/b.py", "loc"], 2.5], ["s"], ["s"]]},
    {"init": [[0, 3], [1, 2], [2, 3], [3, 3]], "excl": 0, "cfg": 1, "entry": 1,
     "ops": [["s"], ["jset", ["codebase", "files", "pkg/b.py", "loc"], 2.5],
             ["jset", ["codebase", "files", "a.py", "loc"], 10 ** 400], ["s"], ["ent", 0], ["s"]]},
]


def jtype(v):
    if v is None:
        return "null"
    if isinstance(v, bool):
        return "bool"
    if isinstance(v, (int, float)):
        return "number"
    if isinstance(v, str):
        return "string"
    return "array" if isinstance(v, list) else "object"


def probe(init, cfg=0):
    w = cr.new_world(init, 0, cfg)
    try:
        w.apply(["s"])
        return w.cache_bytes()
    finally:
        w.close()


def leftovers(init):
    """names of files that really stopped scans leave in the cache directory besides the three a
    completed scan leaves (found by stopping scans, not by reading the code)"""
    known = {"codelimit.json", "CACHEDIR.TAG", ".gitignore"}
    names = set()
    for prefix in ([], [["s"], ["w", 0, 2]]):
        for mode, ns in ((2, range(0, 8)), (0, (0, 45, 100, 400, 900))):
            for n in ns:
                w = cr.new_world(init, 0)
                try:
                    for op in prefix:
                        w.apply(op)
                    w.apply(["ks", mode, n])
                    d = cr.cache_paths(w.root)[0]
                    if os.path.isdir(d):
                        names |= set(os.listdir(d)) - known
                finally:
                    w.close()
    return sorted(names)


def stop_points(size, thorough):
    """RLIMIT_FSIZE values: the marker files are 43 and 40 bytes, the cache file `size` bytes"""
    if thorough:
        return list(range(0, size + 3))
    pts = {0, 1, 39, 40, 41, 42, 43, 44, size - 1, size, size + 1}
    pts |= set(range(50, size, 97))
    return sorted(pts)


def interrupted_variants(size, thorough):
    out = []
    for mode in (0, 1):
        out += [[["ks", mode, n], ["s"], ["s"]] for n in stop_points(size, thorough)]
    out += [[["ks", 2, n], ["s"], ["s"]] for n in range(0, 6)]
    out += [[["ks", 2, n], ["ks", 0, 60 + 100 * n], ["s"], ["s"]] for n in range(0, 5)]
    return out


def leftover_variants(names, thorough):
    out = []
    for i, name in enumerate(names):
        kinds = range(4) if thorough else [i % 4]
        for k in kinds:
            out += [[["xf", name, k], ["w", 0, 2], ["s"], ["s"]],
                    [["xf", name, k], ["trunc", 40 + i], ["s"], ["s"]],
                    [["xf", name, k], ["cm"], ["s"], ["s"]]]
    ks = range(10) if thorough else (1, 5, 9)
    for k in ks:
        for sign in (0, 1):
            out += [[["cold", k, sign], ["w", 0, 2], ["s"], ["s"]], [["w", 0, 2], ["cold", k, sign], ["trunc", 200 + k], ["s"], ["s"]]]
    out += [[["cmv"], ["s"], ["s"]], [["cmv"], ["w", 0, 2], ["s"], ["cmv"], ["s"], ["s"]], [["trunc", 30], ["cmv"], ["s"], ["s"]]]
    return out


def json_paths(doc, prefix=()):
    """every member of every object and every element of every list, outermost first"""
    out = []
    if isinstance(doc, dict):
        for k, v in doc.items():
            out.append((list(prefix) + [k], v))
            out += json_paths(v, tuple(prefix) + (k,))
    elif isinstance(doc, list):
        for i, v in enumerate(doc):
            out.append((list(prefix) + [i], v))
            out += json_paths(v, tuple(prefix) + (i,))
    return out


def shape_variants(v):
    """other values of the SAME JSON type for a string of the document, derived from the value itself: the shapes
    an identifier / time stamp / name can take (upper case, braces, urn:, without separators, reversed, padded,
    cut, doubled) and the string literals that are new in the source tree under check"""
    from gen import srcdict
    out = [v.upper(), "{" + v + "}", "urn:uuid:" + v, v.replace("-", "").replace(":", ""), v[::-1], v + " ", " " + v,
           v[:len(v) // 2], v + v]
    out += srcdict.words(novel_only=True)[:6]
    return [x for x in dict.fromkeys(out) if x != v]


def junk_faults():
    cur = cr.cl()["CUR"]
    faults = [["bytes", t.decode("latin-1").replace("0.18.1", cur)] for t in cr.JUNK]
    # top-level JSON values of every type, empty and not, also ones that CONTAIN the names of the document's keys
    faults += [["bytes", t] for t in ("false", "0", "-1", "2.5", "1e9", "\"version\"", "[\"version\"]", "[\"version\", \"uuid\", \"root\", \"codebase\"]",
                                      "[{}]", "[[]]", "{\"codebase\": null}", "{\"codebase\": []}", " null ", "\xef\xbb\xbfnull", "\xef\xbb\xbf{}")]
    faults += [["bytes", "{\"version\": \"%s\", \"uuid\": \"u\", \"root\": \"/\", \"codebase\": {\"files\": {\"a.py\": %s}}}" % (cur, e)]
               for e in ("null", "[]", "{}", "\"x\"", "{\"checksum\": \"x\", \"language\": \"Python\", \"loc\": 1}")]
    return faults


def tagged_faults(doc):
    """every fault of stream (2), generated from the document itself -> [(class, index of the member, fault)]:
    class "junk" (whole-file texts), "type" (a key removed, a value of another JSON type), "same" (a value of the
    same JSON type: other shapes of a string, numbers beyond every range / fractional / NaN ...)"""
    out = [("junk", -1, f) for f in junk_faults()]
    for n, (path, v) in enumerate(json_paths(doc)):
        if isinstance(path[-1], str):
            out.append(("type", n, ["jdel", path]))
        for o in OTHER_VALUES:
            if jtype(o) != jtype(v) or (isinstance(v, int) and isinstance(o, float)):
                out.append(("type", n, ["jset", path, o]))
        if isinstance(v, str):
            out += [("same", n, ["jset", path, o]) for o in shape_variants(v)]
        if is_number(v):
            out += [("same", n, ["jset", path, o]) for o in EXTREME_NUMBERS if o != v]
            out += [("same", n, ["jraw", path, t]) for t in RAW_NUMBERS]
    return out


def structural_faults(doc):
    return [f for _c, _n, f in tagged_faults(doc)]


def is_number(v):
    return isinstance(v, (int, float)) and not isinstance(v, bool)


def pair_values(v):
    """the short pool of replacement values used when SEVERAL fields are faulted at once (as fault operations)"""
    if is_number(v):
        return [("jset", 10 ** 400), ("jset", 2.5), ("jset", -1), ("jraw", "1e400"), ("jraw", "NaN"), ("jset", "x"), ("jset", None)]
    if isinstance(v, str):
        return [("jset", None), ("jset", 7), ("jset", ""), ("jset", v.upper() if v.upper() != v else v + " ")]
    return [("jset", None), ("jset", 7), ("jset", [] if not isinstance(v, list) else {})]


def homologous_pairs(doc):
    """pairs of fields that sit at corresponding places of the document: paths of equal length that differ in
    exactly one component (the same key of two file entries / two languages / two folders, the same member of two
    measurements, two elements of one list) - the fields a reader adds up or compares with each other"""
    leaves = [(p, v) for p, v in json_paths(doc) if not isinstance(v, (dict, list))]
    groups = {}
    for p, v in leaves:
        for i in range(len(p)):
            groups.setdefault((len(p), i, tuple(p[:i]), tuple(p[i + 1:])), []).append((p, v))
    out = []
    for g in groups.values():
        for a in range(len(g)):
            for b in range(a + 1, len(g)):
                out.append((g[a], g[b]))
    return out


def multi_faults(doc, rnd, thorough):
    """documents with two or three simultaneous field faults -> lists of fault operations:
    (a) every homologous pair of fields x combinations of the short value pool (quick: one combination per pair,
    rotating, and for two numbers always the pairs "beyond every range" / "fractional" for two numbers; thorough: all),
    (b) random pairs and triples of arbitrary members / elements with values from the whole single-fault pool"""
    out = []
    for n, ((p, v), (q, w)) in enumerate(homologous_pairs(doc)):
        combos = [(x, y) for x in pair_values(v) for y in pair_values(w)]
        if not thorough:
            combos = [combos[(n * 5 + 3) % len(combos)]] + \
                     ([combos[1], combos[len(pair_values(w))]] if is_number(v) and is_number(w) else [])
        for (k1, x), (k2, y) in combos:
            out.append([[k1, p, x], [k2, q, y]])
    single = [f for f in structural_faults(doc) if f[0] in ("jset", "jraw", "jdel")]
    for _ in range(4000 if thorough else 120):
        out.append([rnd.choice(single) for _ in range(rnd.choice([2, 2, 3]))])
    return out


CONTENTS = cr.PLAIN * 3 + cr.DENSE + [7, 8]     # the 10^6 rung is C09's business (cost)


def gen_fault_history(rnd, paths, maxlen, names=None):
    names = names or cr.EXTRA_NAMES
    init = [(p, rnd.choice(CONTENTS)) for p in range(len(cr.PATHS)) if rnd.random() < 0.6]
    ops = [["s"]] if rnd.random() < 0.8 else []
    for _ in range(rnd.randint(2, maxlen)):
        r = rnd.random()
        if r < 0.28:
            ops.append(["s"])
        elif r < 0.36:
            ops.append(["w", rnd.randrange(len(cr.PATHS)), rnd.choice(CONTENTS)])
        elif r < 0.40:
            ops.append(["d", rnd.randrange(len(cr.PATHS))])
        elif r < 0.46:
            ops.append(["trunc", rnd.randrange(4000)] if rnd.random() < 0.7 else ["k", 1])
        elif r < 0.52:
            ops.append(["bytes", rnd.choice(cr.JUNK).decode("latin-1")])
        elif r < 0.59:
            ops.append(["jdel", rnd.choice(paths)])
        elif r < 0.65:
            ops.append(["jset", rnd.choice(paths), rnd.choice(OTHER_VALUES + EXTREME_NUMBERS)])
        elif r < 0.67:
            ops.append(["jraw", rnd.choice(paths), rnd.choice(RAW_NUMBERS)])
        elif r < 0.74:
            mode = rnd.randrange(3)
            ops.append(["ks", mode, rnd.randrange(6) if mode == 2 else rnd.choice([rnd.randrange(100), rnd.randrange(1000), rnd.randrange(5000)])])
        elif r < 0.77:
            ops.append(["xf", rnd.choice(names), rnd.randrange(4)])
        elif r < 0.785:
            ops.append(["cold", rnd.randrange(10), rnd.randrange(2)])
        elif r < 0.79:
            ops.append(["cmv"])
        elif r < 0.795:
            ops.append(["cfg", rnd.randrange(cr.CFGS)])
        elif r < 0.80:
            ops += [["ent", 1], ["s"], ["ent", 0]]
        elif r < 0.83:
            ops.append(["root", rnd.randrange(cr.SPELLINGS)])
        elif r < 0.85:
            ops.append(["ca", rnd.choice([0, 2, 3, 4]), rnd.randrange(4), rnd.randrange(cr.NCONTENT + 1), rnd.choice([0, 1000])])
        elif r < 0.88:
            ops.append(["cm"])
        elif r < 0.92:
            ops.append(["M"])
        elif r < 0.96:
            ops.append(["D"])
        else:
            ops.append(["cj", 1])
    ops += [["s"], ["s"]]
    return dict({"init": [list(x) for x in init], "excl": 0, "cfg": rnd.choice([0, 0, 1, 2, 3]), "ops": ops},
                **({"entry": 1} if rnd.random() < 0.02 else {}))


def _chunks(l, n):
    k = max(1, (len(l) + n - 1) // n)
    return [l[i:i + k] for i in range(0, len(l), k)]


STALE = [["s"], ["w", 0, 2]]      # a cache that the next scan has to rewrite


def respell(tasks, shift):
    """a share of the variants of EVERY stream names the root differently: every third variant of a task (shifted per
    task) starts with ["root", k], k = 1 .. SPELLINGS-1 in rotation - the fault, the scans after it and their judgement
    are unchanged, only the root argument and the working directory of the scans differ (`cache_real.spell_root`)"""
    out, n = [], 0
    for t, task in enumerate(tasks):
        variants = []
        for i, var in enumerate(task[3]):
            if (i + t) % 3 == 0:
                variants.append([["root", 1 + (n + shift) % (cr.SPELLINGS - 1)]] + list(var))
                n += 1
            else:
                variants.append(var)
        out.append(tuple(task[:3]) + (variants,) + tuple(task[4:]))
    return out, n


def spelling_tasks(doc, size, thorough, shift):
    """stream (6): representatives of every class of fault state (every junk text, truncations on a ladder of offsets,
    every top-level member removed / null, the cache directory states) x EVERY spelling of the root x observation
    points: scan_command for all, the CLI entry function for a quarter (thorough: all), a fresh `python -m codelimit
    scan` for two per spelling (thorough: a quarter) -> (tasks, counts)"""
    faults = [[f] for f in junk_faults()]
    offs = sorted(set([0, 1, 2, 10, 100, size // 2, size - 2, size - 1]) | set(n for n in (1000, 10000) if n < size))
    faults += [[["trunc", n]] for n in offs]
    faults += [[[k, [key]] + ([None] if k == "jset" else [])] for key in doc for k in ("jdel", "jset")]
    faults += [[["cm"]], [["cm"], ["M"]], [["M"], ["trunc", 40]], [["D"], ["bytes", "junk"]], [["cmv"], ["bytes", "{"]]]
    tasks, counts = [], {"scan_command": 0, "entry_function": 0, "fresh_interpreter": 0}
    for k in range(1, cr.SPELLINGS):
        lib = [[["root", k]] + f + [["s"], ["s"]] for f in faults]
        counts["scan_command"] += len(lib)
        for ch in _chunks(lib, 3):
            tasks.append((MEDIUM, 0, [["s"]], ch, k % cr.CFGS))
        ent = [[["root", k]] + f + [["s"], ["ent", 0], ["s"]] for i, f in enumerate(faults) if thorough or (i + k + shift) % 4 == 0]
        counts["entry_function"] += len(ent)
        for ch in _chunks(ent, 2):
            tasks.append((MEDIUM, 0, [["s"]], ch, k % 2, 1))
        fi = [[["root", k]] + f + [["s"], ["ent", 0], ["s"]] for i, f in enumerate(faults)
              if ((i + k + shift) % 4 == 1 if thorough else (i + 5 * k + shift) % len(faults) in (0, len(faults) // 2))]
        counts["fresh_interpreter"] += len(fi)
        for ch in _chunks(fi, 2):
            tasks.append((MEDIUM, 0, [["s"]], ch, k % 2, 2))
    return tasks, counts


def _correspond_main(ctx):
    cr.pre()
    cfgs = list(range(cr.CFGS))
    small = {k: probe(SMALL, k) for k in cfgs}
    medium = {k: probe(MEDIUM, k) for k in cfgs}
    large = probe(LARGE)
    tasks = []
    # (1) truncation: the one-file cache at every offset under every configuration, the four-file one
    # under the default configuration (thorough: under all)
    if ctx.thorough:
        offs_large = list(range(len(large) + 1))
    else:
        marks = set(range(0, len(large) + 1, 5)) | {len(large), len(large) - 1, len(large) - 2}
        for i, b in enumerate(large):
            if b == 0x0A:
                marks |= {i - 1, i, i + 1}
        offs_large = sorted(m for m in marks if 0 <= m <= len(large))
    n_trunc = 0
    for k in cfgs:
        offs = list(range(len(small[k]) + 1))
        n_trunc += len(offs)
        for ch in _chunks([[["trunc", n], ["s"], ["s"]] for n in offs], 12):
            tasks.append((SMALL, 0, [["s"]], ch, k))
    for k in (cfgs if ctx.thorough else [0]):
        n_trunc += len(offs_large)
        for ch in _chunks([[["trunc", n], ["s"], ["s"]] for n in offs_large], 24):
            tasks.append((LARGE, 0, [["s"]], ch, k))
    # (2) structural faults, under every configuration (the repository adds keys to the document)
    # quick tier: the same-type values (shapes of strings, extreme numbers) of a member under ONE of the configurations
    n_faults = {}
    for k in cfgs:
        faults = [f for c, n, f in tagged_faults(json.loads(medium[k].decode())) if ctx.thorough or c != "same" or n % len(cfgs) == k]
        n_faults[k] = len(faults)
        for ch in _chunks([[f, ["s"], ["s"]] for f in faults], 16):
            tasks.append((MEDIUM, 0, [["s"]], ch, k))
    # (2b) the same faults observed where users start a scan: the function typer calls for `codelimit scan`
    # (Configuration.load, logging, repository detection, whatever the command line layer does before
    # scan_command) in a forked child, alternately without / with -v; the scan after it is a library scan
    # (a forked child with two git calls costs 0.1 s: the quick tier takes the junk texts, the faults on the top-level
    # members and every tenth of the others, rotating with VERIF_SEED)
    tf = tagged_faults(json.loads(medium[0].decode()))
    rot = common.seed() % 10
    cli1 = [f for i, (c, n, f) in enumerate(tf) if ctx.thorough or c == "junk" or len(f[1]) == 1 or i % 10 == rot]
    n_cli = {"entry_function": 0, "fresh_interpreter": 0, "truncations_entry_function": 0, "several_fields_at_once": 0}
    for v in (0, 1):
        part = [[f, ["s"], ["ent", 0], ["s"]] for i, f in enumerate(cli1) if ctx.thorough or i % 2 == v]
        n_cli["entry_function"] += len(part)
        for ch in _chunks(part, 24):
            tasks.append((MEDIUM, 0, [["s"]], ch, v, 1))
    offs = list(range(len(small[0]) + 1)) if ctx.thorough else sorted(set(range(common.seed() % 25, len(small[0]) + 1, 25)) | {0, len(small[0]) - 1, len(small[0])})
    n_cli["truncations_entry_function"] = len(offs)
    for ch in _chunks([[["trunc", n], ["s"], ["ent", 0], ["s"]] for n in offs], 6):
        tasks.append((SMALL, 0, [["s"]], ch, 0, 1))
    # (2c) ... and as `python -m codelimit scan [-v] <root>` in a fresh interpreter (a second each): the junk texts
    # (quick tier: every second one, alternating with VERIF_SEED) and, for the top-level members, removal and values of other JSON types (thorough: every fault)
    top = [f for i, (c, n, f) in enumerate(tf) if ctx.thorough or (c == "junk" and i % 2 == common.seed() % 2)
           or (c == "type" and len(f[1]) == 1 and (f[0] == "jdel" or f[2] in (None, 7, "x", [])))]
    part = [[f, ["s"], ["ent", 0], ["s"]] for f in top]
    n_cli["fresh_interpreter"] = len(part)
    for j, ch in enumerate(_chunks(part, 32)):
        tasks.append((MEDIUM, 0, [["s"]], ch, j % 2, 2))
    # (2d) two or three fields faulted at once, on the four-file cache (two files of one language, two folders)
    mf = multi_faults(json.loads(large.decode()), ctx.rng("multi-faults"), ctx.thorough)
    for j, ch in enumerate(_chunks([fs + [["s"], ["s"]] for fs in mf], 40)):
        tasks.append((LARGE, 0, [["s"]], ch, j % cr.CFGS if ctx.thorough else 0))
    n_cli["several_fields_at_once"] = len(mf)
    # (3) the cache directory
    dirv = [[["cm"], ["s"], ["s"]], [["cm"], ["M"], ["s"], ["s"]], [["M"], ["s"], ["s"]], [["D"], ["s"], ["s"]],
            [["M"], ["trunc", 40], ["s"], ["M"], ["cm"], ["s"]], [["D"], ["bytes", "junk"], ["s"], ["s"]]]
    for k in cfgs:
        tasks.append((MEDIUM, 0, [["s"]], dirv, k))
        tasks.append(([], 0, [], dirv, k))
    tasks.append((MEDIUM, 0, [["s"]], dirv, 0, 1))
    tasks.append(([], 0, [], dirv, 1, 1))
    tasks.append((MEDIUM, 0, [["s"]], dirv[:4] if not ctx.thorough else dirv, 1, 2))
    # (5) what crashed or concurrent runs leave behind
    left = leftovers(MEDIUM)
    names = cr.EXTRA_NAMES + [n for n in left if n not in cr.EXTRA_NAMES]
    lv = leftover_variants(names, ctx.thorough)
    n_stop = 0
    for k in cfgs:
        iv = interrupted_variants(len(medium[k]), ctx.thorough)
        states = ([], STALE, [["s"]]) if ctx.thorough else ([], STALE, [["s"]])[k % 3:] + ([], STALE, [["s"]])[:k % 3]
        for j, prefix in enumerate(states):
            # quick tier: each configuration takes every other stop point of a state, shifted per state
            part = iv if ctx.thorough else [v for i, v in enumerate(iv) if v[0][1] == 2 or (i + j + k) % 2 == 0]
            n_stop += len(part)
            for ch in _chunks(part, 4):
                tasks.append((MEDIUM, 0, prefix, ch, k))
        part = lv if ctx.thorough else [v for i, v in enumerate(lv) if i % cr.CFGS == k]
        for ch in _chunks(part, 4):
            tasks.append((MEDIUM, 0, [["s"]], ch, k))
    # root spellings x working directories: a share of every stream above, and stream (6): fault classes x every spelling
    tasks, n_respelled = respell(tasks, common.seed())
    sp_tasks, n_spell = spelling_tasks(json.loads(medium[0].decode()), len(medium[0]), ctx.thorough, common.seed())
    tasks += sp_tasks
    recs = [r for part in cr.pool_map(cr.run_variants, tasks) for r in part]
    recs = cr.run_histories(REGRESS) + recs          # the regress corpus first
    # (4) random fault histories
    rnd = ctx.rng("fault-histories")
    jpaths = [p for p, _ in json_paths(json.loads(probe(LARGE, 2).decode()))]
    nrand = ctx.pick(600, 8000)
    hists = [gen_fault_history(rnd, jpaths, 14, names) for _ in range(nrand)]
    rrecs = [r for part in cr.pool_map(cr.run_histories, [hists[i::32] for i in range(32)]) for r in part]
    dis, fails = cr.judge(recs + rrecs)
    # every fault must be followed by a scan that analyses everything or reuses an honest rest,
    # and by a second scan that reuses everything (the cache left behind is complete)
    for r in recs:
        if r.get("forged") or len(r["real"]) < 2 or [op for op in r["input"]["ops"] if op[0] not in ("ent", "cfg")][-2:] != [["s"], ["s"]]:
            continue
        last = r["real"][-1]
        if last is not None and len(last) == 5 and last[2]:
            fails.append({"input": r["input"], "observed": "the scan after the repairing scan analysed %s again" % (last[2],),
                          "required": "a complete cache is left behind: the next scan of the unchanged tree reuses every entry"})
    kinds = {}
    for r in recs + rrecs:
        for op in r["input"]["ops"]:
            kinds[op[0]] = kinds.get(op[0], 0) + 1
    classes = {"junk": 0, "document": 0, "missing": 0, "noop": 0}
    for r in recs:
        ws = r["request"].split()
        tail = ws[ws.index("s") + 1:] if "s" in ws else ws
        classes["junk" if tail[:1] == ["cj"] or tail[:2] == ["k", "0"] else
                "document" if tail[:1] == ["cd"] or tail[:2] == ["k", "1"] else
                "missing" if tail[:1] == ["cm"] else "noop"] += 1
    # what the stopped scans of stream (5) left behind, as the abstraction function sees it
    stopped = {"phantom_first_scan": 0, "oracle_only": 0, "left_unreadable": 0, "left_document": 0, "left_nothing_new": 0}
    for r in recs + rrecs:
        if not any(op[0] == "ks" for op in r["input"]["ops"]):
            continue
        stopped["oracle_only"] += 1 if r.get("oracle_only") else 0
        stopped["phantom_first_scan"] += sum(1 for o in r["real"] if o is None)
        ws = r["request"].split()
        stopped["left_unreadable"] += 1 if "cj" in ws else 0
        stopped["left_document"] += 1 if "cd" in ws else 0
        stopped["left_nothing_new"] += 1 if not ("cj" in ws or "cd" in ws) else 0
    nscans = sum(sum(1 for o in r["real"] if o is not None) for r in recs + rrecs)
    forged = sum(1 for r in recs + rrecs if r.get("forged"))
    per_cfg = {str(k): sum(1 for r in recs + rrecs if r["input"].get("cfg", 0) == k) for k in cfgs}
    per_entry = {}
    for r in recs + rrecs:
        e = r["input"].get("entry", 0)
        for op in r["input"]["ops"]:
            if op[0] == "ent":
                e = op[1]
            elif op[0] == "s":
                per_entry[str(e)] = per_entry.get(str(e), 0) + 1
    per_spelling = {}
    for r in recs + rrecs:
        k = 0
        for op in r["input"]["ops"]:
            if op[0] == "root":
                k = op[1] % cr.SPELLINGS
            elif op[0] in ("s", "ks"):
                per_spelling[cr.SPELLING_NAMES[k]] = per_spelling.get(cr.SPELLING_NAMES[k], 0) + 1
    fails = _shrunk(fails)
    return {
        "evaluations": nscans,
        "distinct_nontrivial": len(set(json.dumps([r["input"].get("cfg", 0), r["input"].get("entry", 0), r["input"]["ops"]]) for r in recs + rrecs)),
        "rule": "truncation of the cache file at every byte offset of a one-file cache (%s bytes under the 4 configurations default / verbose / repository / both) and at %d %s offsets of a four-file cache (%d bytes%s); structural faults on a two-file cache under each configuration (%s: junk texts, every key removed at every level, every member/element replaced by %d values of other JSON types incl. empty ones, every string by the other shapes of the same value: upper case, braces, urn:, without separators, reversed, padded, cut, doubled, every number by 10^400, -10^400, 2^63, -1, 2.5 and the JSON texts 1e400, -1e400, NaN, Infinity, -Infinity); %d documents with two or three fields faulted at once on the four-file cache (every pair of fields at corresponding places - same key of two files / languages / folders / measurements, two elements of a list - x value combinations incl. beyond-range integer with fraction, plus random pairs and triples); %d regress histories first; the same faults through the function behind `codelimit scan` (codelimit.__main__.scan in a forked child, without / with -v: %d faults - quick tier: junk texts, top-level members, every tenth of the rest - %d truncation offsets) and through `python -m codelimit scan` in a fresh interpreter (%d: junk texts incl. top-level values of every JSON type, top-level members removed / of other JSON types%s); after every scan the cache left behind is compared FIELD BY FIELD with the cache a from-scratch scan of a copy writes (same keys at every level, same JSON types, same values; identifier and time stamp of the writer's shape); cache directory without file / markers / removed, under each configuration; %d scans really stopped in a child process (RLIMIT_FSIZE at %s byte counts with SIGXFSZ killing / EFBIG raised, SIGKILL before the k-th file-system modification, k < 6, and both in a row) from 3 states (never scanned, cache of an older tree, cache up to date) over the 4 configurations; %d histories with an extra file in the cache directory (%d names = 5 stems x 10 suffixes + %d names stopped scans really left: %s), cache files with old / future mtimes (10^k s), cache directory renamed away; %d random histories of faults (incl. stopped scans, extra files, mtimes), edits, configuration switches and scans of length <= 16; after each fault two scans (repairing scan, then a scan that must reuse everything); %d scans in total; forged (outside the property) histories skipped: %d; ROOT SPELLINGS x WORKING DIRECTORIES: every third variant of every stream above (%d) and a share of the random histories name the root of their scans in one of %d other ways (%s), and %d + %d + %d histories (scan_command / CLI entry function / fresh interpreter) run representatives of every fault class (every junk text, truncation offsets on a ladder, every top-level member removed / null, the cache directory states) under EVERY such spelling; scans per spelling: %s" % (
            "/".join(str(len(small[k])) for k in cfgs), len(offs_large), "(all)" if ctx.thorough else "stratified (every 5th, around every line break, the last three)", len(large),
            " under each configuration" if ctx.thorough else "", "/".join(str(n_faults[k]) for k in cfgs), len(OTHER_VALUES),
            n_cli["several_fields_at_once"], len(REGRESS),
            n_cli["entry_function"], n_cli["truncations_entry_function"], n_cli["fresh_interpreter"], ", all others" if ctx.thorough else "",
            n_stop, "all" if ctx.thorough else "stratified (around the sizes of the marker files and of the cache file, every 97th between)",
            len(lv), len(names), len(left), left, nrand, nscans, forged,
            n_respelled, cr.SPELLINGS - 1, "; ".join(cr.SPELLING_NAMES[1:]), n_spell["scan_command"], n_spell["entry_function"], n_spell["fresh_interpreter"],
            json.dumps(per_spelling, sort_keys=True)),
        "samples": [{"request": r["request"][:300], "real_last_scan": str(r["real"][-1])[:200]} for r in (recs[3:5] + recs[-2:] + rrecs[:2])],
        "exhaustive": True,
        "distribution": {"truncation_offsets": n_trunc, "structural_faults": n_faults, "ops": kinds,
                         "fault_class_seen_by_model": classes, "random_histories": nrand,
                         "stopped_scans": n_stop, "histories_with_stopped_scans": stopped,
                         "extra_file_mtime_rename_histories": len(lv), "leftover_names_discovered": left,
                         "histories_per_configuration": per_cfg, "faults_through_the_command_line": n_cli,
                         "scans_per_observation_point": per_entry, "scans_per_root_spelling": per_spelling,
                         "variants_respelled": n_respelled, "fault_classes_under_every_spelling": n_spell,
                         "oracle_only_histories": sum(1 for r in recs + rrecs if r.get("oracle_only"))},
        "disagreements": dis[:50], "oracle_failures": fails[:50],
    }


def _shrunk(fails):
    out = []
    for f in fails[:6]:
        inp = f.get("input", {})
        if "ops" in inp:
            try:
                small = cr.shrink(inp)
                probs = cr.history_problems(small)
                if probs:
                    f = dict(f, input=small, observed=probs[0])
            except Exception:  # noqa: BLE001
                pass
        out.append(f)
    return out + fails[6:9]


def search(ctx, hints):
    found = []
    for h in hints:
        if isinstance(h, dict) and "ops" in h:
            probs = cr.history_problems(h)
            if probs:
                small = cr.shrink(h)
                found.append({"input": small, "observed": (cr.history_problems(small) or probs)[0],
                              "required": "model and real scan agree; scan completes with the fresh report"})
        if len(found) >= 3:
            return found
    rnd = ctx.rng("search")
    large = probe(LARGE, 2)
    jpaths = [p for p, _ in json_paths(json.loads(large.decode()))]
    hists = [gen_fault_history(rnd, jpaths, 14) for _ in range(ctx.pick(600, 4000))]
    recs = [r for part in cr.pool_map(cr.run_histories, [hists[i::32] for i in range(32)]) for r in part]
    dis, fails = cr.judge(recs)
    for d in dis[:3]:
        found.append({"input": cr.shrink(d["input"]), "observed": d["impl"], "required": "model and real scan agree"})
    found += _shrunk(fails)[:5]
    return found[:10]


def replay(payload):
    inp = payload["input"]
    if "ops" not in inp:
        print("nothing to replay")
        return False
    probs = cr.history_problems(inp)
    print("history %s" % inp)
    for p in probs:
        print("  problem: %s" % p)
    return not probs


def correspond(ctx):
    """written reports, every key removed / value retyped / truncation / byte damage: real get_report_version, read_report, _read_cached_report, _is_well_formed vs Model/CacheDoc.lean, CacheBytes.lean and the abstraction to Cache.CacheFile (Props/Gaps.lean parts 1-2)"""
    import gaps_stream
    res = _correspond_main(ctx)
    dis, counts = gaps_stream.for_check(ctx, (1, 2), ctx.pick(1200, 15000), 'documents')
    res["disagreements"] = list(res["disagreements"]) + dis
    res["evaluations"] += sum(v.get(k, 0) for v in counts.values() if isinstance(v, dict)
                              for k in ("texts", "byte_files", "check_command_runs", "report_runs", "cases"))
    res["distribution"] = dict(res.get("distribution", {}), gaps=counts)
    res["rule"] += " PLUS written reports, every key removed / value retyped / truncation / byte damage: real get_report_version, read_report, _read_cached_report, _is_well_formed vs Model/CacheDoc.lean, CacheBytes.lean and the abstraction to Cache.CacheFile (Props/Gaps.lean parts 1-2)"
    return res
