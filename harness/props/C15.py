"""C15 - built-in header patterns are unambiguous on every token.

Tie: translator/patterns.py extracts the header / follow-up expressions from the running code
into Gen/Languages.lean; Props/C15.lean proves (by a decidable checker with a soundness theorem,
evaluated in the kernel on the regenerated patterns) that no reachable configuration has two
applicable transitions. Correspondence: the real `match` on every pattern over all sequences
of abstract tokens up to a bound (every token class the pattern's predicates can distinguish)
against the model; oracle: no sequence raises the ambiguity error.

Configuration search (`reach`): breadth-first over (DFA state, depth class of every Balanced counter) with the real
Pattern.consume, every abstract token (kind x distinguished value x sub-type of the kind) from every configuration,
plus a nesting ladder from every configuration with an open group; an ambiguity comes with the shortest token path
that reaches it.  It needs neither the translator nor the model, so it also runs when those refuse a changed pattern."""
import itertools
import os
import sys

sys.path.insert(0, os.path.dirname(os.path.dirname(os.path.abspath(__file__))))
sys.path.insert(0, os.path.join(os.path.dirname(os.path.dirname(os.path.dirname(os.path.abspath(__file__)))), "translator"))
import common
import engine_real
import patterns

ID = "C15"
TRUSTED = [
    "translator/patterns.py (extraction of the shipped expressions from the running code and their serialisation)",
    "correspondence harness harness/props/C15.py",
]
ASSUMPTIONS = ["token classes are those the Token.is_* methods test (Keyword/Name/Punctuation/Operator subtrees, exact Text/Whitespace)"]
REGRESS_SOURCES = [("JavaScript", "const f = (cb = () => 0) => {\n}\n"), ("TypeScript", "x = (a.map(y => y))\n"),
                   ("JavaScript", "f = ( => \n")]


def regen(ctx):
    try:
        langs = patterns.extract(common.REPO)
    except patterns.Refuse as e:
        return [str(e)]
    common.write_if_changed(os.path.join(common.LEAN, "CodeLimit", "Gen", "Languages.lean"), patterns.lean_module(langs))
    return []


def captured():
    """[(language, role, real expression object)]"""
    import importlib
    from codelimit.languages import Languages
    out = []
    for name in patterns.LANGS:
        lang = Languages.by_name[name]
        mod = importlib.import_module(type(lang).__module__)
        calls = []
        saved = mod.get_headers
        mod.get_headers = lambda tokens, expression, followed_by=None, *a, _c=calls, **kw: (_c.append((expression, followed_by)), [])[1]   # further arguments a change may add are ignored here; the correspondence shows whether they matter
        try:
            lang.extract_headers([])
        finally:
            mod.get_headers = saved
        for k, (e, f) in enumerate(calls):
            out.append((name, "header%d" % k, e))
            if f:
                out.append((name, "follow%d" % k, f))
    return out


def constants(expr_ser):
    """string constants mentioned in a serialised expression: [(kind letter, text)]"""
    ws = expr_ser.split()
    out = []
    i = 0
    while i < len(ws):
        if ws[i] in ("K", "S", "O", "V", "I"):
            n = int(ws[i + 1])
            out.append((ws[i], "".join(chr(int(c)) for c in ws[i + 2:i + 2 + n])))
            i += 2 + n
        else:
            i += 1
    return out


def alphabet(expr_ser):
    """abstract tokens: every (kind, value) a predicate of the pattern can distinguish"""
    kinds = {"K": 1, "S": 3, "O": 4}
    toks = {(2, "f"), (0, "x"), (3, "("), (3, ")"), (1, "kw?"), (4, "op?")}
    for (k, text) in constants(expr_ser):
        # every distinguished value in every token kind: a predicate must not accept its value
        # in a kind it is not about (e.g. an identifier spelled like a keyword)
        for kind in (0, 1, 2, 3, 4):
            toks.add((kind, text))
    return sorted(toks)


def mk_token(kind, val, i, rnd=None, pick=None):
    """a real Token of the given class; with `rnd`, of a random SUB-type of that class (the model
    only knows the class: `Token.is_*` are subtree tests, so sub-types must not matter - e.g. the
    TypeScript lexer emits `Keyword.Type` for any word after a colon, seeded change C15-4)"""
    from pygments.token import Keyword, Name, Punctuation, Operator, Literal, Generic, Other, Error, Number
    from codelimit.common.Location import Location
    from codelimit.common.Token import Token
    sub = {0: [Literal, Number, Number.Integer, Generic, Other, Error, Literal.Date],
           1: [Keyword, Keyword.Type, Keyword.Declaration, Keyword.Reserved, Keyword.Constant, Keyword.Namespace, Keyword.Pseudo],
           2: [Name, Name.Function, Name.Class, Name.Builtin, Name.Other, Name.Decorator, Name.Attribute, Name.Label, Name.Variable.Magic],
           3: [Punctuation, Punctuation.Marker],
           4: [Operator, Operator.Word]}[kind]
    tt = rnd.choice(sub) if rnd is not None else sub[0]
    if pick is not None:
        tt = sub[pick % len(sub)]
    return Token(Location(1, i + 1), tt, val)


N_SUB = {0: 7, 1: 7, 2: 9, 3: 2, 4: 2}


def real_run(args):
    idx, seqs = args
    from codelimit.common.gsm import matcher
    expr = captured()[idx][2]
    out = []
    import random
    for seq in seqs:
        rs = []
        # once with the root type of every class, once with random sub-types (seeded by the sequence)
        for rnd in (None, random.Random(repr(seq))):
            toks = [mk_token(t[0], t[1], i, rnd, t[2] if len(t) > 2 else None) for i, t in enumerate(seq)]
            try:
                ps = matcher.find_all(expr, toks)
                r = "ok %d" % len(ps) + "".join(" %d %d %d" % (p.start, p.end, len(p.tokens)) for p in ps)
            except Exception as e:  # noqa
                r = "err %d" % engine_real.err_code(e)
            rs.append(r)
        out.append(rs[0] if rs[0] == rs[1] else rs[1] + "   [sub-typed tokens; root-typed: " + rs[0] + "]")
    return out


# ------------------------------------------------------------------ reachability over configurations
# The property is about every reachable (automaton state, nesting depth class) x every token class.
# Bounded-length enumeration reaches only the configurations a few tokens away from the start state
# (and with the alphabet of a pattern that distinguishes many values, only length 2-3).  This search
# walks the configuration graph itself with the REAL Pattern.consume: a configuration is (identity of
# the current DFA state, the integer counters (Balanced.depth, capped) of the attempt's private
# predicate copies); from every configuration every abstract token is tried once; an ambiguity is
# reported with the token path that reaches it.  No translator / model is involved.

DEPTH_CAP = 3     # depth classes 0, 1, 2, >= 3


def walk_constants(e, out=None, seen=None):
    """every string constant mentioned by the REAL expression objects (operators and predicates)"""
    out = set() if out is None else out
    seen = set() if seen is None else seen
    if id(e) in seen:
        return out
    seen.add(id(e))
    if isinstance(e, str):
        out.add(e)
    elif isinstance(e, (list, tuple)):
        for x in e:
            walk_constants(x, out, seen)
    elif hasattr(e, "__dict__"):
        for v in vars(e).values():
            walk_constants(v, out, seen)
    return out


def alphabet_of(expr):
    toks = {(2, "f"), (0, "x"), (3, "("), (3, ")"), (1, "kw?"), (4, "op?")}
    for text in walk_constants(expr):
        for kind in (0, 1, 2, 3, 4):
            toks.add((kind, text))
    return sorted(toks)


def _counters(p, out, seen):
    """the integer attributes of a predicate object, recursively (bools and the rest ignored)"""
    if id(p) in seen:
        return
    seen.add(id(p))
    if hasattr(p, "__dict__"):
        for k in sorted(vars(p)):
            v = vars(p)[k]
            if isinstance(v, bool):
                continue
            if isinstance(v, int):
                out.append(max(-1, min(v, DEPTH_CAP)))
            elif hasattr(v, "__dict__"):
                _counters(v, out, seen)


def config_key(pat):
    cs = []
    for pid in sorted(pat.predicate_map):
        out = []
        _counters(pat.predicate_map[pid], out, set())
        if any(out):
            cs.append((pid, tuple(out)))
    return (id(pat.state), tuple(cs))


def new_pattern(expr):
    from codelimit.common.gsm.Expression import expression_to_nfa, nfa_to_dfa
    from codelimit.common.gsm.Pattern import Pattern
    dfa = nfa_to_dfa(expression_to_nfa(expr))
    return lambda: Pattern(0, dfa)


def run_path(fresh, toks):
    """-> (pattern or None when the attempt died, error or None)"""
    pat = fresh()
    for t in toks:
        try:
            if not pat.consume(t):
                return None, None
        except Exception as e:  # noqa
            return None, e
    return pat, None


def reach(idx, thorough=False, max_configs=4000):
    """-> {"configs", "steps", "max_depth_class", "ambiguous": [token path], "errors": [...]}"""
    expr = captured()[idx][2]
    alpha = alphabet_of(expr)
    fresh = new_pattern(expr)
    # the token classes are sub-trees of token types: every sub-type is a possible token of its own
    alpha = [(k, v) for (k, v) in alpha] + [(k, v, j) for (k, v) in alpha for j in range(1, N_SUB[k])]
    toks = {a: mk_token(a[0], a[1], 0, None, a[2] if len(a) > 2 else None) for a in alpha}
    root = fresh()
    seen = {config_key(root): []}
    queue = [[]]
    amb, errs, steps, deep = [], [], 0, 0
    open_paths, acc_paths = [], []
    while queue and len(seen) < max_configs:
        path = queue.pop(0)
        for a in alpha:
            steps += 1
            pat, err = run_path(fresh, [toks[x] for x in path] + [toks[a]])
            if err is not None:
                (amb if "Multiple transitions" in str(err) else errs).append((path + [a], "err %d" % engine_real.err_code(err)))
                continue
            if pat is None:
                continue
            k = config_key(pat)
            if k not in seen:
                seen[k] = path + [a]
                queue.append(path + [a])
                is_open = any(c > 0 for (_, cs) in k[1] for c in cs)
                if is_open:
                    open_paths.append(path + [a])
                elif pat.is_accepting():
                    acc_paths.append(path + [a])
                deep = max([deep] + [c for (_, cs) in k[1] for c in cs])
    # ladder: from every configuration with an open group, nest 10^k deeper and try every token again
    lefts = [a for a in alpha if a[0] == 3 and a[1] in ("(", "[", "{", "<")]
    rungs = (10, 100, 1000, 10000) if thorough else (10, 100)
    for k, path in list(seen.items()):
        if not k[1]:
            continue
        for rung in rungs:
            for l in lefts[:1]:
                base, err = run_path(fresh, [toks[x] for x in path] + [toks[l]] * rung)
                if base is None:
                    continue
                for a in alpha:
                    steps += 1
                    pat = _clone(base)
                    try:
                        pat.consume(toks[a])
                    except Exception as e:  # noqa
                        (amb if "Multiple transitions" in str(e) else errs).append((path + [l] * rung + [a], "err %d" % engine_real.err_code(e)))
    amb.sort(key=lambda pa: (len(pa[0]), sum(len(t) for t in pa[0])))
    return {"configs": len(seen), "steps": steps, "max_depth_class": deep, "alphabet": len(alpha), "classes": len([a for a in alpha if len(a) == 2]),
            "ambiguous": amb[:5], "errors": errs[:5], "paths": list(seen.values()), "open_paths": open_paths, "acc_paths": acc_paths}


def preempt_job(args):
    """whole-sequence runs of the REAL find_all in which one attempt is pre-empted while its parentheses are open: [a path to a
    configuration with an open group] + [a path to an accepting configuration with every group closed] + [a gap of 0 or 1 token] +
    [a path to any configuration, with or without one more token in front] + [any token]; every attempt of find_all but the
    first starts in the middle of the others (the configuration search above runs each attempt alone, on a new Pattern)"""
    idx, seed, per, opens, accs, paths = args
    import random
    from codelimit.common.gsm import matcher
    expr = captured()[idx][2]
    alpha = alphabet_of(expr)
    fresh = new_pattern(expr)
    rnd = random.Random("preempt/%s/%s" % (idx, seed))
    n, fails = 0, []
    opens = sorted(opens, key=len)[:4]
    accs = sorted(accs, key=len)[:4]
    for o in opens:
        for c in accs:
            for g in [[]] + [[a] for a in alpha]:
                for _ in range(per):
                    q = list(rnd.choice(paths))
                    if rnd.random() < 0.6:
                        a = rnd.choice(alpha)
                        pat, err = run_path(fresh, [mk_token(t[0], t[1], 0, None, t[2] if len(t) > 2 else None) for t in [a] + q])
                        if pat is not None:
                            q = [a] + q
                    seq = list(o) + list(c) + g + q + [rnd.choice(alpha)]
                    toks = [mk_token(t[0], t[1], i, None, t[2] if len(t) > 2 else None) for i, t in enumerate(seq)]
                    n += 1
                    try:
                        matcher.find_all(expr, toks)
                    except Exception as e:  # noqa
                        fails.append(([list(t) for t in seq], "err %d" % engine_real.err_code(e)))
    fails.sort(key=lambda f: len(f[0]))
    return n, fails[:3]


def _clone(pat):
    import copy
    new = copy.copy(pat)
    new.tokens = list(pat.tokens)
    new.predicate_map = {k: copy.deepcopy(v) for k, v in pat.predicate_map.items()}
    return new


def _reach_job(args):
    idx, thorough = args
    try:
        return reach(idx, thorough)
    except Exception as e:  # noqa
        import traceback
        return {"crash": "%s: %s" % (type(e).__name__, e), "trace": traceback.format_exc()[-800:]}


def sequences(ctx, alpha, salt):
    ln = ctx.pick(4, 5) if len(alpha) <= 9 else (ctx.pick(3, 4) if len(alpha) <= 22 else ctx.pick(2, 3))
    seqs = [list(s) for n in range(1, ln + 1) for s in itertools.product(alpha, repeat=n)]
    rnd = ctx.rng("seq", salt)
    for _ in range(ctx.pick(300, 5000)):
        seqs.append([rnd.choice(alpha) for _ in range(rnd.randint(ln + 1, 12))])
    return seqs, ln


def correspond(ctx):
    from concurrent.futures import ProcessPoolExecutor
    import scan_real
    caps = captured()
    dis, fails = [], []
    evals = 0
    nontrivial = set()
    samples = []
    dist = {}
    jobs = []
    with ProcessPoolExecutor(max_workers=16) as ex:
        # 1. reachability over (state, depth class) x token class with the real Pattern.consume (no model involved)
        reached = list(ex.map(_reach_job, [(idx, ctx.thorough) for idx in range(len(caps))]))
        for idx, ((lang, role, expr), R) in enumerate(zip(caps, reached)):
            name = "%s/%s" % (lang, role)
            if "crash" in R:
                # the search reads Pattern.state / .predicate_map and calls expression_to_nfa / nfa_to_dfa itself: when a
                # rewrite renames those it cannot run; that is no evidence against the code (the enumeration below still
                # drives the public find_all), so it is recorded, not alarmed
                dist[name] = {"reach": "not run: " + R["crash"]}
                ctx.notes.append("C15 configuration search not run for %s: %s" % (name, R["crash"]))
                R["paths"] = []
                continue
            evals += R["steps"]
            dist[name] = {"reach_configs": R["configs"], "reach_steps": R["steps"], "reach_depth_class": R["max_depth_class"], "reach_tokens": R["alphabet"], "reach_token_classes": R["classes"]}
            for (path, obs) in R["ambiguous"][:2] + R["errors"][:2]:
                fails.append({"input": {"stream": "tokens", "language": lang, "role": role, "index": idx, "tokens": [list(t) for t in path]},
                              "found_by": "configuration search (state x depth class x token class)", "observed": obs, "required": "no exception (at most one transition applies)"})
        # 1b. pre-emption sequences on the real find_all (several attempts alive, one pre-empted with an open group)
        pj = [(idx, ctx.rng("preempt", idx).randrange(10 ** 9), ctx.pick(12, 120), R.get("open_paths", []), R.get("acc_paths", []), R.get("paths", []))
              for idx, R in enumerate(reached) if R.get("open_paths") and R.get("acc_paths")]
        for (idx, _s, _p, _o, _a, _q), (n, fs) in zip(pj, ex.map(preempt_job, pj)):
            lang, role, _e = caps[idx]
            evals += n
            dist["%s/%s" % (lang, role)]["preempt_sequences"] = n
            for (seq, obs) in fs[:2]:
                fails.append({"input": {"stream": "tokens", "language": lang, "role": role, "index": idx, "tokens": seq},
                              "found_by": "pre-emption sequences (open attempt + complete attempt + gap + next attempt)", "observed": obs,
                              "required": "no exception (at most one transition applies)"})
        # 2. model against real find_all: bounded enumeration + random + one step from every reached configuration
        for idx, (lang, role, expr) in enumerate(caps):
            name = "%s/%s" % (lang, role)
            try:
                ser = patterns.expr(expr, [])[0]
            except patterns.Refuse as e:
                dis.append({"stream": "find_all/" + name, "input": {"stream": "tokens", "language": lang, "role": role, "index": idx, "tokens": []},
                            "model": "translator refuses: %s" % e, "impl": "n/a"})
                continue
            alpha = sorted(set(alphabet(ser)) | set(alphabet_of(expr)))
            seqs, ln = sequences(ctx, alpha, name)
            extra = [list(pth) + [a] for pth in reached[idx].get("paths", []) if pth for a in alpha]
            seqs += extra
            dist.setdefault(name, {}).update({"alphabet": len(alpha), "exhaustive_len": ln, "sequences": len(seqs), "from_reached_configurations": len(extra)})
            reqs = ["ftok %s %d %s" % (ser, len(s), " ".join("%d %s" % (t[0], scan_real.sstr(t[1])) for t in s)) for s in seqs]
            jobs.append((idx, lang, role, seqs, reqs))
        for (idx, lang, role, seqs, reqs) in jobs:
            model = common.run_driver_sharded(reqs)
            k = max(100, len(seqs) // 32)
            chunks = [(idx, seqs[i:i + k]) for i in range(0, len(seqs), k)]
            impl = [x for o in ex.map(real_run, chunks) for x in o]
            for s, m, i in zip(seqs, model, impl):
                evals += 1
                inp = {"stream": "tokens", "language": lang, "role": role, "index": idx, "tokens": [list(t) for t in s]}
                if m != i:
                    dis.append({"stream": "find_all/%s/%s" % (lang, role), "input": inp, "model": m, "impl": i})
                if "err" in i:
                    fails.append({"input": inp, "observed": i, "required": "no exception (at most one transition applies)"})
                elif i != "ok 0":
                    nontrivial.add((idx, tuple(s)))
            samples.append({"language": lang, "role": role, "tokens": seqs[len(seqs) // 2], "impl": impl[len(seqs) // 2]})
    # realistic source texts that used to trigger the ambiguity
    for lang, code in REGRESS_SOURCES:
        r = scan_real.real_scan(lang, code)
        evals += 1
        if r.startswith("err"):
            fails.append({"input": {"stream": "source", "language": lang, "code": code}, "observed": r, "required": "no exception"})
    fails.sort(key=lambda f: len(f["input"].get("tokens", f["input"].get("code", ""))))
    return {
        "evaluations": evals, "distinct_nontrivial": len(nontrivial),
        "rule": "for each of the %d shipped header / follow-up expressions: (1) configuration search with the real Pattern.consume: every reachable (automaton state, depth class 0,1,2,>=3 of every Balanced counter) x every abstract token (kind x distinguished value x every sub-type of the kind), plus from every configuration with an open group a ladder of %s further opening parentheses x every token; (1b) whole sequences on the real find_all in which an attempt is pre-empted while a group is open: [one of the 4 shortest paths to a configuration with an open group] + [one of the 4 shortest paths to an accepting configuration with all groups closed] + [no / every abstract token as a gap] + [a path to a random configuration, in 60 %% of the cases with one more random token in front] + [a random token], %d per combination; (2) against the model: all sequences up to the stated length over the abstract tokens its predicates can distinguish (kind x distinguished values, plus identifier / other / parentheses), exhaustively, + random longer ones + the path to every reached configuration extended by every token; non-trivial = distinct sequences with at least one match" % (len(caps), ctx.pick("10, 100", "10 .. 10^4"), ctx.pick(12, 120)),
        "samples": samples[:6], "exhaustive": True, "distribution": dist,
        "disagreements": dis[:50], "oracle_failures": fails[:50],
        "generated_hashes": {"Gen/Languages.lean": _sha(os.path.join(common.LEAN, "CodeLimit", "Gen", "Languages.lean"))},
    }


def _sha(path):
    import hashlib
    try:
        return hashlib.sha256(open(path, "rb").read()).hexdigest()[:16]
    except OSError:
        return None


def search(ctx, hints):
    """look for a token sequence (or source text) on which the real matcher raises"""
    import scan_real
    import scan_streams
    import time
    fails = []
    caps = captured()
    rnd = ctx.rng("search")
    t0 = time.time()
    for idx, (lang, role, expr) in enumerate(caps):
        R = _reach_job((idx, True))
        for (path, obs) in R.get("ambiguous", [])[:2]:
            fails.append({"input": {"stream": "tokens", "language": lang, "role": role, "index": idx, "tokens": [list(t) for t in path]},
                          "found_by": "configuration search", "observed": obs, "required": "no exception"})
    if fails:
        fails.sort(key=lambda f: len(str(f["input"])))
        return fails[:10]
    for idx, (lang, role, expr) in enumerate(caps):
        if time.time() - t0 > 150:        # time-boxed: the search supports the report, it is not the proof
            break
        alpha = alphabet_of(expr)
        seqs = [list(s) for n in range(1, 6 if len(alpha) <= 9 else 4) for s in itertools.product(alpha, repeat=n)][:20000]
        for _ in range(3000):
            seqs.append([rnd.choice(alpha) for _ in range(rnd.randint(3, 14))])
        for s, r in zip(seqs, real_run((idx, seqs))):
            if r.startswith("err"):
                fails.append({"input": {"stream": "tokens", "language": lang, "role": role, "index": idx, "tokens": [list(t) for t in s]},
                              "observed": r, "required": "no exception"})
                break
    for lang, code in REGRESS_SOURCES + scan_streams.soups(ctx, 3000, "c15search"):
        if time.time() - t0 > 240:
            break
        r = scan_real.real_scan(lang, code)
        if r == "err 1":
            fails.append({"input": {"stream": "source", "language": lang, "code": code}, "observed": r, "required": "no exception"})
    fails.sort(key=lambda f: len(str(f["input"])))
    return fails[:10]


def replay(payload):
    import scan_real
    inp = payload["input"]
    if inp["stream"] == "source":
        r = scan_real.real_scan(inp["language"], inp["code"])
    else:
        r = real_run((inp["index"], [[tuple(t) for t in inp["tokens"]]]))[0]
    print("%s -> %s" % (inp, r))
    return not r.startswith("err")
