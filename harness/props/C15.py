"""C15 - built-in header patterns are unambiguous on every token.

Tie: translator/patterns.py extracts the header / follow-up expressions from the running code
into Gen/Languages.lean; Props/C15.lean proves (by a decidable checker with a soundness theorem,
evaluated in the kernel on the regenerated patterns) that no reachable configuration has two
applicable transitions. Correspondence: the real `match` on every pattern over all sequences
of abstract tokens up to a bound (every token class the pattern's predicates can distinguish)
against the model; oracle: no sequence raises the ambiguity error."""
import itertools
import os
import sys

sys.path.insert(0, os.path.dirname(os.path.dirname(os.path.abspath(__file__))))
sys.path.insert(0, os.path.join(os.path.dirname(os.path.dirname(os.path.dirname(os.path.abspath(__file__)))), "translator"))
import common
import engine_real
import patterns

ID = "C15"
TRUSTED = [
    "translator/patterns.py (extraction of the shipped expressions from the running code and their serialisation)",
    "correspondence harness harness/props/C15.py",
]
ASSUMPTIONS = ["token classes are those the Token.is_* methods test (Keyword/Name/Punctuation/Operator subtrees, exact Text/Whitespace)"]
REGRESS_SOURCES = [("JavaScript", "const f = (cb = () => 0) => {\n}\n"), ("TypeScript", "x = (a.map(y => y))\n"),
                   ("JavaScript", "f = ( => \n")]


def regen(ctx):
    try:
        langs = patterns.extract(common.REPO)
    except patterns.Refuse as e:
        return [str(e)]
    common.write_if_changed(os.path.join(common.LEAN, "CodeLimit", "Gen", "Languages.lean"), patterns.lean_module(langs))
    return []


def captured():
    """[(language, role, real expression object)]"""
    import importlib
    from codelimit.languages import Languages
    out = []
    for name in patterns.LANGS:
        lang = Languages.by_name[name]
        mod = importlib.import_module(type(lang).__module__)
        calls = []
        saved = mod.get_headers
        mod.get_headers = lambda tokens, expression, followed_by=None, *a, _c=calls, **kw: (_c.append((expression, followed_by)), [])[1]   # further arguments a change may add are ignored here; the correspondence shows whether they matter
        try:
            lang.extract_headers([])
        finally:
            mod.get_headers = saved
        for k, (e, f) in enumerate(calls):
            out.append((name, "header%d" % k, e))
            if f:
                out.append((name, "follow%d" % k, f))
    return out


def constants(expr_ser):
    """string constants mentioned in a serialised expression: [(kind letter, text)]"""
    ws = expr_ser.split()
    out = []
    i = 0
    while i < len(ws):
        if ws[i] in ("K", "S", "O", "V", "I"):
            n = int(ws[i + 1])
            out.append((ws[i], "".join(chr(int(c)) for c in ws[i + 2:i + 2 + n])))
            i += 2 + n
        else:
            i += 1
    return out


def alphabet(expr_ser):
    """abstract tokens: every (kind, value) a predicate of the pattern can distinguish"""
    kinds = {"K": 1, "S": 3, "O": 4}
    toks = {(2, "f"), (0, "x"), (3, "("), (3, ")"), (1, "kw?"), (4, "op?")}
    for (k, text) in constants(expr_ser):
        # every distinguished value in every token kind: a predicate must not accept its value
        # in a kind it is not about (e.g. an identifier spelled like a keyword)
        for kind in (0, 1, 2, 3, 4):
            toks.add((kind, text))
    return sorted(toks)


def mk_token(kind, val, i, rnd=None):
    """a real Token of the given class; with `rnd`, of a random SUB-type of that class (the model
    only knows the class: `Token.is_*` are subtree tests, so sub-types must not matter - e.g. the
    TypeScript lexer emits `Keyword.Type` for any word after a colon, seeded change C15-4)"""
    from pygments.token import Keyword, Name, Punctuation, Operator, Literal, Generic, Other, Error, Number
    from codelimit.common.Location import Location
    from codelimit.common.Token import Token
    sub = {0: [Literal, Number, Number.Integer, Generic, Other, Error, Literal.Date],
           1: [Keyword, Keyword.Type, Keyword.Declaration, Keyword.Reserved, Keyword.Constant, Keyword.Namespace, Keyword.Pseudo],
           2: [Name, Name.Function, Name.Class, Name.Builtin, Name.Other, Name.Decorator, Name.Attribute, Name.Label, Name.Variable.Magic],
           3: [Punctuation, Punctuation.Marker],
           4: [Operator, Operator.Word]}[kind]
    tt = rnd.choice(sub) if rnd is not None else sub[0]
    return Token(Location(1, i + 1), tt, val)


def real_run(args):
    idx, seqs = args
    from codelimit.common.gsm import matcher
    expr = captured()[idx][2]
    out = []
    import random
    for seq in seqs:
        rs = []
        # once with the root type of every class, once with random sub-types (seeded by the sequence)
        for rnd in (None, random.Random(repr(seq))):
            toks = [mk_token(k, v, i, rnd) for i, (k, v) in enumerate(seq)]
            try:
                ps = matcher.find_all(expr, toks)
                r = "ok %d" % len(ps) + "".join(" %d %d %d" % (p.start, p.end, len(p.tokens)) for p in ps)
            except Exception as e:  # noqa
                r = "err %d" % engine_real.err_code(e)
            rs.append(r)
        out.append(rs[0] if rs[0] == rs[1] else rs[1] + "   [sub-typed tokens; root-typed: " + rs[0] + "]")
    return out


def sequences(ctx, alpha, salt):
    ln = ctx.pick(4, 5) if len(alpha) <= 9 else (ctx.pick(3, 4) if len(alpha) <= 22 else ctx.pick(2, 3))
    seqs = [list(s) for n in range(1, ln + 1) for s in itertools.product(alpha, repeat=n)]
    rnd = ctx.rng("seq", salt)
    for _ in range(ctx.pick(300, 5000)):
        seqs.append([rnd.choice(alpha) for _ in range(rnd.randint(ln + 1, 12))])
    return seqs, ln


def correspond(ctx):
    from concurrent.futures import ProcessPoolExecutor
    import scan_real
    caps = captured()
    dis, fails = [], []
    evals = 0
    nontrivial = set()
    samples = []
    dist = {}
    jobs = []
    for idx, (lang, role, expr) in enumerate(caps):
        ser = patterns.expr(expr, [])[0]
        alpha = alphabet(ser)
        seqs, ln = sequences(ctx, alpha, "%s/%s" % (lang, role))
        dist["%s/%s" % (lang, role)] = {"alphabet": len(alpha), "exhaustive_len": ln, "sequences": len(seqs)}
        reqs = ["ftok %s %d %s" % (ser, len(s), " ".join("%d %s" % (k, scan_real.sstr(v)) for (k, v) in s)) for s in seqs]
        jobs.append((idx, lang, role, seqs, reqs))
    with ProcessPoolExecutor(max_workers=16) as ex:
        for (idx, lang, role, seqs, reqs) in jobs:
            model = common.run_driver_sharded(reqs)
            k = max(100, len(seqs) // 32)
            chunks = [(idx, seqs[i:i + k]) for i in range(0, len(seqs), k)]
            impl = [x for o in ex.map(real_run, chunks) for x in o]
            for s, m, i in zip(seqs, model, impl):
                evals += 1
                inp = {"stream": "tokens", "language": lang, "role": role, "index": idx, "tokens": [list(t) for t in s]}
                if m != i:
                    dis.append({"stream": "find_all/%s/%s" % (lang, role), "input": inp, "model": m, "impl": i})
                if i.startswith("err"):
                    fails.append({"input": inp, "observed": i, "required": "no exception (at most one transition applies)"})
                elif i != "ok 0":
                    nontrivial.add((idx, tuple(s)))
            samples.append({"language": lang, "role": role, "tokens": seqs[len(seqs) // 2], "impl": impl[len(seqs) // 2]})
    # realistic source texts that used to trigger the ambiguity
    for lang, code in REGRESS_SOURCES:
        r = scan_real.real_scan(lang, code)
        evals += 1
        if r.startswith("err"):
            fails.append({"input": {"stream": "source", "language": lang, "code": code}, "observed": r, "required": "no exception"})
    return {
        "evaluations": evals, "distinct_nontrivial": len(nontrivial),
        "rule": "for each of the %d shipped header / follow-up expressions: all sequences up to the stated length over the abstract tokens its predicates can distinguish (kind x distinguished values, plus identifier / other / parentheses), exhaustively, + random longer ones; non-trivial = distinct sequences with at least one match" % len(caps),
        "samples": samples[:6], "exhaustive": True, "distribution": dist,
        "disagreements": dis[:50], "oracle_failures": fails[:50],
        "generated_hashes": {"Gen/Languages.lean": _sha(os.path.join(common.LEAN, "CodeLimit", "Gen", "Languages.lean"))},
    }


def _sha(path):
    import hashlib
    try:
        return hashlib.sha256(open(path, "rb").read()).hexdigest()[:16]
    except OSError:
        return None


def search(ctx, hints):
    """look for a token sequence (or source text) on which the real matcher raises"""
    import scan_real
    import scan_streams
    import time
    fails = []
    caps = captured()
    rnd = ctx.rng("search")
    t0 = time.time()
    for idx, (lang, role, expr) in enumerate(caps):
        if time.time() - t0 > 150:        # time-boxed: the search supports the report, it is not the proof
            break
        ser = patterns.expr(expr, [])[0]
        alpha = alphabet(ser)
        seqs = [list(s) for n in range(1, 6 if len(alpha) <= 9 else 4) for s in itertools.product(alpha, repeat=n)][:20000]
        for _ in range(3000):
            seqs.append([rnd.choice(alpha) for _ in range(rnd.randint(3, 14))])
        for s, r in zip(seqs, real_run((idx, seqs))):
            if r.startswith("err"):
                fails.append({"input": {"stream": "tokens", "language": lang, "role": role, "index": idx, "tokens": [list(t) for t in s]},
                              "observed": r, "required": "no exception"})
                break
    for lang, code in REGRESS_SOURCES + scan_streams.soups(ctx, 3000, "c15search"):
        if time.time() - t0 > 240:
            break
        r = scan_real.real_scan(lang, code)
        if r == "err 1":
            fails.append({"input": {"stream": "source", "language": lang, "code": code}, "observed": r, "required": "no exception"})
    fails.sort(key=lambda f: len(str(f["input"])))
    return fails[:10]


def replay(payload):
    import scan_real
    inp = payload["input"]
    if inp["stream"] == "source":
        r = scan_real.real_scan(inp["language"], inp["code"])
    else:
        r = real_run((inp["index"], [[tuple(t) for t in inp["tokens"]]]))[0]
    print("%s -> %s" % (inp, r))
    return not r.startswith("err")
